#!/usr/bin/env python3
"""prints the markdown table of seeded changes from seeded/*/meta.json (used for DESIGN.md 0.4)"""
import json, glob, os, re
V = os.path.dirname(os.path.dirname(os.path.abspath(__file__)))
rows = []
for mp in sorted(glob.glob(V + '/seeded/*/meta.json')):
    m = json.load(open(mp)); name = os.path.basename(os.path.dirname(mp))
    det = m.get('detected_by') or {}
    own = m['property']
    ds = []
    for p in sorted(det, key=lambda x: (x != own, x)):
        k = det[p][0]
        k = re.sub(r'\s+(db|column|log|table|btree|index|migration|options)::\S+.*$', '', k)
        ds.append('%s `%s`' % (p, k[:60]))
    d = '; '.join(ds[:3]) + (' (+%d more checks)' % (len(ds) - 3) if len(ds) > 3 else '') if ds else '**not detected** - ' + m.get('not_detected_reason', '')
    conf = 'yes' if 'demo_with=101' in m.get('confirmed_by_me', '') or 'want !=0' in m.get('confirmed_by_me', '') else m.get('confirmed_by_me', '')[:20]
    rows.append('| %s | %s | %s | %s |' % (name, m.get('needs_to_manifest', '')[:170], d, m.get('rule_origin', '')[:200]))
print('| seeded change | needs, to manifest | caught by (first obligation key per check) | origin of the rule |')
print('|---|---|---|---|')
print('\n'.join(rows))
print('\n%d seeded changes; own-property check fires on %d; some check fires on %d.' % (
    len(rows), sum(1 for mp in glob.glob(V + '/seeded/*/meta.json') for m in [json.load(open(mp))] if m['property'] in (m.get('detected_by') or {})),
    sum(1 for mp in glob.glob(V + '/seeded/*/meta.json') for m in [json.load(open(mp))] if m.get('detected_by'))))
