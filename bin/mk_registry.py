#!/usr/bin/env python3
"""(re)writes rules/registry.json from the facts of /repo's current tree: the names (with types / signatures) of struct fields and
functions the rules were written against. At load time core.Facts uses it to recognise a pure rename: a registered name that is
gone while exactly one new name of the same struct (same type) / same impl (same signature) appeared is treated as that name.
Run deliberately (after reviewing a rename), never from a check."""
import os, sys, json
V = os.path.dirname(os.path.dirname(os.path.abspath(__file__)))
sys.path.insert(0, os.path.join(V, 'rules'))
import engine
F = engine.get_facts('default')
reg = {'fields': {}, 'fns': {}}
for path, a in F.adts.items():
    if a['kind'] == 'Struct' and len(a['variants']) == 1:
        reg['fields'][path] = {f['name']: f['ty'] for f in a['variants'][0]['fields']}
for b in F.raw['bodies']:
    if b['kind'] != 'Closure' and '{closure' not in b['path'] and not b['path'].startswith('<'):
        reg['fns'][b['path']] = b.get('sig', '')
json.dump(reg, open(os.path.join(V, 'rules', 'registry.json'), 'w'), indent=0, sort_keys=True)
print('registry: %d structs, %d functions' % (len(reg['fields']), len(reg['fns'])))
