"""run several ./check invocations against a scratch copy: the first alone (it extracts the facts), the others in parallel"""
import os, re, subprocess
from concurrent.futures import ThreadPoolExecutor
VERIF = os.path.dirname(os.path.dirname(os.path.abspath(__file__)))

def one(p, env):
    r = subprocess.run([os.path.join(VERIF, 'check'), p], cwd=VERIF, env=env, stdout=subprocess.PIPE, stderr=subprocess.STDOUT, text=True)
    return p, r.returncode, r.stdout

def run(props, env, workers=8):
    props = list(props)
    out = {}
    if not props:
        return out
    p, rc, txt = one(props[0], env)
    out[p] = (rc, txt)
    with ThreadPoolExecutor(max_workers=workers) as ex:
        for p, rc, txt in ex.map(lambda q: one(q, env), props[1:]):
            out[p] = (rc, txt)
    return out
