"""run several ./check invocations against a scratch copy: the first alone (it extracts the facts), the others in parallel"""
import os, re, subprocess
from concurrent.futures import ThreadPoolExecutor
VERIF = os.path.dirname(os.path.dirname(os.path.abspath(__file__)))

def snapshot(env):
    """the rules as they are when the run starts, so that rule edits during a long regression run do not leak into it"""
    cache = env.get('PDB_CACHE')
    if not cache:
        return VERIF
    snap = os.path.join(cache, 'verif-snap')
    if not os.path.exists(os.path.join(snap, '.done')):
        import shutil
        shutil.rmtree(snap, ignore_errors=True)
        os.makedirs(os.path.join(snap, 'bin')); os.makedirs(os.path.join(snap, 'driver', 'target', 'release'))
        shutil.copy2(os.path.join(VERIF, 'check'), snap)
        shutil.copy2(os.path.join(VERIF, 'known_findings.txt'), snap)
        shutil.copy2(os.path.join(VERIF, 'bin', 'extract_facts.sh'), os.path.join(snap, 'bin'))
        shutil.copy2(os.path.join(VERIF, 'driver', 'target', 'release', 'pdb-facts'), os.path.join(snap, 'driver', 'target', 'release'))
        shutil.copytree(os.path.join(VERIF, 'rules'), os.path.join(snap, 'rules'), ignore=shutil.ignore_patterns('__pycache__'))
        open(os.path.join(snap, '.done'), 'w').close()
    return snap

def one(p, env):
    root = snapshot(env)
    r = subprocess.run([os.path.join(root, 'check'), p], cwd=root, env=env, stdout=subprocess.PIPE, stderr=subprocess.STDOUT, text=True)
    return p, r.returncode, r.stdout

def run(props, env, workers=8):
    props = list(props)
    out = {}
    if not props:
        return out
    p, rc, txt = one(props[0], env)
    out[p] = (rc, txt)
    with ThreadPoolExecutor(max_workers=workers) as ex:
        for p, rc, txt in ex.map(lambda q: one(q, env), props[1:]):
            out[p] = (rc, txt)
    return out
