#!/usr/bin/env python3
"""Tests the checker both ways on a scratch copy of /repo (never touches /repo):
 - every mutant of selftest/mutants.py, every seeded change in /verif/seeded/*/patch.diff, and the reversal of
   every `fix:` commit must make the named check exit 1 with the expected key;
 - behaviour-preserving controls and the unchanged tree must stay silent.
usage: bin/selftest.py [name-substring ...] [--props C01,C02] [--keep]"""
import os, sys, subprocess, shutil, json, re, glob, tempfile
VERIF = os.path.dirname(os.path.dirname(os.path.abspath(__file__)))
sys.path.insert(0, os.path.join(VERIF, 'selftest'))
import mutants
sys.path.insert(0, os.path.dirname(os.path.abspath(__file__)))
args = [a for a in sys.argv[1:] if not a.startswith('--')]
S = tempfile.mkdtemp(prefix='pdb-selftest.')
REPO = os.path.join(S, 'repo')
CACHE = os.path.join(S, 'cache')
def sh(*a, **k):
    return subprocess.run(*a, **k)
PRISTINE = os.path.join(S, 'pristine')      # /repo HEAD-tracked + working-tree content at start; later edits of /repo do not leak in
sh(['rsync', '-a', '--exclude', 'target', '--exclude', '.git', '/repo/', PRISTINE + '/'], check=True)
sh(['rsync', '-a', PRISTINE + '/', REPO + '/'], check=True)
env = dict(os.environ, PDB_REPO=REPO, PDB_CACHE=CACHE)
claimed = [c['property_id'] for c in json.load(open(os.path.join(VERIF, 'MANIFEST.json')))['checks']]
import _runchecks
def run_checks(props):
    out = {}
    for p, (rc, txt) in _runchecks.run(props, env).items():
        keys = re.findall(r'^VIOLATED \[[^\]]*\] (.*)$', txt, re.M)
        fatal = 'FATAL' in txt or 'Traceback' in txt
        out[p] = (rc, keys, fatal, txt[-600:] if fatal else '')
    return out
def restore():
    sh(['rsync', '-a', '--delete', PRISTINE + '/', REPO + '/'], check=True)
fails = 0
def report(name, ok, msg):
    global fails
    print('%-46s %s %s' % (name, 'ok  ' if ok else 'FAIL', msg))
    if not ok:
        fails += 1
def selected(name):
    return not args or any(a in name for a in args)
# unchanged tree
if not args:
    res = run_checks(claimed)
    for p, (rc, keys, fatal, tail) in res.items():
        report('unchanged/' + p, rc == 0 and not fatal, '' if rc == 0 else str(keys[:2]) + tail)
# mutants
for m in mutants.M:
    if not selected(m['name']):
        continue
    f = os.path.join(REPO, m['file'])
    s = open(f).read()
    if s.count(m['old']) != m['count']:
        report(m['name'], False, 'anchor text not found %d times in %s (mutant out of date)' % (m['count'], m['file']))
        continue
    s = s.replace(m['old'], m['new'])
    okm = True
    for (o2, n2) in m.get('more', ()):
        if s.count(o2) != 1:
            okm = False
        s = s.replace(o2, n2)
    if not okm:
        report(m['name'], False, 'secondary anchor text not found'); continue
    open(f, 'w').write(s)
    res = run_checks([p for p in m['expect'] if p in claimed])
    for p, subs in m['expect'].items():
        if p not in claimed:
            continue
        rc, keys, fatal, tail = res[p]
        ok = rc == 1 and not fatal and all(any(sub in k for k in keys) for sub in subs)
        report(m['name'] + '/' + p, ok, '' if ok else 'rc=%d keys=%s %s' % (rc, keys[:3], tail))
    restore()
# controls
for c in mutants.CONTROLS:
    if not selected(c['name']):
        continue
    f = os.path.join(REPO, c['file'])
    s = open(f).read()
    if c.get('regex'):
        if not re.search(c['old'], s):
            report(c['name'], False, 'anchor regex not found'); continue
        s = re.sub(c['old'], c['new'], s)
    else:
        if s.count(c['old']) < 1:
            report(c['name'], False, 'anchor text not found'); continue
        s = s.replace(c['old'], c['new'])
    if c['name'] in mutants.EXTRA_FILES:
        ef, eo, en = mutants.EXTRA_FILES[c['name']]
        assert ef == c['file'] and s.count(eo) == 1
        s = s.replace(eo, en)
    open(f, 'w').write(s)
    res = run_checks(claimed)
    bad = {p: v[1][:2] for p, v in res.items() if v[0] != 0}
    report(c['name'], not bad, str(bad) if bad else 'silent on %d checks' % len(claimed))
    restore()
# patch-based behaviour-preserving controls
for pf in sorted(glob.glob(os.path.join(VERIF, 'selftest', 'controls', '*.diff')) + ([] if '--fast' in sys.argv else glob.glob(os.path.join(VERIF, 'selftest', 'controls', 'refactor', '*.diff')))):
    name = os.path.basename(pf)[:-5]
    if not selected(name):
        continue
    r = sh(['git', 'apply', pf], cwd=REPO)
    if r.returncode != 0:
        report(name, False, 'control patch does not apply'); restore(); continue
    res = run_checks(claimed)
    bad = {p: v[1][:2] for p, v in res.items() if v[0] != 0}
    report(name, not bad, str(bad) if bad else 'silent on %d checks' % len(claimed))
    restore()
# seeded changes
for d in sorted(glob.glob(os.path.join(VERIF, 'seeded', '*'))):
    name = 'seeded/' + os.path.basename(d)
    if not selected(name) or not os.path.exists(os.path.join(d, 'meta.json')):
        continue
    meta = json.load(open(os.path.join(d, 'meta.json')))
    exp = meta.get('detected_by', {})
    if not exp:
        print('%-46s --   not expected to be detected (%s)' % (name, meta.get('not_detected_reason', '?')[:80])); continue
    r = sh(['git', 'apply', os.path.join(d, 'patch.diff')], cwd=REPO)
    if r.returncode != 0:
        report(name, False, 'patch does not apply to the current tree'); restore(); continue
    res = run_checks([p for p in exp if p in claimed])
    for p, subs in exp.items():
        if p not in claimed:
            continue
        rc, keys, fatal, tail = res[p]
        ok = rc == 1 and not fatal and all(any(sub in k for k in keys) for sub in subs)
        report(name + '/' + p, ok, '' if ok else 'rc=%d keys=%s %s' % (rc, keys[:3], tail))
    restore()
# reverted fixes
for line in open(os.path.join(VERIF, 'known_findings.txt')):
    mm = re.match(r'fixed:\s+property=(\S+)\s+(\S+)\s+(\S+)', line)
    if not mm:
        continue
    prop, commit, fid = mm.groups()
    name = 'revert-fix/%s-%s' % (fid, commit)
    if not selected(name) or prop not in claimed:
        continue
    diff = sh(['git', '-C', '/repo', 'diff', commit + '~1', commit], stdout=subprocess.PIPE, text=True).stdout
    r = sh(['git', 'apply', '-R'], cwd=REPO, input=diff, text=True)
    if r.returncode != 0:
        # a later fix touched the same lines: use the hand-resolved revert kept beside the controls
        alt = os.path.join(VERIF, 'selftest', 'reverts', fid + '.diff')
        r = sh(['git', 'apply', alt], cwd=REPO) if os.path.exists(alt) else r
    if r.returncode != 0:
        report(name, False, 'fix does not reverse-apply'); restore(); continue
    # (a defect that exists only in the `instrumentation` configuration is seen by the thorough tier only: `tier=thorough` in the line)
    if 'tier=thorough' in line:
        env['VERIF_TIER'] = 'thorough'
    rc, keys, fatal, tail = run_checks([prop])[prop]
    env.pop('VERIF_TIER', None)
    report(name + '/' + prop, rc == 1 and not fatal, ('-> ' + '; '.join(keys[:2]))[:150] if rc == 1 else 'rc=%d %s' % (rc, tail))
    restore()
if '--keep' not in sys.argv:
    shutil.rmtree(S, ignore_errors=True)
print('selftest: %d failure(s)' % fails)
sys.exit(1 if fails else 0)
