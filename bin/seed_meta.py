#!/usr/bin/env python3
"""(re)writes /verif/seeded/<id>/meta.json: runs every claimed check against each seeded change in a
scratch copy of /repo and records which checks fire with which keys."""
import os, sys, json, subprocess, glob, re, tempfile, shutil
sys.path.insert(0, os.path.dirname(os.path.abspath(__file__)))
import _runchecks
VERIF = os.path.dirname(os.path.dirname(os.path.abspath(__file__)))
NEEDS = {
 'C01-overlay-entry-keeps-old-tag': 'two commits on the same key queued at once, the pipeline stopped between them (first processed, second still queued), and a read in that window',
 'C03-kill-logs-drops-read-queue': 'a drop that leaves at least four log files to apply (flushed files + non-empty appending file + queued commits)',
 'C12-sync-before-buffer-drain': 'power loss between the enactment of a record and the next cleaning of the logs, with partial write-back of the table pages (the tail of the log record was written after the fdatasync)',
 'C02-empty-index-file-ignored': 'index growth pending in the log and a crash exactly between create and set_len of the new index file (during enactment or recovery)',
 'C08-validate-and-copy-with-rollback': 'a commit refused by validate (Reference on a plain column) spanning two columns, whose valid part overwrote the overlay entry of a still queued commit; a read before the queue drains',
 'C16-header-error-retires-log': 'an I/O fault exactly on the first read of a record header in the enact stage while the thread doing shutdown/cleanup is fault-free',
 'C11-deferral-reports-no-more-work': 'background threads, a dereference commit examined while its tree is locked, an otherwise empty queue and no later commits',
 'C17-shutdown-keeps-enacted-logs': 'sync_data=false passed to reset_column/add_column/drop_last_column, the column closed with a pending reindex, background workers running during the precheck open',
 'C04-overlay-entry-parked-across-commits': 'mixed state (tree keys around the cursor, an unprocessed overlay entry ahead), a further commit touching the gap or the parked key while the iterator is open, no seek/direction change in between (patch rebased onto the F17 fix)',
 'C15-commit-throttle-loop-ignores-bg-error': 'background threads, a committer parked on the full commit queue (> 16 MiB), then an I/O error in the log worker with more than 16 MiB still queued (patch rebased onto the F16 fix; original kept as patch.orig-776afcf.diff)',
 'C07-reset-skipped-on-size-mismatch': 'a ref-counted column with lz4/snappy, a value above the compression threshold that really compresses, and a repeated Set of the present key',
 'C13-sequence-advanced-before-validation': 'at least two log files at open, the last record of a non-final file damaged so that LogReader::next fails (CRC flip / truncation in the trailing checksum), the next file starting with the following record id',
 'C10-child-count-check-after-claim': 'an InsertTree with an inner (non-root) node of 256 or more children: rejected as before, but only after slots were claimed',
 'C06-tier-from-uncompressed-length': 'a compressed column (lz4/snappy), a value above ~32 KiB that compresses to under ~4 KiB, read after process_commits',
 'C12-keep-count-after-flush': 'sync_data on, the log stage retiring a log between the start of the column flush and the cleanup-queue drain of the same clean_logs call, then power loss',
 'C05-key-tail-compare-skips-two-bytes': 'two keys of a uniform column that differ only in byte 6 (low bits) or byte 7 (bits the index entry does not keep), read after the data left the commit overlay',
 'C10-stale-refcount-in-old-table': 'a pending ref-count table re-index, a node count going inc, dec, dec back to one reference meanwhile, a restart before its last reference is dropped',
 'C14-free-list-built-before-replay': 'multitree column, crash with a flushed un-enacted record that re-used freed slots, recovery, then free/claim traffic in that size tier',
 'C12-msync-range-stale': 'power loss (not a process crash) after a log was cleaned, with data in a region of a value table added by in-place growth during the current session',
 'C03-deferred-commit-reports-drained': 'a multitree DereferenceTree commit that is last in the queue while its tree reader is locked at the moment the handle is dropped',
 'C09-zero-pattern-fallback-wrong-width': 'a 16 or 17 bit index, a key whose hash bits 16..48 are zero but bits 48..50 are not, and a removed earlier entry in the same page',
 'C08-validate-interleaved-with-publish': 'a commit refused in commit_raw whose earlier (valid) change set overwrote the overlay entry of a still queued commit for the same key; a read before the queue drains',
 'C02-drop-table-ignores-id': 'two index growths in one record, the record enacted but its log not yet truncated while the earlier log is already cleaned; crash; replay of DropTable for a table that is already gone',
 'C01-writer-search-skips-by-progress': 'two stacked reindexes with a collected but not enacted batch, then a commit on a key living only in the second queued index whose chunk is below the progress value',
 'C05-log-overlay-merge-keeps-old-tag': 'two simultaneously pending log records touching one index chunk, and a read (or third commit) after the first was enacted and before the second',
 'C06-chain-link-boundary': 'a multipart value whose stored record length is an exact multiple of 4086 bytes',
 'C17-column-prefix-accepted': 'opening (or an administration call) with a column list that is a strict prefix of the stored one',
 'C18-dirlock-guard-unlinks': 'a live handle, one (correctly refused) second open, then a third open',
 'C11-walk-locks-wrong-registry-key': 'a client that obtains and locks the TreeReader after the deferral check of the log worker and before the dereference walk (rc 1 -> 0)',
 'C16-header-read-error-is-eof': 'an I/O fault exactly on one of the two reads of a record header in the enact stage, an un-enacted record after it, cleanup, restart',
 'C20-index-walk-stops-at-empty-slot': 'two keys in one index chunk, the earlier inserted one removed, then a migration',
 'C13-crc-only-for-newest-log': 'at least two log files at open and a structure-preserving bit flip in one that is not the last',
 'C14-index-removal-by-first-match': 'two live keys colliding in the 54 bits the index stores (uniform keys), removal of the later one',
 'C15-throttle-wait-loop-ignores-shutdown': 'more than 128 MiB logged but not enacted at the moment of drop (log worker parked in the throttle) and still above the limit when the commit worker exits',
 'C03-reader-preinstalled-at-eof': 'drop of the handle while at least four log files are still to be gone through (lined-up reader + read queue + appending log); with <= 3 nothing shows',
 'C04-root-split-loses-left-child': 'a btree root split where both the full root and its left half are stored in the last (multipart) size tier, i.e. very long keys: write_node_plan then rewrites in place and returns None',
 'C06-header-not-dirty-on-reuse': 'a freed slot of a tier reused by a commit that makes no other allocation/free in that tier, no later header change before shutdown, reopen, then another insert into the tier',
 'C07-deref-ref-pair-cancelled': 'Dereference(k) directly followed by Reference(k) in one commit on a reference-counted hash column while the count of k is exactly 1',
 'C09-batch-cap-skips-entries': 'an old index with more than 8192 entries at growth time, and the batch cap being reached in the middle of a chunk; visible after the last batch drops the old table',
 'C10-address-overlay-unconditional-remove': 'one commit containing InsertTree (with a non-root node) and DereferenceTree, deferred because the dereferenced tree is locked, with another commit queued behind it; read of the new nodes before the re-queued commit is processed',
 'C11-used-trees-shallow-check': 'a reader holding tree A, a queued DereferenceTree(A), and a new tree B that references nodes of A only at depth >= 2',
 'C14-header-cache-skips-logging': 'crash with a flushed un-enacted free-list-only record, replay, a first record that restores the exact pre-crash (last_removed, filled) pair, clean reopen, one more allocation in that tier',
 'C16-clean-before-error-propagation': 'an I/O fault exactly in the log-write part of process_commits (Log::end_record), then a read of a key of that transaction on the same live handle',
 'C17-metadata-columns-sorted-lexicographically': 'at least 11 columns with options that differ between the exchanged positions (col10 sorts before col2)',
 'C18-shared-lock-readonly': 'two handles opened with Db::open_read_only on the same directory at overlapping times',
 'C20-selection-ignores-compression': 'automatic selection (column not forced), options differing only in compression, source codec lz4/snappy, source holding values above the compression threshold',
 'C02-cleanup-wrong-end': 'same change as C03-cleanup-wrong-end found independently for C02: sync_data=false, >16 enacted logs, crash',
 'C08-check-after-claim': 'a multitree InsertTree whose root is valid but which has a nested node with more than 255 children: the commit is rejected after value slots were claimed',
 'C12-truncate-newest-first': 'at least two logs cleaned in one clean_logs call, both touching the same chunk/entry/header, power loss between the two truncations',
 'C13-validator-multipart-guard': 'a checksum-valid record with an INSERT_VALUE for a fixed-size tier whose size word is a multipart marker',
 'C15-wait-without-queue-check': 'two log rotations signalled while the commit worker is busy (signals coalesce into one boolean flag)',
 'C01-reindex-progress-reset': 'a second index overflow before the first old index table was fully migrated (two tables queued), then the walk of the second table',
 'C05-btree-log-lock-per-fetch': 'a reader thread walking a btree column racing the log worker publishing a record that splits/merges/frees nodes',
 'C14-init-before-replay': 'same change as C10-init-before-replay found independently for C14: crash with a flushed, un-enacted tree commit; further tree inserts/dereferences after recovery',
 'C16-any-io-error-is-eof': 'an I/O fault exactly on one of the two header reads at a record boundary of the enact step (transient or confined to the commit worker)',
 'C17-prefix-without-separator': 'a database with more than 100 columns, data in a column >= 100, an administration call on column 10..25',
 'C18-lockfile-guard': 'handle A alive, a failed (correctly refused) open B, then a third open C while A is still alive',
 'C20-copy-before-source-open': 'a source database that was not shut down cleanly (flushed, un-applied log records touching a column that is copied unchanged); overwrite == false',
 'C01-cleanid': 'a reindex (or replay) earlier in the session so that log record ids run ahead of commit ids; two queued commits to the same key; a read after the first was logged',
 'C05-cleanid': 'same change as C01-cleanid found independently for C05: log record ids ahead of commit ids, overlapping queued commits, a read between stage steps',
 'C02-logorder': 'two non-empty logs at the crash instant, the lower-numbered one recycled from the pool after a younger one was written; crash; reopen',
 'C03-logorder': 'same change as C02-logorder found independently for C03: recycled log file numbering + crash or deep queue at drop',
 'C03-cleanup-wrong-end': 'sync_data=false, more than 16 enacted logs, crash with a synced un-enacted log',
 'C08-bgerr-late': 'database in background-error state (a worker failed), then a commit',
 'C12-count-after-flush': 'an enact completing while the cleanup stage is inside its msync loop, then power loss before the next cleanup round',
 'C13-reseed-seq': 'several un-enacted log files at an unclean stop, with damage (delete/truncate/bit flip) to one that is not the last',
 'C15-wake-boundary': 'a committer throttled on a full queue and a pop that leaves the queue at exactly 16 MiB',
 'C11-registry-remove': 'a client keeps a tree handle across prune and re-insert of the same root key, locks the old handle, then the tree is dereferenced',
 'C10-init-before-replay': 'a crash after a log record with an IncrementReference was flushed but before it was enacted; later dereference of the other tree sharing the node',
 'C06-replace-in-place': 'a chained (multipart) value overwritten by a value that fits one part',
 'C09-skip-by-progress': 'two index growths overlapping (two old indexes queued) with non-zero progress on the oldest; remove/replace of a key living only in the middle index',
 'C04-pending-kept': 'an open iterator holding a fetched tree item while process_commits moves a commit touching that key range from the commit overlay to the log overlay',
 'C07-skip-set-if-present': 'three queued commits Set(k) / Dereference(k) to zero / Set(k); read after the first two were processed',
 'C01-hash-only-first-32-bytes': 'a uniform column with a non-zero salt and two keys longer than 32 bytes that share their first 32 bytes',
 'C02-replay-regrows-once': 'one record that grows the index twice (more than 128 keys sharing 18 leading bits), a crash before it is enacted, and the section for the newer table coming first in the record (hash-map order, about 1 in 2)',
 'C04-rebalance-from-right-child-slot': 'a tree of depth >= 2 where a removal merges two leaves under an inner node at minimum occupancy whose left sibling is absent or minimal and whose right sibling has at least 5 separators',
 'C05-drop-releases-wrong-overlay-slot': 'two hash columns: a column >= 1 finishes an index growth (its DropTable record is enacted) while column 0 has logged, not yet enacted chunks in an index of the same bit width, and a read of such a key in that window',
 'C06-backward-chain-link-rejected': 'a chained value (> 32 KiB) written into at least two recycled parts (an earlier chained value was removed or shrunk first), then read or overwritten',
 'C07-writer-search-skips-key-check': 'an index growth in progress, a migrated key dropping to zero, another key reusing its slot, and a further write on the gone key (or two keys sharing their first 8 bytes in a uniform column)',
 'C09-sse-mismatch-skips-group': 'x86_64, an index of 16 or 17 bits, and two live keys whose hashes agree in bits 0..48 and differ in bit 48 or 49 stored in the same aligned group of four slots, the searched one not first',
 'C13-short-log-file-gets-bogus-id': 'a log file of 1..8 bytes at open whose id bytes decode below the first id of the real logs, and an oldest real log that does not start at record 1',
 'C14-next-part-link-read-past-overlay': 'a chained value overwritten with a different number of parts and changed again (removed / overwritten) before the first record is enacted',
 'C11-deferral-check-skipped-without-live-reader': "an InsertTree that re-uses nodes of tree A committed while A's reader is locked and a DereferenceTree(A) is queued; then the client drops the guard AND its last Arc of the reader before the log worker pops the removal",
 'C02-index-open-rejects-short-file': 'a crash exactly between the creation of an index file and its set_len (first record enacted into a new or freshly grown index table)',
 'C17-version-guard-off-by-one': 'a database in format version exactly 4 (the oldest supported), an administration call that rewrites the metadata, and another column with uniform keys or multipart values',
 'C20-inplace-reopen-removed': 'an in-place migration (overwrite = true) and an I/O failure while the destination handle shuts down (enactment of its last log fails in kill_logs, which only logs the error)',
 'C16-failed-truncation-entry-dropped': 'an I/O fault in the rewind / set_len of a finished log inside Log::clean_logs that is not the last one of the batch, later logs truncated by an unaffected thread (shutdown), and later transactions touching the same entries',
 'C12-torn-append-rolled-back-under-bufwriter': 'an I/O error in the middle of appending a record while the start of the record is still in the 8 KiB buffer, an earlier complete record in the same file, one more turn of the flush and enact stages, then a stop',
 'C10-node-changes-planned-before-keyed-changes': 'a ref-counted multitree column and one commit [ReferenceTree(K), DereferenceTree(K)] on a tree whose count is exactly 1',
}
ORIGIN = {
 'C01-overlay-entry-keeps-old-tag': 'fired through existing rules (set-always-published) somewhat by accident of the entry API; the principled rule was added afterwards (commit-overlay entries are only inserted whole, tag and value together: C01 3w / C05 3ow)',
 'C03-kill-logs-drops-read-queue': 'rules existed before the seed (read_queue consumer confinement; kill_logs unlinks only pool files and the reader)',
 'C12-sync-before-buffer-drain': 'rule existed before the seed (BufWriter drained before the fdatasync, C12 1e / C03 6e)',
 'C02-empty-index-file-ignored': 'rule added after this seed exposed the gap (open_existing answers "no such table" only on the NotFound outcome of opening the file)',
 'C08-validate-and-copy-with-rollback': 'rule existed before the seed (K6b effect-before-error; same idea as C08-validate-interleaved-with-publish, found independently)',
 'C16-header-error-retires-log': 'rule existed before the seed (C16 2g; third independent rediscovery of this change)',
 'C11-deferral-reports-no-more-work': 'rule existed for C03/C15 (took-a-commit-means-more-work) and fired there; attached to C11 afterwards',
 'C17-shutdown-keeps-enacted-logs': 'fired for C03 (drain sequence); the C17 obligations were added afterwards (kill_logs always runs clean_all_logs before the log files are deleted; clean_all_logs truncates exactly num_dirty_logs)',
 'C04-overlay-entry-parked-across-commits': "rule added after this seed exposed the gap (the iterator keeps no reference-counted overlay key/value between calls; every step queries the overlay); the agent's side note led to defect F17 (seek_to_last keeps the parked tree entry), fixed in /repo 631da66 with rule C04 2m",
 'C15-commit-throttle-loop-ignores-bg-error': "rule added after this seed exposed the gap (a throttle wait that can be re-entered looks at the error slot on every trip); the seeding agent's side note led to defect F16 (commit arriving after the worker died parks forever), fixed in /repo 64b77bd with rules C15 2g/2h",
 'C07-reset-skipped-on-size-mismatch': 'rule strengthened after this seed (C07 2b only required the increment to be reachable; 2f requires it on every success path of the arm)',
 'C13-sequence-advanced-before-validation': 'rules existed before the seed (sequence guard form, last_enacted advanced only after validation, no apply after advance)',
 'C10-child-count-check-after-claim': 'rules existed before the seed (C10 1a narrowing guard / validated-before-claimed; C08 K6b reports the new claim-then-fail key)',
 'C06-tier-from-uncompressed-length': 'no rule',
 'C12-keep-count-after-flush': 'rule existed before the seed (C12 2c, added for C12-count-after-flush)',
 'C05-key-tail-compare-skips-two-bytes': 'rule added after this seed exposed the gap (the equality in TableKey::compare is applied to the whole partial key and the whole fetched tail)',
 'C10-stale-refcount-in-old-table': 'rule added after this seed exposed the gap (after a ref-count entry is removed every success path sweeps the queued older tables)',
 'C14-free-list-built-before-replay': 'rule existed before the seed (init_table_data only after replay and log cleanup; same idea as C10-init-before-replay)',
 'C12-msync-range-stale': 'first reported only because the msync call moved into a helper the rule did not look through (K1 target not found); rule restated as a predicate on the call (offset + length == map.len(), helper-transparent) with a crate-wide "no partial msync" obligation, and a full-range helper kept as a control',
 'C03-deferred-commit-reports-drained': 'rule added after this seed exposed the gap (every success return after a commit was logged or re-queued is the constant Ok(true))',
 'C09-zero-pattern-fallback-wrong-width': 'rule added after this seed exposed the gap (the value broadcast as vector compare target is the value tested against zero)',
 'C08-validate-interleaved-with-publish': 'rule existed before the seed (K6b effect-before-error reports the new publish-then-fail keys)',
 'C02-drop-table-ignores-id': 'rule added after this seed exposed the gap (dequeue/unlink decided by comparing the queue front id with the id from the record)',
 'C01-writer-search-skips-by-progress': 'rule existed for C09 (every queued index searched, planner side) and fired there; attached to C01 as well afterwards',
 'C05-log-overlay-merge-keeps-old-tag': 'first reported only through an anchor count; rule added afterwards (shared log-overlay entries are only inserted/extended whole, never edited in place - with parameter binding so that helpers receiving the map are seen)',
 'C06-chain-link-boundary': 'fires through an existing rule (C06 3b: the size word written for the last part is guarded by remainder <= free space) because the changed condition no longer bounds it; the boundary arithmetic itself (exact multiple of the linked payload) is not decided',
 'C17-column-prefix-accepted': 'rule existed before the seed (C17 1j: the number of columns is compared)',
 'C18-dirlock-guard-unlinks': 'rules existed before the seed (same idea as C18-lockfile-guard, found independently)',
 'C11-walk-locks-wrong-registry-key': 'rule added after this seed exposed the gap (the key given to get_tree by the walk is the user-key field of the change, the deferral check uses the hashed-key field)',
 'C16-header-read-error-is-eof': 'rule existed before the seed (C16 2g, added for C16-any-io-error-is-eof)',
 'C20-index-walk-stops-at-empty-slot': 'rule added after this seed exposed the gap (in page walks the empty-slot branch returns to the loop head)',
 'C13-crc-only-for-newest-log': 'rule added after this seed exposed the gap (the validate flag reaches LogReader::new unchanged from the validation_mode parameter)',
 'C14-index-removal-by-first-match': 'rule added after this seed exposed the gap (the cleared index slot is the position returned by the key-tail-verified search, forwarded through every call level)',
 'C15-throttle-wait-loop-ignores-shutdown': 'rule added after this seed exposed the gap (a throttle wait that can be re-entered re-reads the shutdown flag)',
 'C03-reader-preinstalled-at-eof': 'read_queue consumer confinement existed and fired, but only because the change added a helper with a new name; confinement made helper-transparent and rule f2 (no unread reader left behind when read_next reports end) added after the seed',
 'C04-root-split-loses-left-child': 'rule added after this seed exposed the gap (sibling agreement: every caller of write_node_plan inspects the returned Option - None means rewritten in place - before storing it as an address)',
 'C06-header-not-dirty-on-reuse': 'rule existed before the seed (every filled/last_removed update marks the header dirty: C14 1a / C10 5x)',
 'C07-deref-ref-pair-cancelled': 'rule added after this seed exposed the gap (the change list of a commit is append-only; every accepted operation is appended)',
 'C09-batch-cap-skips-entries': 'rule added after this seed exposed the gap (a source page is iterated without positional adaptors while progress advances by whole pages)',
 'C10-address-overlay-unconditional-remove': 'owner-id removal rule existed for C01/C05 but enumerated known sites, so the first report was an anchor count; restructured to enumerate every removal-like call on the overlay maps and attached to C10 as well',
 'C11-used-trees-shallow-check': 'rule added after this seed exposed the gap (after claim_tree_values every success path scans the registry; no shortcut on the shape of the new tree)',
 'C14-header-cache-skips-logging': 'rule added after this seed exposed the gap (between the atomic test-and-clear of dirty_header and the header write no other condition)',
 'C16-clean-before-error-propagation': 'rule existed before the seed for C01/C05 (clean_overlay only on the Ok outcome of end_record); attached to C16 afterwards',
 'C17-metadata-columns-sorted-lexicographically': 'rule added after this seed exposed the gap (Metadata.columns is produced in file order: no map/sort between the col lines and the vector)',
 'C18-shared-lock-readonly': 'rule existed before the seed (C18 1b: the lock taken on every open path is the exclusive one)',
 'C20-selection-ignores-compression': 'rule added after this seed exposed the gap (automatic selection compares every stored-data-affecting option)',
 'C02-cleanup-wrong-end': 'same rule as C03-cleanup-wrong-end (existed when this seed arrived)',
 'C08-check-after-claim': 'rules existed before the seed (C08 K6b effect-before-error gives a new unlisted key; C10 narrowing-cast guard)',
 'C12-truncate-newest-first': 'rule added after this seed exposed the gap (entries drained from a FIFO queue are processed in queue order)',
 'C13-validator-multipart-guard': 'first caught by a brittle call-profile comparison (C13.3g) that a behaviour-preserving refactoring would also trip; replaced by the sibling guard rule 3g2 (is_multi only under self.multipart on both sides)',
 'C15-wait-without-queue-check': 'rule added after this seed exposed the gap (the commit worker sleeps only after looking at the hand-over queue)',
 'C01-reindex-progress-reset': 'rule added after this seed exposed the gap (progress counter reset whenever the queue front changes); found for C01, detected by C09',
 'C05-btree-log-lock-per-fetch': 'rule added after this seed exposed the gap (log-overlay read guard held across the btree walk)',
 'C14-init-before-replay': 'same rule as C10-init-before-replay (existed when this seed arrived); obligation also attached to C14 afterwards',
 'C16-any-io-error-is-eof': 'rule added after this seed exposed the gap (a log is retired only on UnexpectedEof)',
 'C17-prefix-without-separator': 'clause was in the design and implemented before the seed (predicate is a prefix of the name format incl. separator), but keyed on the is_file_name functions; the seed removed them, so the first report was an anchor failure; rule generalised to the formats reachable from drop_files/deplace_column',
 'C18-lockfile-guard': 'remove_file confinement (C12.5d) existed and fired; the C18 rules were keyed on direct call sites and reported anchor failures; generalised afterwards (lifted lock site, failed-lock path changes nothing incl. drop glue)',
 'C20-copy-before-source-open': 'rule added after this seed exposed the gap (raw file copy only after the source was opened)',
 'C01-cleanid': 'rule added after this seed exposed the gap (the design had the hand-over order but not the provenance of the id passed to clean_overlay)',
 'C05-cleanid': 'same rule as C01-cleanid',
 'C02-logorder': 'clause was in the design before seeding (C13.5 replay in first-record-id order); implemented afterwards',
 'C03-logorder': 'same rule as C02-logorder',
 'C03-cleanup-wrong-end': 'rule added after this seed exposed the gap (FIFO discipline of the pipeline queues)',
 'C04-pending-kept': 'clause was in the design before seeding (C04.2 pending item cleared when the record id changed); strengthened to a must-pass form after the seed',
 'C06-replace-in-place': 'rule added after this seed exposed the gap (same-tier condition for in-place replacement)',
 'C07-skip-set-if-present': 'rule added after this seed exposed the gap (every Set is mirrored in the overlay under the current commit id)',
 'C08-bgerr-late': 'rules were in the design before seeding (K6b effect-before-error, gate before effects)',
 'C09-skip-by-progress': 'clause was in the design before seeding (C09.1 every queued index searched); the arm-aware loop form was written with the seed at hand',
 'C10-init-before-replay': 'rule added after this seed exposed the gap (in-memory caches are built only after replay)',
 'C11-registry-remove': 'rule added after this seed exposed the gap (the reader registry only grows)',
 'C12-count-after-flush': 'rule added after this seed exposed the gap (truncation count sampled before the flush in the concurrent cleanup stage)',
 'C13-reseed-seq': 'rule added after this seed exposed the gap (last_enacted is stored only by enact_logs); the design only constrained the store inside enact_logs',
 'C15-wake-boundary': 'rule added after this seed exposed the gap (wake predicate is the complement of the wait predicate)',
 'C01-hash-only-first-32-bytes': 'rule added after this seed exposed the gap (C01 6m: what enters the key digest is the whole key)',
 'C02-replay-regrows-once': 'rule added after this seed exposed the gap (C02 15a / C13 46a: an action is validated against and applied to the table it names)',
 'C05-drop-releases-wrong-overlay-slot': 'rule added after this seed exposed the gap (C05 10a: overlay vectors are addressed by log_index() only)',
 'C06-backward-chain-link-rejected': 'rule added after this seed exposed the gap (C06 6a: no ordering test between a next-part link and the slot position)',
 'C07-writer-search-skips-key-check': 'rule added after this seed exposed the gap (C07 5 / C09 9 / C01 7: the writer-side index search compares the stored key tail)',
 'C13-short-log-file-gets-bogus-id': 'C16 2h caught it as written; the rule is now shared with C13 (6g-6i) and extended (header bytes obtained with read_exact only)',
 'C14-next-part-link-read-past-overlay': 'caught by the shadowed-reads rule of C01/C05 as written; the rule is now also run under C14 (8b)',
 'C11-deferral-check-skipped-without-live-reader': 'rule added after this seed exposed the gap (C11 1c2: the queue scan is reached whatever the state of the reader)',
 'C02-index-open-rejects-short-file': 'rule added after this seed exposed the gap (C02 10c/10d: an existing table file is sized at open, its length is no verdict)',
 'C17-version-guard-off-by-one': 'rule added after this seed exposed the gap (C17 6a: the metadata writer never compares the version it is given)',
 'C20-inplace-reopen-removed': 'rule added after this seed exposed the gap (C20 5m: the destination is re-opened between its last commit and the move of its files)',
 'C16-failed-truncation-entry-dropped': 'rule added after this seed exposed the gap (C16 2r / C12 3r: no log file handle is destroyed in clean_logs); the requeue rule 2q alone was satisfied by the seed',
 'C12-torn-append-rolled-back-under-bufwriter': 'caught by the rule written for F45 (the error arm of the append gives up the writer)',
 'C10-node-changes-planned-before-keyed-changes': 'rule added after this seed exposed the gap (C10 9a: keyed changes of a set are planned before its node changes)',
}
NEEDS.update({
 'C20-dedup-consults-previous-table-only': 'a source closed in the middle of a SECOND consecutive index growth (three index files), the oldest table holding more than one reindex batch, entries copied from the oldest table straight into the current one; a ref-counted destination shows doubled counts',
 'C12-sync-through-clone-outside-the-lock': 'the log worker appending a record between the flush worker\'s fdatasync and its re-lock of the appending slot, the file enacted, then power loss',
 'C03-failed-sync-drops-the-file-again': 'an I/O error exactly at the fdatasync of the write-ahead log with more commits queued, then a power loss or continued stage processing',
 'C16-torn-append-keeps-the-file-with-a-fresh-buffer': 'an I/O fault in the append of a record larger than the 8 KiB writer buffer (after the first spill), an earlier whole record in the same file, one more turn of flush and enact on fault-free threads',
})
ORIGIN.update({
 'C20-dedup-consults-previous-table-only': 'rule added after this seed exposed the gap (C20 4y: the list of already walked tables that the per-table walk consults is the whole prefix of the walk order) - a seed against the F41 repair of the same session',
 'C12-sync-through-clone-outside-the-lock': 'rule added after this seed exposed the gap (C12 1h / C03 6h: one write guard of Log.appending spans the sync and the removal of the file from the slot)',
 'C03-failed-sync-drops-the-file-again': 'rules existed (1u/2u and the log-handle linearity 1Le/2Le, written for F82 two hours earlier): the seed re-introduces F82 for the sync alone; C03 had not been given the rule and got it (6u)',
 'C16-torn-append-keeps-the-file-with-a-fresh-buffer': 'rule added after this seed exposed the gap (k2: nothing is stored back into Log.appending on the error arm of the append; rule k had accepted take() followed by a refill as "given up")',
})
NEEDS.update({
 'C10-increment-once-per-parent': 'a live tree A that owns node X, a new tree B with ONE node listing Existing(X) twice or more, and the removal of B while A is still live',
 'C12-flush-skips-when-map-locked': 'the cleanup stage running exactly while the applier is inside a table-file grow, an enacted and not yet cleaned log that wrote to that table, then power loss',
 'C16-log-counted-cleaned-before-truncation': 'an I/O fault exactly at the rewind / set_len of the OLDEST log in the cleanup step, a younger enacted log queued behind it, shutdown on a thread where I/O works, both logs touching a common entry',
})
ORIGIN.update({
 'C10-increment-once-per-parent': 'rule added after this seed exposed the gap (C10 11b: on the Existing arm of the flattening every packed occurrence pushes its IncrementReference; 11a watched the list only after its production)',
 'C12-flush-skips-when-map-locked': 'the rule existed (C12 2s) but its pruning took the None of `try_read()` for "no mapping": corrected in lib.prune_option_field (the None of a try-lock says that the lock is taken)',
 'C16-log-counted-cleaned-before-truncation': 'rule added after this seed exposed the gap (q2: the position that separates cleaned from re-queued logs moves past a log only after its truncation succeeded)',
})
NOT_DETECTED = {
 'C06-tier-from-uncompressed-length': 'value-level: the size tier becomes Option::min of two searches, and None (= blob table) orders below Some(k); which tier index a length maps to is arithmetic over table sizes, outside the structural clauses claimed for C06 (layout constants, same-tier replacement, size-word bound). A rule pinning the shape of the tier computation ("exactly one search, no min/max") would also fire on harmless rewrites and was not written',
 'C04-rebalance-from-right-child-slot': 'value-level: the moved child pointer is stored one slot too far because a separator count is re-read after an append; which array slot a child lands in is index arithmetic inside Node::rebalance, outside the structural clauses claimed for C04 (ordering of the change set, iterator re-seek, sentinel handling, in-place result inspected)',
 'C09-sse-mismatch-skips-group': 'value-level: lane arithmetic of the vectorised page scan (which slots are revisited after a rejected candidate); this is the territory of C19, which is declared not applicable, and C09 claims only the lookup/growth protocol around the page scan',
}
S = tempfile.mkdtemp(prefix='pdb-seedmeta.')
REPO = os.path.join(S, 'repo'); CACHE = os.path.join(S, 'cache')
PRISTINE = os.path.join(S, 'pristine')
subprocess.run(['rsync', '-a', '--exclude', 'target', '--exclude', '.git', '/repo/', PRISTINE + '/'], check=True)
subprocess.run(['rsync', '-a', PRISTINE + '/', REPO + '/'], check=True)
env = dict(os.environ, PDB_REPO=REPO, PDB_CACHE=CACHE)
claimed = [c['property_id'] for c in json.load(open(os.path.join(VERIF, 'MANIFEST.json')))['checks']]
only = sys.argv[1:]
for d in sorted(glob.glob(os.path.join(VERIF, 'seeded', '*'))):
    name = os.path.basename(d)
    if only and not any(o in name for o in only):
        continue
    mp = os.path.join(d, 'meta.json')
    old = json.load(open(mp)) if os.path.exists(mp) else {}
    prop = name.split('-')[0]
    r = subprocess.run(['git', 'apply', os.path.join(d, 'patch.diff')], cwd=REPO, capture_output=True, text=True)
    applies = r.returncode == 0
    det = {}
    if applies:
        for p, (rc, txt) in sorted(_runchecks.run(claimed, env).items()):
            keys = re.findall(r'^VIOLATED \[[^\]]*\] (.*)$', txt, re.M)
            if 'Traceback' in txt or 'FATAL' in txt:
                print('   !! %s crashed on %s' % (p, name))
            if rc == 1 and keys:
                det[p] = sorted(set(k.split(' ', 1)[1] if k.startswith(p + ' ') else k for k in keys))[:4]
    subprocess.run(['rsync', '-a', '--delete', PRISTINE + '/', REPO + '/'], check=True)
    conf = ''
    cl = os.path.join(d, 'confirm.log')
    if os.path.exists(cl):
        m = re.findall(r'^SUMMARY.*$', open(cl).read(), re.M)
        conf = m[-1] if m else ''
    demo = [os.path.basename(f) for f in glob.glob(os.path.join(d, '*.rs'))]
    meta = {
        'property': prop,
        'breaks': old.get('breaks') or 'see NOTES.md (written by the sub-agent that produced the change)',
        'needs_to_manifest': NEEDS.get(name, old.get('needs_to_manifest', 'see NOTES.md')),
        'demonstration': demo,
        'demo_cmd': 'cargo test --offline --features instrumentation --test %s -- --test-threads 1' % (sorted(demo)[0][:-3] if demo else '?'),
        'confirmed_by_me': conf or old.get('confirmed_by_me', 'pending'),
        'what_i_ran': 'bin/confirm_seed.sh in a fresh scratch worktree: demo without the patch (pass), build + demo with the patch (fail), existing 36-test suite with the patch (pass); then bin/seed_meta.py (all claimed checks against the patched scratch copy)',
        'applies_to_current_tree': applies,
        'detected_by': det,
        'rule_origin': ORIGIN.get(name, old.get('rule_origin', 'n/a')),
    }
    if not det:
        meta['not_detected_reason'] = NOT_DETECTED.get(name, old.get('not_detected_reason', 'no claimed static rule covers this change (see DESIGN.md section 9)'))
    json.dump(meta, open(mp, 'w'), indent=1)
    print(name, 'applies' if applies else 'DOES NOT APPLY', {k: v[:1] for k, v in det.items()})
shutil.rmtree(S, ignore_errors=True)
