#!/usr/bin/env python3
import sys, json, os, subprocess
prop, pid = sys.argv[1], sys.argv[2]
V = os.path.dirname(os.path.dirname(os.path.abspath(__file__)))
rec = [json.loads(l) for l in open(V + '/properties.jsonl') if json.loads(l)['id'] == prop][0]
wt = '/tmp/hunt/' + pid
os.makedirs('/tmp/hunt', exist_ok=True)
if not os.path.exists(wt):
    subprocess.run(['git', '-C', '/repo', 'worktree', 'add', '--detach', wt, 'HEAD'], check=True, stdout=subprocess.DEVNULL, stderr=subprocess.DEVNULL)
t = open(V + '/bin/hunt_prompt.tmpl').read().replace('__WT__', wt).replace('__PID__', pid).replace('__PROPERTY__', json.dumps(rec, indent=1))
open('/tmp/hunt/%s.prompt.txt' % pid, 'w').write(t)
print(wt)
