#!/bin/bash
# run every claimed check (quick by default; pass "thorough" for the thorough tier) against /repo; print one line per property
cd "$(dirname "$0")/.."
TIER="${1:-quick}"
rc=0
for p in $(python3 -c "import json;print(' '.join(c['property_id'] for c in json.load(open('MANIFEST.json'))['checks']))"); do
  out=$(./check $p --tier $TIER 2>&1); r=$?
  echo "$p exit=$r $(echo "$out" | grep -E "^$p: " | tail -1)"
  [ $r -ne 0 ] && { rc=1; echo "$out" | grep -A5 VIOLATED | head -20; }
done
exit $rc
