#!/bin/bash
# After a /repo commit: which reverts / seeds / controls / mutants no longer apply to HEAD.
cd /repo
for l in $(grep "^fixed:" /verif/known_findings.txt | awk '{print $3":"$4}'); do c=${l%%:*}; f=${l##*:}
  if ! git diff $c~1 $c | git apply -R --check 2>/dev/null; then alt=/verif/selftest/reverts/$f.diff
    if [ -f $alt ] && git apply --check $alt 2>/dev/null; then :; else echo "$f $c: NO REVERT"; fi; fi; done
for d in /verif/seeded/*/patch.diff; do git apply --check $d 2>/dev/null || echo "seed fails: $d"; done
for d in /verif/selftest/controls/refactor/*.diff /verif/selftest/controls/*.diff; do [ -f $d ] && (git apply --check $d 2>/dev/null || echo "control fails: $d"); done
cd /verif; python3 - <<'PY'
import sys,re; sys.path.insert(0,'/verif/selftest'); import mutants
for m in mutants.M + getattr(mutants,'CONTROLS',[]):
    s=open('/repo/'+m['file']).read()
    if m.get('regex'): n=len(re.findall(m['old'],s)); ok=n>=1
    else: n=s.count(m['old']); ok = n==m.get('count',1)
    if not ok: print('STALE', m['name'], n)
print('apply_check done')
PY
