#!/bin/bash
# usage: extract_facts.sh <config-name> <out-dir> [cargo feature args...]
# Runs the pdb-facts driver over /repo's current working tree (or $PDB_REPO) and writes
# <out-dir>/parity_db.lib.facts.json (+ admin crate facts when PDB_FACTS_CRATES names it).
set -euo pipefail
CFG="$1"; OUT="$2"; shift 2
REPO="${PDB_REPO:-/repo}"
VERIF="$(cd "$(dirname "$0")/.." && pwd)"
DRV="$VERIF/driver/target/release/pdb-facts"
[ -x "$DRV" ] || { echo "driver not built: run setup (cd $VERIF/driver && cargo build --offline --release)" >&2; exit 2; }
SYSROOT="$(rustc +nightly --print sysroot)"
TGT="${PDB_TARGET_DIR:-${PDB_CACHE:-$VERIF/.cache}/target-$CFG}"
mkdir -p "$OUT" "$TGT"
# force cargo to re-run the wrapper for workspace members (dependencies stay cached)
find "$TGT" -type d -path '*/.fingerprint/parity-db-*' -prune -exec rm -rf {} + 2>/dev/null || true
find "$TGT" -type d -path '*/.fingerprint/parity-db-admin-*' -prune -exec rm -rf {} + 2>/dev/null || true
rm -f "$OUT"/*.facts.json
PKGS="${PDB_PKGS:--p parity-db}"
cd "$REPO"
CARGO_NET_OFFLINE=true \
LD_LIBRARY_PATH="$SYSROOT/lib" \
RUSTFLAGS="-Zmir-opt-level=0 -Awarnings ${PDB_EXTRA_RUSTFLAGS:-}" \
RUSTC_WORKSPACE_WRAPPER="$DRV" \
PDB_FACTS_OUT="$OUT" \
PDB_FACTS_CRATES="${PDB_FACTS_CRATES:-parity_db}" \
CARGO_TARGET_DIR="$TGT" \
cargo +nightly check --offline $PKGS "$@" >"$OUT/cargo.log" 2>&1 || { tail -40 "$OUT/cargo.log" >&2; echo "cargo check failed" >&2; exit 3; }
ls "$OUT"/parity_db.*.facts.json >/dev/null
