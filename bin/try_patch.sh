#!/bin/bash
# usage: try_patch.sh <patch.diff> <prop> [<prop>...]   applies the patch to a scratch copy of /repo (never to /repo itself),
# runs the named checks against the copy, removes the copy. Facts are cached under /verif/.cache-try (keyed by source hash).
P="$(readlink -f "$1")"; shift
S=$(mktemp -d /tmp/try_patch.XXXXXX)
trap 'rm -rf "$S"' EXIT
rsync -a --exclude target --exclude .git /repo/ "$S/repo/"
( cd "$S/repo" && git apply "$P" ) || { echo "patch does not apply"; exit 2; }
cd "$(dirname "$0")/.."
export PDB_REPO="$S/repo" PDB_CACHE="$(pwd)/.cache-try"
mkdir -p "$PDB_CACHE"
for c in "$@"; do
  ./check "$c" > /tmp/try_$c.out 2>&1; rc=$?
  echo "== $c exit=$rc"; grep -E "^VIOLATED|^FATAL|detail|Traceback" /tmp/try_$c.out | head -${TRY_LINES:-12}
done
