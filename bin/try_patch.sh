#!/bin/bash
# usage: try_patch.sh <patch.diff> <prop> [<prop>...]   applies patch to /repo, runs checks, reverts
P="$1"; shift
cd /repo || exit 2
if ! git diff --quiet; then echo "/repo is dirty, refusing"; exit 2; fi
git apply "$P" || { echo "patch does not apply"; exit 2; }
cd /verif
for c in "$@"; do
  ./check "$c" > /tmp/try_$c.out 2>&1; rc=$?
  echo "== $c exit=$rc"; grep -E "^VIOLATED|^FATAL|detail|Traceback" /tmp/try_$c.out | head -${TRY_LINES:-12}
done
git -C /repo checkout -- . 
