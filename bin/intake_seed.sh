#!/bin/bash
# usage: intake_seed.sh <pid> <Cxx-slug>     takes the deliverables of a seeding sub-agent (/tmp/seed/<pid>.out) into
# /verif/seeded/<Cxx-slug>/, confirms them in a fresh scratch worktree (bin/confirm_seed.sh), runs every claimed check against
# the change in a scratch copy (bin/seed_meta.py) and removes the agent's worktree. Output: /tmp/seed/<pid>.intake.log
set -u
PID="$1"; NAME="$2"
V="$(cd "$(dirname "$0")/.." && pwd)"
OUT=/tmp/seed/$PID.out
D="$V/seeded/$NAME"
mkdir -p "$D"
cp "$OUT/patch.diff" "$D/patch.diff" || exit 2
cp "$OUT"/*.rs "$D/" 2>/dev/null
cp "$OUT"/*.gdb "$D/" 2>/dev/null
cp "$OUT/NOTES.md" "$D/NOTES.md" 2>/dev/null
T=$(ls "$D"/*.rs | head -1); T=$(basename "$T" .rs)
git -C /repo worktree remove --force /tmp/seed/$PID >/dev/null 2>&1
{
  "$V/bin/confirm_seed.sh" "$NAME" "$D" "--features instrumentation --test $T -- --test-threads 1"
  python3 "$V/bin/seed_meta.py" "$NAME"
} > /tmp/seed/$PID.intake.log 2>&1
tail -3 /tmp/seed/$PID.intake.log
