#!/bin/bash
# usage: confirm_seed.sh <name> <dir-with patch.diff + seed test .rs> "<demo cargo test args>"
# Confirms in a fresh scratch worktree of /repo (outside /repo and /verif): demo passes without the patch,
# fails with it, existing suite passes with it. Writes <dir>/confirm.log; removes the worktree.
set -u
NAME="$1"; DIR="$2"; DEMO="$3"
WT=$(mktemp -d /tmp/confirm.XXXX)/wt
LOG="$DIR/confirm.log"; : > "$LOG"
git -C /repo worktree add --detach "$WT" HEAD >>"$LOG" 2>&1
cp "$DIR"/*.rs "$WT/tests/" 2>/dev/null
cd "$WT"
export CARGO_NET_OFFLINE=true
echo "== demo WITHOUT patch: cargo test --offline $DEMO" >>"$LOG"
cargo test --offline $DEMO >>"$LOG" 2>&1; A=$?
echo "exit=$A" >>"$LOG"
git apply "$DIR/patch.diff" >>"$LOG" 2>&1 || echo "APPLY FAILED" >>"$LOG"
echo "== build default + instrumentation WITH patch" >>"$LOG"
cargo build --offline >>"$LOG" 2>&1; B1=$?
echo "== demo WITH patch" >>"$LOG"
cargo test --offline $DEMO >>"$LOG" 2>&1; B=$?
echo "exit=$B" >>"$LOG"
echo "== existing suite WITH patch (demo test removed)" >>"$LOG"
for f in "$DIR"/*.rs; do rm -f "$WT/tests/$(basename $f)"; done
cargo test --workspace --no-fail-fast --offline >>"$LOG" 2>&1; C=$?
echo "exit=$C" >>"$LOG"
grep -E "^test result" "$LOG" | tail -8 >>"$LOG.tmp"; 
cd /; git -C /repo worktree remove --force "$WT" >>"$LOG" 2>&1; rm -rf "$(dirname $WT)"
echo "SUMMARY $NAME: demo_without=$A (want 0) build_with=$B1 (want 0) demo_with=$B (want !=0) suite_with=$C (want 0)" | tee -a "$LOG"
rm -f "$LOG.tmp"
