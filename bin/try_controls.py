#!/usr/bin/env python3
"""usage: try_controls.py <dir-or-diff>...  : applies each behaviour-preserving patch to a scratch copy of /repo and runs every
claimed check on it; any VIOLATED line is a false alarm of the machinery. Never touches /repo."""
import os, sys, json, subprocess, glob, re, tempfile, shutil
sys.path.insert(0, os.path.dirname(os.path.abspath(__file__)))
import _runchecks
VERIF = os.path.dirname(os.path.dirname(os.path.abspath(__file__)))
S = tempfile.mkdtemp(prefix='pdb-ctl.')
REPO = os.path.join(S, 'repo'); CACHE = os.path.join(S, 'cache'); PRISTINE = os.path.join(S, 'pristine')
subprocess.run(['rsync', '-a', '--exclude', 'target', '--exclude', '.git', '/repo/', PRISTINE + '/'], check=True)
env = dict(os.environ, PDB_REPO=REPO, PDB_CACHE=CACHE)
claimed = [c['property_id'] for c in json.load(open(os.path.join(VERIF, 'MANIFEST.json')))['checks']]
files = []
for a in sys.argv[1:]:
    files += sorted(glob.glob(os.path.join(a, '*.diff'))) if os.path.isdir(a) else [a]
tot = 0
for f in files:
    subprocess.run(['rsync', '-a', '--delete', PRISTINE + '/', REPO + '/'], check=True)
    r = subprocess.run(['git', 'apply', f], cwd=REPO, capture_output=True, text=True)
    if r.returncode != 0:
        print('%-60s DOES NOT APPLY' % os.path.basename(f)); continue
    alarms = []
    for p, (rc, txt) in sorted(_runchecks.run(claimed, env).items()):
        if 'FATAL' in txt or 'Traceback' in txt:
            alarms.append('%s: FATAL %s' % (p, txt.strip().splitlines()[-1][:150]))
        for m in re.finditer(r'^VIOLATED \[[^\]]*\] (.*)\n.*\n.*\n   detail   : (.*)$', txt, re.M):
            alarms.append('%s  :: %s' % (m.group(1), m.group(2)[:160]))
    tot += len(alarms)
    print('%-60s %s' % (os.path.basename(f), 'silent' if not alarms else '%d ALARM(S)' % len(alarms)))
    for a in alarms:
        print('      ' + a)
    sys.stdout.flush()
print('total alarms: %d' % tot)
shutil.rmtree(S, ignore_errors=True)
