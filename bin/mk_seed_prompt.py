#!/usr/bin/env python3
"""usage: mk_seed_prompt.py <Cxx> <pid> "<focus mechanism substring>"  -> creates worktree /tmp/seed/<pid>, writes /tmp/seed/<pid>.prompt.txt
The prompt contains only the property record (from properties.jsonl) and generic instructions; nothing else from /verif."""
import sys, json, os, subprocess
prop, pid, focus = sys.argv[1], sys.argv[2], (sys.argv[3] if len(sys.argv) > 3 else '')
V = os.path.dirname(os.path.dirname(os.path.abspath(__file__)))
rec = [json.loads(l) for l in open(V + '/properties.jsonl') if json.loads(l)['id'] == prop][0]
wt = '/tmp/seed/' + pid
os.makedirs('/tmp/seed', exist_ok=True)
if not os.path.exists(wt):
    subprocess.run(['git', '-C', '/repo', 'worktree', 'add', '--detach', wt, 'HEAD'], check=True, stdout=subprocess.DEVNULL, stderr=subprocess.DEVNULL)
t = open(V + '/bin/seed_prompt.tmpl').read().replace('__WT__', wt).replace('__PID__', pid).replace('__PROPERTY__', json.dumps(rec, indent=1))
if focus:
    m = [x for x in rec['anchors'].get('mechanism', []) if focus.lower() in x['name'].lower()]
    name = m[0]['name'] + ' (' + m[0]['where'] + ')' if m else focus
    t += '\n\nFocus for this session: aim your change at the mechanism "%s" or at code that cooperates with it; other sessions cover the other mechanisms of this property. (Line numbers in the anchors may have drifted by a few dozen lines.)\n' % name
open('/tmp/seed/%s.prompt.txt' % pid, 'w').write(t)
print(wt, len(t))
