#!/usr/bin/env python3
"""usage: mk_hunt2_prompt.py <Cxx> <pid>  -> second-round hunt: worktree /tmp/hunt/<pid>, prompt /tmp/hunt/<pid>.prompt.txt, previous notes copied to /tmp/hunt/<pid>.prev.md"""
import sys, json, os, subprocess, shutil
prop, pid = sys.argv[1], sys.argv[2]
V = os.path.dirname(os.path.dirname(os.path.abspath(__file__)))
rec = [json.loads(l) for l in open(V + '/properties.jsonl') if json.loads(l)['id'] == prop][0]
wt = '/tmp/hunt/' + pid
os.makedirs('/tmp/hunt', exist_ok=True)
if not os.path.exists(wt):
    subprocess.run(['git', '-C', '/repo', 'worktree', 'add', '--detach', wt, 'HEAD'], check=True, stdout=subprocess.DEVNULL, stderr=subprocess.DEVNULL)
prev = '/tmp/hunt/%s.prev.md' % pid
with open(prev, 'w') as f:
    for n in ('hunt_%s_NOTES.md', 'hunt2_%s_NOTES.md', 'hunt3_%s_NOTES.md', 'hunt4_%s_NOTES.md', 'hunt5_%s_NOTES.md', 'hunt6_%s_NOTES.md', 'hunt7_%s_NOTES.md'):
        q = V + '/triage/' + n % prop
        if os.path.exists(q):
            f.write('\n\n===== notes of an earlier auditor (%s) =====\n\n' % n.split('_')[0] + open(q).read())
t = open(V + '/bin/hunt_prompt.tmpl').read() + open(V + '/bin/hunt2_prompt_tail.tmpl').read()
t = t.replace('__WT__', wt).replace('__PID__', pid).replace('__PROPERTY__', json.dumps(rec, indent=1)).replace('__PREV__', prev)
t = t.replace('Do NOT read or touch /verif, /repo, or any other /tmp directory.', 'Do NOT read or touch /verif, /repo, or any other /tmp directory (except the notes file named below).')
open('/tmp/hunt/%s.prompt.txt' % pid, 'w').write(t)
print(wt)
