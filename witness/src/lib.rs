//! Compile-fail witnesses against the PUBLIC surface of parity-db (thorough tier of C04, C05, C11).
//! Each witness has a compiling twin that differs only in the offending line, so that a witness whose
//! paths are merely wrong cannot pass for the right reason. Run with `cargo +nightly test --doc`
//! (the stable toolchain ignores the error codes).

/// W1 (C04, C05): a btree iterator borrows the database handle - it reads the commit overlay and
/// the tables of that handle and cannot outlive it.
///
/// ```compile_fail,E0597
/// use parity_db::{Db, Options};
/// let options = Options::with_columns(std::path::Path::new("/nonexistent/pdb-witness"), 1);
/// let iter = {
///     let db = Db::open_or_create(&options).unwrap();
///     db.iter(0).unwrap() // `db` dropped here while still borrowed
/// };
/// drop(iter);
/// ```
///
/// Twin (compiles; not run):
/// ```no_run
/// use parity_db::{Db, Options};
/// let options = Options::with_columns(std::path::Path::new("/nonexistent/pdb-witness"), 1);
/// let db = Db::open_or_create(&options).unwrap();
/// let iter = db.iter(0).unwrap();
/// drop(iter);
/// drop(db);
/// ```
pub struct IteratorBorrowsHandle;

/// W2 (C01, C05): nothing behind the handle is reachable from outside - overlay, queues, log and
/// columns can only be changed through the commit pipeline.
///
/// ```compile_fail,E0616
/// use parity_db::{Db, Options};
/// let options = Options::with_columns(std::path::Path::new("/nonexistent/pdb-witness"), 1);
/// let db = Db::open_or_create(&options).unwrap();
/// let _ = &db.inner; // private field
/// ```
///
/// Twin:
/// ```no_run
/// use parity_db::{Db, Options};
/// let options = Options::with_columns(std::path::Path::new("/nonexistent/pdb-witness"), 1);
/// let db = Db::open_or_create(&options).unwrap();
/// let _ = db.get(0, b"key");
/// ```
pub struct HandleIsOpaque;

/// W3 (C11): a tree can be read only through the reader lock - `get_tree` hands out
/// `Arc<RwLock<..dyn TreeReader..>>`, and the methods of `TreeReader` exist only on what `read()`
/// returns (the guard is what the deferral logic of the log worker looks at).
///
/// ```compile_fail,E0599
/// use parity_db::{Db, Options, TreeReader};
/// let options = Options::with_columns(std::path::Path::new("/nonexistent/pdb-witness"), 1);
/// let db = Db::open_or_create(&options).unwrap();
/// let reader = db.get_tree(0, b"root").unwrap().unwrap();
/// let _ = reader.get_root(); // no such method on Arc<RwLock<..>>
/// ```
///
/// Twin:
/// ```no_run
/// use parity_db::{Db, Options, TreeReader};
/// let options = Options::with_columns(std::path::Path::new("/nonexistent/pdb-witness"), 1);
/// let db = Db::open_or_create(&options).unwrap();
/// let reader = db.get_tree(0, b"root").unwrap().unwrap();
/// let _ = reader.read().get_root();
/// ```
pub struct TreeReadOnlyUnderLock;
