// pdb-facts: rustc_private driver that dumps MIR facts of selected crates as JSON.
// Used as RUSTC_WORKSPACE_WRAPPER under `cargo +nightly check`. Zero cargo deps.
//
// env PDB_FACTS_OUT    = directory to write <crate>.facts.json into (one write per process)
// env PDB_FACTS_CRATES = comma separated crate names to dump (default: parity_db)
#![feature(rustc_private)]
#![allow(clippy::all)]

extern crate rustc_abi;
extern crate rustc_driver;
extern crate rustc_hir;
extern crate rustc_interface;
extern crate rustc_middle;
extern crate rustc_span;

use rustc_driver::Compilation;
use rustc_hir::def::DefKind;
use rustc_hir::def_id::{DefId, LOCAL_CRATE};
use rustc_interface::interface::Compiler;
use rustc_middle::mir::{
	AggregateKind, BasicBlock, BinOp, Body, BorrowKind, CastKind, Const as MirConst, ConstValue,
	Operand, Place, ProjectionElem, Rvalue, StatementKind, TerminatorKind, UnwindAction,
};
use rustc_middle::ty::print::with_no_trimmed_paths;
use rustc_middle::ty::{self, Instance, Ty, TyCtxt, TypingEnv};
use rustc_span::Span;
use std::fmt::Write as _;

struct Cb;

impl rustc_driver::Callbacks for Cb {
	fn after_analysis<'tcx>(&mut self, _c: &Compiler, tcx: TyCtxt<'tcx>) -> Compilation {
		let name = tcx.crate_name(LOCAL_CRATE).to_string();
		let wanted = std::env::var("PDB_FACTS_CRATES").unwrap_or_else(|_| "parity_db".into());
		if wanted.split(',').any(|w| w == name) {
			if let Ok(dir) = std::env::var("PDB_FACTS_OUT") {
				let is_test = tcx.sess.opts.test;
				let crate_types: Vec<String> =
					tcx.crate_types().iter().map(|t| format!("{:?}", t)).collect();
				let s = with_no_trimmed_paths!(dump(tcx, &name, is_test, &crate_types));
				let suffix = if is_test {
					"test".to_string()
				} else {
					crate_types.join("-").to_lowercase()
				};
				let path = format!("{}/{}.{}.facts.json", dir, name, suffix);
				std::fs::write(&path, s).expect("write facts");
			}
		}
		Compilation::Continue
	}
}

fn main() {
	let mut args: Vec<String> = std::env::args().collect();
	// RUSTC_WORKSPACE_WRAPPER: argv[1] is the path of the real rustc.
	if args.len() > 1 && (args[1].ends_with("rustc") || args[1].contains("/rustc")) {
		args.remove(1);
	}
	let mut cb = Cb;
	rustc_driver::run_compiler(&args, &mut cb);
}

// ---------------------------------------------------------------- JSON helpers

fn jstr(out: &mut String, s: &str) {
	out.push('"');
	for c in s.chars() {
		match c {
			'"' => out.push_str("\\\""),
			'\\' => out.push_str("\\\\"),
			'\n' => out.push_str("\\n"),
			'\r' => out.push_str("\\r"),
			'\t' => out.push_str("\\t"),
			c if (c as u32) < 0x20 => {
				let _ = write!(out, "\\u{:04x}", c as u32);
			},
			c => out.push(c),
		}
	}
	out.push('"');
}

fn jbytes_as_str(out: &mut String, b: &[u8]) {
	// bytes -> JSON string, non-printables as \u00XX (latin-1 style; lossless for < 0x100)
	out.push('"');
	for &c in b {
		match c {
			b'"' => out.push_str("\\\""),
			b'\\' => out.push_str("\\\\"),
			0x20..=0x7e => out.push(c as char),
			_ => {
				let _ = write!(out, "\\u{:04x}", c as u32);
			},
		}
	}
	out.push('"');
}

// ---------------------------------------------------------------- dump

fn dump<'tcx>(tcx: TyCtxt<'tcx>, name: &str, is_test: bool, crate_types: &[String]) -> String {
	let mut out = String::with_capacity(64 << 20);
	out.push_str("{\"crate\":");
	jstr(&mut out, name);
	let _ = write!(out, ",\"is_test\":{},\"crate_types\":[", is_test);
	for (i, t) in crate_types.iter().enumerate() {
		if i > 0 {
			out.push(',');
		}
		jstr(&mut out, t);
	}
	out.push_str("],\"bodies\":[\n");
	let mut first = true;
	let mut nbodies = 0usize;
	for ldid in tcx.mir_keys(()).iter() {
		let did = ldid.to_def_id();
		let kind = tcx.def_kind(did);
		if !matches!(kind, DefKind::Fn | DefKind::AssocFn | DefKind::Closure) {
			continue;
		}
		if !first {
			out.push_str(",\n");
		}
		first = false;
		let body = tcx.optimized_mir(did);
		dump_body(tcx, did, kind, body, &mut out);
		nbodies += 1;
	}
	let _ = write!(out, "\n],\"nbodies\":{},\"adts\":[\n", nbodies);
	dump_adts(tcx, &mut out);
	out.push_str("\n],\"consts\":[\n");
	dump_consts(tcx, &mut out);
	out.push_str("\n]}\n");
	out
}

fn span_info<'tcx>(tcx: TyCtxt<'tcx>, span: Span, out: &mut String) {
	// "ln": line of the outermost call site in user code, "mx": macro backtrace names
	let root = span.source_callsite();
	let sm = tcx.sess.source_map();
	let loc = sm.lookup_char_pos(root.lo());
	let _ = write!(out, "\"ln\":{}", loc.line);
	if span.from_expansion() {
		out.push_str(",\"mx\":");
		let mut names = String::new();
		for (i, ed) in span.macro_backtrace().enumerate() {
			if i > 0 {
				names.push('<');
			}
			let _ = write!(names, "{}", ed.kind.descr());
		}
		jstr(out, &names);
	}
}

fn ty_str<'tcx>(ty: Ty<'tcx>) -> String {
	ty.to_string()
}

fn place_json<'tcx>(tcx: TyCtxt<'tcx>, body: &Body<'tcx>, place: &Place<'tcx>, out: &mut String) {
	let _ = write!(out, "[{}", place.local.as_usize());
	let mut pty = rustc_middle::mir::PlaceTy::from_ty(body.local_decls[place.local].ty);
	for elem in place.projection.iter() {
		out.push(',');
		match elem {
			ProjectionElem::Deref => out.push_str("\"*\""),
			ProjectionElem::Field(f, _) => {
				let mut s = String::from(".");
				match pty.ty.kind() {
					ty::Adt(adt, _) => {
						let v = match pty.variant_index {
							Some(v) => adt.variant(v),
							None => adt.non_enum_variant(),
						};
						let _ = write!(
							s,
							"{}.{}",
							tcx.item_name(adt.did()),
							v.fields[f].name
						);
					},
					ty::Tuple(_) => {
						let _ = write!(s, "#{}", f.as_usize());
					},
					ty::Closure(..) | ty::Coroutine(..) | ty::CoroutineClosure(..) => {
						let _ = write!(s, "^{}", f.as_usize());
					},
					_ => {
						let _ = write!(s, "?{}", f.as_usize());
					},
				}
				jstr(out, &s);
			},
			ProjectionElem::Index(l) => {
				let _ = write!(out, "\"[_{}]\"", l.as_usize());
			},
			ProjectionElem::ConstantIndex { offset, from_end, .. } => {
				let _ = write!(out, "\"[{}{}]\"", if from_end { "-" } else { "" }, offset);
			},
			ProjectionElem::Subslice { from, to, from_end } => {
				let _ = write!(out, "\"[{}..{}{}]\"", from, if from_end { "-" } else { "" }, to);
			},
			ProjectionElem::Downcast(name, vidx) => {
				let s = match name {
					Some(n) => format!("@{}", n),
					None => format!("@#{}", vidx.as_usize()),
				};
				jstr(out, &s);
			},
			ProjectionElem::OpaqueCast(_) => out.push_str("\"as\""),
			ProjectionElem::UnwrapUnsafeBinder(_) => out.push_str("\"unwrap_binder\""),
		}
		pty = pty.projection_ty(tcx, elem);
	}
	out.push(']');
}

fn const_json<'tcx>(
	tcx: TyCtxt<'tcx>,
	owner: DefId,
	c: &rustc_middle::mir::ConstOperand<'tcx>,
	out: &mut String,
) {
	let ty = c.const_.ty();
	out.push_str("{\"o\":\"k\",\"ty\":");
	jstr(out, &ty_str(ty));
	if let ty::FnDef(did, args) = ty.kind() {
		out.push_str(",\"fn\":");
		jstr(out, &tcx.def_path_str(*did));
		out.push_str(",\"fna\":");
		jstr(out, &tcx.def_path_str_with_args(*did, args));
	} else {
		let env = TypingEnv::post_analysis(tcx, owner);
		// scalar ints / bools / chars
		if ty.is_integral() || ty.is_bool() || ty.is_char() {
			if let Some(si) = c.const_.try_eval_scalar_int(tcx, env) {
				let size = si.size();
				let bits = si.to_bits(size);
				if ty.is_signed() {
					let v = size.sign_extend(bits) as i128;
					let _ = write!(out, ",\"i\":{}", v);
				} else {
					let _ = write!(out, ",\"i\":{}", bits);
				}
			}
		} else if let Some(bytes) = const_bytes(tcx, owner, &c.const_) {
			out.push_str(",\"s\":");
			jbytes_as_str(out, &bytes);
		} else if let Some(v) = const_enum_variant(tcx, owner, &c.const_) {
			// a constant of a field-less enum type (or a reference to one, e.g. the promoted
			// `&ErrorKind::NotFound` of `e.kind() == ErrorKind::NotFound`): its variant name
			out.push_str(",\"ev\":");
			jstr(out, &v);
		} else {
			match c.const_ {
				MirConst::Unevaluated(uv, _) => {
					out.push_str(",\"un\":");
					jstr(out, &tcx.def_path_str(uv.def));
					if let Some(p) = uv.promoted {
						let _ = write!(out, ",\"promoted\":{}", p.as_usize());
					}
				},
				_ => {},
			}
		}
	}
	out.push('}');
}

fn const_enum_variant<'tcx>(tcx: TyCtxt<'tcx>, owner: DefId, c: &MirConst<'tcx>) -> Option<String> {
	let ty = c.ty();
	let (inner, is_ref) = match ty.kind() {
		ty::Ref(_, i, _) => (*i, true),
		_ => (ty, false),
	};
	let adt = match inner.kind() {
		ty::Adt(a, _) if a.is_enum() && a.variants().iter().all(|v| v.fields.is_empty()) => *a,
		_ => return None,
	};
	let env = TypingEnv::post_analysis(tcx, owner);
	let layout = tcx.layout_of(env.as_query_input(inner)).ok()?;
	let size = layout.size.bytes() as usize;
	if size == 0 || size > 8 {
		return None;
	}
	let val = match c {
		MirConst::Val(v, _) => *v,
		MirConst::Unevaluated(..) | MirConst::Ty(..) => c.eval(tcx, env, rustc_span::DUMMY_SP).ok()?,
	};
	let bits: u128 = match val {
		ConstValue::Scalar(rustc_middle::mir::interpret::Scalar::Int(si)) if !is_ref => si.to_bits(si.size()),
		ConstValue::Scalar(rustc_middle::mir::interpret::Scalar::Ptr(ptr, _)) if is_ref => {
			let (prov, offset) = ptr.into_raw_parts();
			match tcx.try_get_global_alloc(prov.alloc_id())? {
				rustc_middle::mir::interpret::GlobalAlloc::Memory(a) => {
					let alloc = a.inner();
					let off = offset.bytes() as usize;
					if off + size > alloc.len() {
						return None;
					}
					let raw = alloc.inspect_with_uninit_and_ptr_outside_interpreter(off..off + size);
					let mut b = [0u8; 16];
					b[..size].copy_from_slice(raw);
					u128::from_le_bytes(b)
				},
				_ => return None,
			}
		},
		_ => return None,
	};
	for (vidx, discr) in adt.discriminants(tcx) {
		if discr.val == bits {
			return Some(adt.variant(vidx).name.to_string());
		}
	}
	None
}

fn const_bytes<'tcx>(tcx: TyCtxt<'tcx>, owner: DefId, c: &MirConst<'tcx>) -> Option<Vec<u8>> {
	// &str / &[u8] / &[u8; N] constants -> bytes
	let ty = c.ty();
	let is_bytes_like = match ty.kind() {
		ty::Ref(_, inner, _) => match inner.kind() {
			ty::Str => true,
			ty::Slice(t) => *t == tcx.types.u8,
			ty::Array(t, _) => *t == tcx.types.u8,
			_ => false,
		},
		_ => false,
	};
	// `&&str` (e.g. the promoted right-hand side of `k == "version"`): follow one more pointer
	let is_ref_ref_str = match ty.kind() {
		ty::Ref(_, inner, _) => match inner.kind() {
			ty::Ref(_, i2, _) => match i2.kind() {
				ty::Str => true,
				// `&&[u8]`: the promoted right-hand side of `slice == MARKER` with `const MARKER: &[u8]`
				ty::Slice(t) => *t == tcx.types.u8,
				_ => false,
			},
			_ => false,
		},
		_ => false,
	};
	if is_ref_ref_str {
		let env = TypingEnv::post_analysis(tcx, owner);
		let val = match c {
			MirConst::Val(v, _) => *v,
			MirConst::Unevaluated(..) | MirConst::Ty(..) => c.eval(tcx, env, rustc_span::DUMMY_SP).ok()?,
		};
		if let ConstValue::Scalar(rustc_middle::mir::interpret::Scalar::Ptr(ptr, _)) = val {
			let (prov, offset) = ptr.into_raw_parts();
			if let rustc_middle::mir::interpret::GlobalAlloc::Memory(a) = tcx.try_get_global_alloc(prov.alloc_id())? {
				let alloc = a.inner();
				let off = offset.bytes() as usize;
				if off + 16 > alloc.len() {
					return None;
				}
				let raw = alloc.inspect_with_uninit_and_ptr_outside_interpreter(off..off + 16);
				let len = u64::from_le_bytes(raw[8..16].try_into().ok()?) as usize;
				let inner_off = u64::from_le_bytes(raw[0..8].try_into().ok()?) as usize;
				let (_, p2) = alloc.provenance().ptrs().iter().find(|(o, _)| o.bytes() as usize == off)?;
				if let rustc_middle::mir::interpret::GlobalAlloc::Memory(b) = tcx.try_get_global_alloc(p2.alloc_id())? {
					let ib = b.inner();
					if inner_off + len > ib.len() {
						return None;
					}
					return Some(ib.inspect_with_uninit_and_ptr_outside_interpreter(inner_off..inner_off + len).to_vec());
				}
			}
		}
		return None;
	}
	if !is_bytes_like {
		return None;
	}
	let env = TypingEnv::post_analysis(tcx, owner);
	let val = match c {
		MirConst::Val(v, _) => *v,
		MirConst::Unevaluated(..) | MirConst::Ty(..) => c.eval(tcx, env, rustc_span::DUMMY_SP).ok()?,
	};
	match val {
		ConstValue::Slice { .. } => val.try_get_slice_bytes_for_diagnostics(tcx).map(|b| b.to_vec()),
		ConstValue::Indirect { alloc_id, offset } => {
			// wide pointer stored in memory: (ptr, len)
			if let rustc_middle::mir::interpret::GlobalAlloc::Memory(a) = tcx.try_get_global_alloc(alloc_id)? {
				let alloc = a.inner();
				let off = offset.bytes() as usize;
				if off + 16 > alloc.len() {
					return None;
				}
				let raw = alloc.inspect_with_uninit_and_ptr_outside_interpreter(off..off + 16);
				let len = u64::from_le_bytes(raw[8..16].try_into().ok()?) as usize;
				let inner_off = u64::from_le_bytes(raw[0..8].try_into().ok()?) as usize;
				let (_, p2) = alloc.provenance().ptrs().iter().find(|(o, _)| o.bytes() as usize == off)?;
				if let rustc_middle::mir::interpret::GlobalAlloc::Memory(b) = tcx.try_get_global_alloc(p2.alloc_id())? {
					let ib = b.inner();
					if inner_off + len > ib.len() {
						return None;
					}
					return Some(ib.inspect_with_uninit_and_ptr_outside_interpreter(inner_off..inner_off + len).to_vec());
				}
			}
			None
		},
		ConstValue::Scalar(rustc_middle::mir::interpret::Scalar::Ptr(ptr, _)) => {
			// &[u8; N]: pointer into a global allocation
			let (prov, offset) = ptr.into_raw_parts();
			let alloc_id = prov.alloc_id();
			let n = match ty.kind() {
				ty::Ref(_, inner, _) => match inner.kind() {
					ty::Array(_, len) => len.try_to_target_usize(tcx)? as usize,
					_ => return None,
				},
				_ => return None,
			};
			match tcx.try_get_global_alloc(alloc_id)? {
				rustc_middle::mir::interpret::GlobalAlloc::Memory(a) => {
					let alloc = a.inner();
					let off = offset.bytes() as usize;
					if off + n > alloc.len() {
						return None;
					}
					Some(alloc.inspect_with_uninit_and_ptr_outside_interpreter(off..off + n).to_vec())
				},
				_ => None,
			}
		},
		_ => None,
	}
}

fn operand_json<'tcx>(
	tcx: TyCtxt<'tcx>,
	owner: DefId,
	body: &Body<'tcx>,
	op: &Operand<'tcx>,
	out: &mut String,
) {
	match op {
		Operand::Copy(p) => {
			out.push_str("{\"o\":\"c\",\"p\":");
			place_json(tcx, body, p, out);
			out.push('}');
		},
		Operand::Move(p) => {
			out.push_str("{\"o\":\"m\",\"p\":");
			place_json(tcx, body, p, out);
			out.push('}');
		},
		Operand::Constant(c) => const_json(tcx, owner, c, out),
		#[allow(unreachable_patterns)]
		_ => {
			out.push_str("{\"o\":\"?\"}");
		},
	}
}

fn ops_json<'tcx, 'a>(
	tcx: TyCtxt<'tcx>,
	owner: DefId,
	body: &Body<'tcx>,
	ops: impl Iterator<Item = &'a Operand<'tcx>>,
	out: &mut String,
) where
	'tcx: 'a,
{
	out.push('[');
	for (i, o) in ops.enumerate() {
		if i > 0 {
			out.push(',');
		}
		operand_json(tcx, owner, body, o, out);
	}
	out.push(']');
}

fn rvalue_json<'tcx>(
	tcx: TyCtxt<'tcx>,
	owner: DefId,
	body: &Body<'tcx>,
	rv: &Rvalue<'tcx>,
	out: &mut String,
) {
	match rv {
		Rvalue::Use(op, ..) => {
			out.push_str("{\"k\":\"use\",\"a\":");
			ops_json(tcx, owner, body, std::iter::once(op), out);
			out.push('}');
		},
		Rvalue::Repeat(op, _) => {
			out.push_str("{\"k\":\"repeat\",\"a\":");
			ops_json(tcx, owner, body, std::iter::once(op), out);
			out.push('}');
		},
		Rvalue::Ref(_, bk, p) => {
			let m = match bk {
				BorrowKind::Shared => "shared",
				BorrowKind::Fake(_) => "fake",
				BorrowKind::Mut { .. } => "mut",
			};
			let _ = write!(out, "{{\"k\":\"ref\",\"m\":\"{}\",\"p\":", m);
			place_json(tcx, body, p, out);
			out.push('}');
		},
		Rvalue::RawPtr(kind, p) => {
			let _ = write!(out, "{{\"k\":\"rawptr\",\"m\":\"{:?}\",\"p\":", kind);
			place_json(tcx, body, p, out);
			out.push('}');
		},
		Rvalue::Cast(ck, op, ty) => {
			let cks = match ck {
				CastKind::IntToInt => "IntToInt".to_string(),
				other => format!("{:?}", other),
			};
			out.push_str("{\"k\":\"cast\",\"ck\":");
			jstr(out, &cks);
			out.push_str(",\"from\":");
			jstr(out, &ty_str(op.ty(&body.local_decls, tcx)));
			out.push_str(",\"to\":");
			jstr(out, &ty_str(*ty));
			out.push_str(",\"a\":");
			ops_json(tcx, owner, body, std::iter::once(op), out);
			out.push('}');
		},
		Rvalue::BinaryOp(op, ab) => {
			let (a, b) = &**ab;
			let ops = binop_str(*op);
			let _ = write!(out, "{{\"k\":\"bin\",\"op\":\"{}\",\"a\":", ops);
			ops_json(tcx, owner, body, [a, b].into_iter(), out);
			out.push('}');
		},
		Rvalue::UnaryOp(op, a) => {
			let _ = write!(out, "{{\"k\":\"un\",\"op\":\"{:?}\",\"a\":", op);
			ops_json(tcx, owner, body, std::iter::once(a), out);
			out.push('}');
		},
		Rvalue::Discriminant(p) => {
			out.push_str("{\"k\":\"discr\",\"p\":");
			place_json(tcx, body, p, out);
			out.push('}');
		},
		Rvalue::Aggregate(ak, ops) => {
			let aks = match &**ak {
				AggregateKind::Array(_) => "Array".to_string(),
				AggregateKind::Tuple => "Tuple".to_string(),
				AggregateKind::Adt(did, vidx, _, _, _) => {
					let adt = tcx.adt_def(*did);
					if adt.is_enum() {
						format!("Adt:{}::{}", tcx.def_path_str(*did), adt.variant(*vidx).name)
					} else {
						format!("Adt:{}", tcx.def_path_str(*did))
					}
				},
				AggregateKind::Closure(did, _) => format!("Closure:{}", tcx.def_path_str(*did)),
				AggregateKind::Coroutine(did, _) => format!("Coroutine:{}", tcx.def_path_str(*did)),
				AggregateKind::CoroutineClosure(did, _) => {
					format!("CoroutineClosure:{}", tcx.def_path_str(*did))
				},
				AggregateKind::RawPtr(..) => "RawPtr".to_string(),
			};
			out.push_str("{\"k\":\"agg\",\"ak\":");
			jstr(out, &aks);
			out.push_str(",\"a\":");
			ops_json(tcx, owner, body, ops.iter(), out);
			out.push('}');
		},
		Rvalue::CopyForDeref(p) => {
			out.push_str("{\"k\":\"copyderef\",\"p\":");
			place_json(tcx, body, p, out);
			out.push('}');
		},
		other => {
			out.push_str("{\"k\":\"other\",\"s\":");
			jstr(out, &format!("{:?}", other));
			out.push('}');
		},
	}
}

fn binop_str(op: BinOp) -> String {
	format!("{:?}", op)
}

fn unwind_json(u: &UnwindAction, out: &mut String) {
	match u {
		UnwindAction::Cleanup(bb) => {
			let _ = write!(out, ",\"u\":{}", bb.as_usize());
		},
		_ => {},
	}
}

fn dump_body<'tcx>(
	tcx: TyCtxt<'tcx>,
	did: DefId,
	kind: DefKind,
	body: &Body<'tcx>,
	out: &mut String,
) {
	let sm = tcx.sess.source_map();
	let span = tcx.def_span(did);
	let loc = sm.lookup_char_pos(span.lo());
	out.push_str("{\"path\":");
	jstr(out, &tcx.def_path_str(did));
	let _ = write!(out, ",\"kind\":\"{:?}\"", kind);
	out.push_str(",\"file\":");
	jstr(out, &format!("{}", loc.file.name.prefer_local_unconditionally()));
	let _ = write!(out, ",\"line\":{}", loc.line);
	if matches!(kind, DefKind::Fn | DefKind::AssocFn) {
		out.push_str(",\"vis\":");
		jstr(out, &format!("{:?}", tcx.visibility(did)));
		let sig = tcx.fn_sig(did).instantiate_identity().skip_norm_wip();
		out.push_str(",\"sig\":");
		jstr(out, &format!("{}", sig));
	}
	if let Some(parent) = tcx.opt_parent(did) {
		if matches!(kind, DefKind::Closure) {
			out.push_str(",\"parent\":");
			jstr(out, &tcx.def_path_str(parent));
		} else if matches!(tcx.def_kind(parent), DefKind::Impl { .. }) {
			out.push_str(",\"impl_self\":");
			let st = tcx.type_of(parent).instantiate_identity().skip_norm_wip();
			jstr(out, &ty_str(st));
			if let Some(tr) = tcx.impl_opt_trait_ref(parent) {
				out.push_str(",\"impl_trait\":");
				jstr(out, &tcx.def_path_str(tr.instantiate_identity().skip_norm_wip().def_id));
			}
		}
	}
	if matches!(kind, DefKind::Closure) {
		if let Some(ldid) = did.as_local() {
			out.push_str(",\"upvars\":[");
			for (i, c) in tcx.closure_captures(ldid).iter().enumerate() {
				if i > 0 {
					out.push(',');
				}
				jstr(out, &c.to_string(tcx));
			}
			out.push(']');
		}
	}
	let _ = write!(out, ",\"argc\":{}", body.arg_count);
	// locals
	out.push_str(",\"locals\":[");
	for (i, (_l, decl)) in body.local_decls.iter_enumerated().enumerate() {
		if i > 0 {
			out.push(',');
		}
		jstr(out, &ty_str(decl.ty));
	}
	out.push_str("],\"names\":{");
	let mut firstn = true;
	for vdi in body.var_debug_info.iter() {
		if let rustc_middle::mir::VarDebugInfoContents::Place(p) = &vdi.value {
			if !firstn {
				out.push(',');
			}
			firstn = false;
			// key: name (may repeat; suffix with local index to keep JSON keys unique)
			let mut key = format!("{}#{}", vdi.name, p.local.as_usize());
			if !p.projection.is_empty() {
				key.push('+');
			}
			jstr(out, &key);
			out.push(':');
			place_json(tcx, body, p, out);
		}
	}
	out.push_str("},\"blocks\":[\n");
	let env = TypingEnv::post_analysis(tcx, did);
	for (bi, (_bb, data)) in body.basic_blocks.iter_enumerated().enumerate() {
		if bi > 0 {
			out.push_str(",\n");
		}
		let _ = write!(out, "{{\"c\":{},\"s\":[", if data.is_cleanup { 1 } else { 0 });
		let mut fs = true;
		for st in data.statements.iter() {
			match &st.kind {
				StatementKind::Assign(bx) => {
					let (p, rv) = &**bx;
					if !fs {
						out.push(',');
					}
					fs = false;
					out.push_str("{\"k\":\"assign\",\"p\":");
					place_json(tcx, body, p, out);
					out.push_str(",\"r\":");
					rvalue_json(tcx, did, body, rv, out);
					out.push(',');
					span_info(tcx, st.source_info.span, out);
					out.push('}');
				},
				StatementKind::SetDiscriminant { place, variant_index } => {
					if !fs {
						out.push(',');
					}
					fs = false;
					out.push_str("{\"k\":\"setdiscr\",\"p\":");
					place_json(tcx, body, place, out);
					let _ = write!(out, ",\"v\":{},", variant_index.as_usize());
					span_info(tcx, st.source_info.span, out);
					out.push('}');
				},
				StatementKind::StorageDead(l) => {
					if !fs {
						out.push(',');
					}
					fs = false;
					let _ = write!(out, "{{\"k\":\"dead\",\"l\":{}}}", l.as_usize());
				},
				StatementKind::Intrinsic(i) => {
					if !fs {
						out.push(',');
					}
					fs = false;
					out.push_str("{\"k\":\"intrinsic\",\"s\":");
					jstr(out, &format!("{:?}", i));
					out.push(',');
					span_info(tcx, st.source_info.span, out);
					out.push('}');
				},
				_ => {},
			}
		}
		out.push_str("],\"t\":");
		let term = data.terminator();
		let tspan = term.source_info.span;
		match &term.kind {
			TerminatorKind::Goto { target } => {
				let _ = write!(out, "{{\"k\":\"goto\",\"t\":{}", target.as_usize());
			},
			TerminatorKind::SwitchInt { discr, targets } => {
				out.push_str("{\"k\":\"switch\",\"a\":");
				operand_json(tcx, did, body, discr, out);
				out.push_str(",\"dty\":");
				jstr(out, &ty_str(discr.ty(&body.local_decls, tcx)));
				out.push_str(",\"vals\":[");
				for (i, (v, _)) in targets.iter().enumerate() {
					if i > 0 {
						out.push(',');
					}
					let _ = write!(out, "{}", v);
				}
				out.push_str("],\"ts\":[");
				for (i, (_, t)) in targets.iter().enumerate() {
					if i > 0 {
						out.push(',');
					}
					let _ = write!(out, "{}", t.as_usize());
				}
				if targets.iter().count() > 0 {
					out.push(',');
				}
				let _ = write!(out, "{}]", targets.otherwise().as_usize());
			},
			TerminatorKind::UnwindResume => out.push_str("{\"k\":\"resume\""),
			TerminatorKind::UnwindTerminate(_) => out.push_str("{\"k\":\"terminate\""),
			TerminatorKind::Return => out.push_str("{\"k\":\"ret\""),
			TerminatorKind::Unreachable => out.push_str("{\"k\":\"unreachable\""),
			TerminatorKind::Drop { place, target, unwind, .. } => {
				out.push_str("{\"k\":\"drop\",\"p\":");
				place_json(tcx, body, place, out);
				out.push_str(",\"ty\":");
				jstr(out, &ty_str(place.ty(&body.local_decls, tcx).ty));
				let _ = write!(out, ",\"t\":{}", target.as_usize());
				unwind_json(unwind, out);
			},
			TerminatorKind::Call { func, args, destination, target, unwind, fn_span, .. } => {
				out.push_str("{\"k\":\"call\"");
				call_target_json(tcx, did, env, body, func, out);
				out.push_str(",\"a\":");
				ops_json(tcx, did, body, args.iter().map(|s| &s.node), out);
				out.push_str(",\"d\":");
				place_json(tcx, body, destination, out);
				out.push_str(",\"rty\":");
				jstr(out, &ty_str(destination.ty(&body.local_decls, tcx).ty));
				if let Some(t) = target {
					let _ = write!(out, ",\"t\":{}", t.as_usize());
				}
				unwind_json(unwind, out);
				let floc = sm.lookup_char_pos(fn_span.source_callsite().lo());
				let _ = write!(out, ",\"fln\":{}", floc.line);
			},
			TerminatorKind::TailCall { func, args, .. } => {
				out.push_str("{\"k\":\"tailcall\"");
				call_target_json(tcx, did, env, body, func, out);
				out.push_str(",\"a\":");
				ops_json(tcx, did, body, args.iter().map(|s| &s.node), out);
			},
			TerminatorKind::Assert { cond, expected, msg, target, unwind } => {
				out.push_str("{\"k\":\"assert\",\"a\":");
				operand_json(tcx, did, body, cond, out);
				let _ = write!(out, ",\"exp\":{},\"msg\":", expected);
				let m = format!("{:?}", msg);
				let short = m.split(|c: char| c == '(' || c == ' ' || c == '{').next().unwrap_or("");
				jstr(out, short);
				let _ = write!(out, ",\"t\":{}", target.as_usize());
				unwind_json(unwind, out);
			},
			TerminatorKind::FalseEdge { real_target, .. } => {
				let _ = write!(out, "{{\"k\":\"goto\",\"t\":{}", real_target.as_usize());
			},
			TerminatorKind::FalseUnwind { real_target, .. } => {
				let _ = write!(out, "{{\"k\":\"goto\",\"t\":{}", real_target.as_usize());
			},
			TerminatorKind::InlineAsm { targets, .. } => {
				out.push_str("{\"k\":\"asm\",\"ts\":[");
				for (i, t) in targets.iter().enumerate() {
					if i > 0 {
						out.push(',');
					}
					let _ = write!(out, "{}", t.as_usize());
				}
				out.push(']');
			},
			other => {
				out.push_str("{\"k\":\"other\",\"s\":");
				jstr(out, &format!("{:?}", other));
			},
		}
		out.push(',');
		span_info(tcx, tspan, out);
		out.push_str("}}");
	}
	out.push_str("\n]}");
	let _ = BasicBlock::from_usize(0);
}

fn call_target_json<'tcx>(
	tcx: TyCtxt<'tcx>,
	owner: DefId,
	env: TypingEnv<'tcx>,
	body: &Body<'tcx>,
	func: &Operand<'tcx>,
	out: &mut String,
) {
	if let Some((cdid, args)) = func.const_fn_def() {
		out.push_str(",\"f\":");
		jstr(out, &tcx.def_path_str(cdid));
		out.push_str(",\"fa\":");
		jstr(out, &tcx.def_path_str_with_args(cdid, args));
		// resolve trait calls
		match Instance::try_resolve(tcx, env, cdid, args) {
			Ok(Some(inst)) => {
				let rdid = inst.def_id();
				out.push_str(",\"r\":");
				jstr(out, &tcx.def_path_str(rdid));
				out.push_str(",\"ra\":");
				jstr(out, &tcx.def_path_str_with_args(rdid, inst.args));
				let ik = match inst.def {
					ty::InstanceKind::Item(_) => "item",
					ty::InstanceKind::Virtual(..) => "virtual",
					ty::InstanceKind::Intrinsic(_) => "intrinsic",
					ty::InstanceKind::ClosureOnceShim { .. } => "closure_once",
					ty::InstanceKind::FnPtrShim(..) => "fnptr_shim",
					ty::InstanceKind::DropGlue(..) => "drop_glue",
					ty::InstanceKind::CloneShim(..) => "clone_shim",
					ty::InstanceKind::ReifyShim(..) => "reify",
					_ => "other",
				};
				let _ = write!(out, ",\"ik\":\"{}\"", ik);
			},
			_ => {},
		}
	} else {
		out.push_str(",\"fop\":");
		operand_json(tcx, owner, body, func, out);
		out.push_str(",\"fty\":");
		jstr(out, &ty_str(func.ty(&body.local_decls, tcx)));
	}
}

fn dump_adts<'tcx>(tcx: TyCtxt<'tcx>, out: &mut String) {
	let mut first = true;
	for id in tcx.hir_free_items() {
		let did = id.owner_id.to_def_id();
		let kind = tcx.def_kind(did);
		if !matches!(kind, DefKind::Struct | DefKind::Enum | DefKind::Union) {
			continue;
		}
		let adt = tcx.adt_def(did);
		if !first {
			out.push_str(",\n");
		}
		first = false;
		out.push_str("{\"path\":");
		jstr(out, &tcx.def_path_str(did));
		let _ = write!(out, ",\"kind\":\"{:?}\",\"variants\":[", kind);
		for (vi, v) in adt.variants().iter().enumerate() {
			if vi > 0 {
				out.push(',');
			}
			out.push_str("{\"name\":");
			jstr(out, v.name.as_str());
			if adt.is_enum() {
				let d = adt.discriminant_for_variant(tcx, rustc_abi::VariantIdx::from_usize(vi));
				let _ = write!(out, ",\"discr\":{}", d.val);
			}
			out.push_str(",\"fields\":[");
			for (fi, f) in v.fields.iter().enumerate() {
				if fi > 0 {
					out.push(',');
				}
				out.push_str("{\"name\":");
				jstr(out, f.name.as_str());
				out.push_str(",\"ty\":");
				let fty = tcx.type_of(f.did).instantiate_identity().skip_norm_wip();
				jstr(out, &ty_str(fty));
				out.push_str(",\"vis\":");
				jstr(out, &format!("{:?}", tcx.visibility(f.did)));
				out.push('}');
			}
			out.push_str("]}");
		}
		out.push_str("]}");
	}
}

fn dump_consts<'tcx>(tcx: TyCtxt<'tcx>, out: &mut String) {
	let mut first = true;
	for ldid in tcx.hir_body_owners() {
		let did = ldid.to_def_id();
		let kind = tcx.def_kind(did);
		if !matches!(kind, DefKind::Const { .. } | DefKind::AssocConst { .. }) {
			continue;
		}
		let ty = tcx.type_of(did).instantiate_identity().skip_norm_wip();
		// skip generic-dependent consts
		if tcx.generics_of(did).own_requires_monomorphization()
			|| tcx.generics_of(did).parent_count > 0
		{
			continue;
		}
		let Ok(val) = tcx.const_eval_poly(did) else { continue };
		if !first {
			out.push_str(",\n");
		}
		first = false;
		out.push_str("{\"path\":");
		jstr(out, &tcx.def_path_str(did));
		out.push_str(",\"ty\":");
		jstr(out, &ty_str(ty));
		match val {
			ConstValue::Scalar(rustc_middle::mir::interpret::Scalar::Int(si)) => {
				let size = si.size();
				let bits = si.to_bits(size);
				if ty.is_signed() {
					let _ = write!(out, ",\"i\":{}", size.sign_extend(bits) as i128);
				} else {
					let _ = write!(out, ",\"i\":{}", bits);
				}
			},
			ConstValue::Indirect { alloc_id, offset } => {
				if let Some(ga) = tcx.try_get_global_alloc(alloc_id) {
					if let rustc_middle::mir::interpret::GlobalAlloc::Memory(a) = ga {
						let alloc = a.inner();
						let len = alloc.len();
						let off = offset.bytes() as usize;
						if alloc.provenance().ptrs().is_empty() {
							let bytes =
								alloc.inspect_with_uninit_and_ptr_outside_interpreter(off..len);
							out.push_str(",\"hex\":\"");
							for b in bytes {
								let _ = write!(out, "{:02x}", b);
							}
							out.push('"');
						} else {
							let mc = MirConst::Val(val, ty);
							if let Some(b) = const_bytes(tcx, did, &mc) {
								out.push_str(",\"s\":");
								jbytes_as_str(out, &b);
							} else {
								out.push_str(",\"ptrs\":true");
							}
						}
					}
				}
			},
			ConstValue::Slice { .. } => {
				if let Some(b) = val.try_get_slice_bytes_for_diagnostics(tcx) {
					out.push_str(",\"s\":");
					jbytes_as_str(out, b);
				}
			},
			_ => {
				let _ = write!(out, ",\"cv\":\"{}\"", format!("{:?}", val).chars().take(60).collect::<String>().replace('"', "'"));
				let mc = MirConst::Val(val, ty);
				if let Some(b) = const_bytes(tcx, did, &mc) {
					out.push_str(",\"s\":");
					jbytes_as_str(out, &b);
				}
			},
		}
		out.push('}');
	}
}
