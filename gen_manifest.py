#!/usr/bin/env python3
"""regenerates MANIFEST.json from the property modules (single source of truth for level/notes)."""
import json, os, sys, importlib
HERE = os.path.dirname(os.path.abspath(__file__))
sys.path.insert(0, os.path.join(HERE, 'rules'))
TECH = {
 'C01': 'MIR path rules: must-pass / dominance / owner-id guard / guard liveness / confinement / value provenance (salt, key digest); thorough tier adds a compile-fail witness (handle is opaque)',
 'C02': 'MIR call-graph confinement + dominance under validation_mode + taint (no read-modify-write) + validator/applier table agreement + ordered-iteration provenance of record sections',
 'C03': 'MIR dominance and loop-exit control dependence on the shutdown/drain path + FIFO discipline of the log queues',
 'C04': 'MIR confinement (stable key-only sort) + guard control dependence in the iterator + recursion audit; thorough tier adds a compile-fail witness (iterator borrows the handle)',
 'C05': 'MIR guard liveness (one guard spans publication and lookup) + hand-over order + key-compare guard + overlay slot addressing; thorough tier adds compile-fail witnesses',
 'C06': 'const-evaluated layout relations + narrowing-cast dominance on the encode path + one-guard rule for chained reads',
 'C07': 'MIR control dependence (ref_counted guards) + must-pass in write_existing_value_plan + append-only change lists',
 'C08': 'MIR effect-before-error path search over the commit entry closure + constructor confinement of Commit',
 'C09': 'MIR sibling agreement (all-generation search and purge), guard liveness on index swap and lookup, confinement of drop_file, retry-after-growth',
 'C10': 'MIR narrowing-cast audit + order + guard liveness + recursion and slice-range audits + lock decision rule',
 'C11': 'MIR control dependence of planning on the deferral test + registry confinement + marking under the queue lock + field-effect slices of the re-queued change set; thorough tier adds a compile-fail witness',
 'C12': 'MIR dominance / must-pass under sync assumptions + confinement of sync, truncate, unlink + error-edge rules of the cleanup and append paths',
 'C13': 'MIR validator/applier sibling agreement + panic-site audit of the pre-checksum closure + error-kind guards on end-of-data',
 'C14': 'MIR must-pass (dirty_header after every header-field store) + guard liveness + overlay-shadowed planning reads',
 'C15': 'MIR wake-up pairing (must-pass notify under the mutex), wait/wake predicate complement, lock-order graph, deferral progress',
 'C16': 'MIR error-discipline: every fallible result consumed; gate closes; unwrap audit; error-kind guards; error-edge rules of cleanup and append',
 'C17': 'MIR dominance in open + writer/reader string-table agreement + file-name predicate agreement + version/salt provenance in the administration calls',
 'C18': 'MIR dominance (lock first), provenance (locked file stored), confinement (unlock last), no-write-before-open in the offline entry points',
 'C19': 'value-provenance analysis of the vector and scalar page search (expression trees from reaching definitions, lane table for the SSE2 intrinsics) checked against the premises of three integer lemmas: lane wiring, shared shift/key terms, mask-to-position arithmetic, loop coverage, candidate always returned',
 'C20': 'MIR sibling agreement, error propagation, loop-carried move, version/salt provenance, checked close, ordering of reopen and file moves',
}
NA = {
}
def main():
    props = [json.loads(l) for l in open(os.path.join(HERE, 'properties.jsonl'))]
    checks = []
    na = []
    for p in props:
        pid = p['id']
        path = os.path.join(HERE, 'rules', 'props', pid + '.py')
        if not os.path.exists(path):
            na.append({'property_id': pid, 'reason': NA.get(pid, 'no static rule built yet for this property (see DESIGN.md); not claimed')})
            continue
        m = importlib.import_module('props.' + pid)
        checks.append({
            'property_id': pid,
            'quick_cmd': './check %s --tier quick' % pid,
            'thorough_cmd': './check %s --tier thorough' % pid,
            'evidence_file': '/verif/evidence/%s.json' % pid,
            'replay_cmd_template': './check %s --tier quick   # violations listed in {path}' % pid,
            'engine': 'pdb-facts+rules',
            'level_claimed': {'category': m.LEVEL,
                              'text': 'Static decision of the structural clauses of %s on every MIR path / call-graph edge of the current tree: %s' % (pid, m.EXPLANATION),
                              'design_ref': 'DESIGN.md section 4, %s' % pid},
            'level_note': 'Decides necessary structural conditions, not the behavioural property as a whole. Assumptions: ' + '; '.join(m.ASSUMPTIONS) + '. Trusted: ' + ', '.join(m.TRUSTED),
            'technique': 'static analysis: ' + TECH.get(pid, 'MIR rules'),
        })
    man = {
        'version': 1,
        'setup_cmd': 'cd /verif/driver && CARGO_NET_OFFLINE=true cargo build --offline --release',
        'hooks': {'guard': 'parity_db_verif', 'enable': 'none needed: the analysis reads the unmodified tree (no hooks in /repo)',
                  'baseline_off_cmd': 'cd /repo && cargo test --workspace --no-fail-fast --offline', 'source_commits': [], 'add_only': True},
        'engines': [
            {'name': 'pdb-facts', 'path': '/verif/driver', 'serves_properties': [c['property_id'] for c in checks],
             'kind_free_text': 'rustc_private driver (RUSTC_WORKSPACE_WRAPPER under cargo +nightly check) dumping MIR facts of crate parity_db'},
            {'name': 'rules', 'path': '/verif/rules', 'serves_properties': [c['property_id'] for c in checks],
             'kind_free_text': 'Python rule engine: CFG dominance/must-pass, control dependence + backward slices, guard liveness, call-graph confinement, constant relations'},
        ],
        'checks': checks,
        'not_applicable': na,
        'notes': 'All checks are static (no parity-db code is executed). Known findings: /verif/known_findings.txt. Seeded changes used to test the checks: /verif/seeded/.',
    }
    json.dump(man, open(os.path.join(HERE, 'MANIFEST.json'), 'w'), indent=1)
    print('checks:', [c['property_id'] for c in checks], 'not_applicable:', [n['property_id'] for n in na])
main()
