"""C09 - index growth and hash-prefix collisions never change query results (structural part)."""
import re
import core, lib
from core import call_matches, call_names, op_place, op_local, backward_slice
from props import shared, C05

LEVEL = 'proof'
FLOOR = 53      # 70% of the 76 obligation instances derived on the tree the rules were last reviewed against
EXPLANATION = ('Every lookup and every planned write searches the current index and, unconditionally, every queued older index (ref counts likewise); '
               'old index files are unlinked only by an enacted DropTable record, which is logged only when the batch walk reached the end of the source; '
               'the index swap on growth happens under both the tables and the reindex write locks; reindex batches wait for the triggering record to be '
               'enacted; reindexing skips entries already present; candidates are confirmed against the stored key tail and the page scan continues after a miss.')
EXPLANATION += ' Added: a fresh index insert is retried after growth; a moved value leaves no entry in an older index and its copies are purged from all generations; the lookup holds the reindex guard from its first search; the writer search verifies the stored key; dropping a never-created table file is not an error; progress is reset when the queue front changes.'
ASSUMPTIONS = ['batch migration correctness over interleavings is not decided', 'unwind edges ignored']
TRUSTED = ['rustc MIR construction (nightly)', 'pdb-facts driver', 'rule engine /verif/rules', 'anchor tables in props/C09.py']


def both_index_search(ctx, key, fn, search_pats, variant, current_field):
    F = ctx.F
    b = ctx.body(fn)
    if not b:
        return
    sites = b.call_sites(*search_pats)
    loops = lib.for_loops_over(b, '.Reindex.queue')
    if len(sites) == 1 and len(loops) == 1:
        # single-loop form: `for t in once(current).chain(queued) { search(t) }` - the current table first, then the queue
        lp = loops[0]
        th = b.term(lp['head'])
        sl = backward_slice(b, [op_place(th['a'][0])]) if th['a'] and op_place(th['a'][0]) is not None else None
        chains = [x for x, t2 in (sl.call_sites if sl else []) if call_matches(t2, ['re:Iterator::chain$'])]
        first_is_current = False
        for x in chains:
            t2 = b.term(x)
            a0 = backward_slice(b, [op_place(t2['a'][0])]) if op_place(t2['a'][0]) is not None else None
            a1 = backward_slice(b, [op_place(t2['a'][1])]) if len(t2['a']) > 1 and op_place(t2['a'][1]) is not None else None
            if a0 and a1 and any(c.endswith('iter::once') or c.endswith('::once') for c in a0.calls) and current_field in a0.fields and '.Reindex.queue' in a1.fields and '.Reindex.queue' not in a0.fields:
                first_is_current = True
        sels, adaptors = lib.loop_source_selectors(b, lp)
        trims = adaptors & {'take', 'skip', 'step_by', 'take_while', 'skip_while', 'nth', 'last', 'find', 'position', 'zip', 'rev'}
        ctx.ob(key + 'a anchors %s' % fn, 'anchor', fn, 'one search call inside one loop over once(current table).chain(queued tables)', first_is_current, 'search sites %s chains %s' % (sites, chains))
        ctx.ob(key + 'b current-index-searched %s' % fn, 'K1-must-pass', fn, 'the current table is searched on every path before the old ones (it is the first element of the chain)', first_is_current, '')
        w = lib.loop_body_must_call(b, lp, sites)
        pure = all(lib.pure_variant_selector(x) for x in sels if x is not None)
        ctx.ob(key + 'c every-queued-table-searched %s' % fn, 'K2-loop-order', fn,
               'for every queued older table of the right kind the search is called unconditionally (no skip by progress, size or position)', first_is_current and w is None and pure and not trims,
               '' if w is None else 'iteration path that skips the search: ' + lib.short_path(b, w))
        rets_none = b.find_path([0], b.return_blocks(), removed=set(sites) | {lp['head']} | core.error_exit_blocks(b))
        ctx.ob(key + 'd absence-only-after-search %s' % fn, 'K1-must-pass', fn, 'no success return without having searched', rets_none is None, '')
        return
    ctx.ob(key + 'a anchors %s' % fn, 'anchor', fn, 'two per-index search calls and one loop over Reindex.queue', len(sites) == 2 and len(loops) == 1, 'search sites %s loops %d' % (sites, len(loops)))
    if len(sites) != 2 or len(loops) != 1:
        return
    lp = loops[0]
    inloop = [s for s in sites if s in b.reachable_from([lp['some']], removed={lp['head']})]
    first = [s for s in sites if s not in inloop]
    ctx.ob(key + 'b current-index-searched %s' % fn, 'K1-must-pass', fn, 'the current table is searched on every path before the old ones',
           len(first) == 1 and b.find_path([0], {lp['head']}, removed=set(first) | core.error_exit_blocks(b)) is None, '')
    found, w = lib.loop_arm_must_call(b, lp, 'ReindexEntry', variant, inloop)
    if not found:
        # `for t in queue.iter().filter_map(ReindexEntry::as_index)`: the variant is selected by the iterator source; that is the
        # same thing as long as the selector only looks at the variant and no positional adaptor trims the queue
        sels, adaptors = lib.loop_source_selectors(b, lp)
        trims = adaptors & {'take', 'skip', 'step_by', 'take_while', 'skip_while', 'nth', 'last', 'find', 'position', 'zip'}
        if sels and all(lib.pure_variant_selector(x) for x in sels) and not trims:
            found = True
            w = lib.loop_body_must_call(b, lp, inloop)
    ctx.ob(key + 'c every-queued-table-searched %s' % fn, 'K2-loop-order', fn,
           'for every queued older table of the right kind the search is called unconditionally (no skip by progress, size or position)', found and w is None and bool(inloop),
           'arm not found' if not found else ('' if w is None else 'iteration path that skips the search: ' + lib.short_path(b, w)))
    # a miss in all tables is the only way to report absence
    rets_none = b.find_path([0], b.return_blocks(), removed=set(sites) | core.error_exit_blocks(b))
    ctx.ob(key + 'd absence-only-after-search %s' % fn, 'K1-must-pass', fn, 'no success return without having searched', rets_none is None, '')


def one_generation_searched_only_by_helpers(ctx, key):
    """The index of a column exists in generations (current table + queued older ones) while a growth is being migrated; a key
    may live in any of them. A keyed search of ONE table (IndexTable::get) is therefore made only by helpers that are handed the
    table as a parameter by a function that walks all generations (HashColumn::get, search_all_indexes, the duplicate check and
    purge of the growth). A function that holds the column's tables and searches `tables.index` itself misses every key that has
    not been migrated yet."""
    F = ctx.F
    bad = []
    helpers = set()
    n = 0
    for pth, b in sorted(F.bodies.items()):
        if not pth.startswith('column::'):
            continue
        for bi, t in b.calls():
            if bi in b.normal_blocks() and call_matches(t, ['index::IndexTable::get']) and t['a']:
                n += 1
                fl = lib.receiver_fields(b, t, 0)
                pl = op_place(t['a'][0])
                sl = backward_slice(b, [pl], through_calls=False) if pl is not None else None
                from_param = bool(sl) and any(re.search(r'index::IndexTable', str(b.locals[q])) for q in sl.params)
                if any(f in fl for f in ('.Tables.index', '.Reindex.queue', '.HashColumn.tables', '.HashColumn.reindex')) or not from_param:
                    bad.append('%s searches one table it picked itself at %s' % (pth, b.loc(bi)))
                else:
                    helpers.add(lib.strip_closures(pth))
    ctx.ob(key + 'g one-generation-searched-only-through-helpers', 'K4-confinement', 'column::HashColumn',
           'IndexTable::get is called only on a table received as a parameter (per-generation helper); the functions that own the tables go through a walk over all generations',
           not bad and n >= 3, '; '.join(bad) or 'sites %d' % n)


def run(ctx):
    F = ctx.F
    one_generation_searched_only_by_helpers(ctx, '1')
    both_index_search(ctx, '1', 'column::HashColumn::get', ['column::HashColumn::get_in_index'], 0, '.Tables.index')
    both_index_search(ctx, '1w', 'column::HashColumn::search_all_indexes', ['column::HashColumn::search_index'], 0, '.Tables.index')
    both_index_search(ctx, '1r', 'column::HashColumn::search_all_ref_count', ['column::HashColumn::search_ref_count'], 1, '.Tables.ref_count')
    wp = ctx.body('column::HashColumn::write_plan')
    if wp:
        s = wp.call_sites('column::HashColumn::search_all_indexes')
        lib.must_pass(ctx, '1x write_plan-searches-all', wp, s, 'every planned write first searches all indexes for the key')
    # 2. old index files
    shared.wal_confinement(ctx, '2')
    shared.drop_table_idempotent(ctx, '2i')
    shared.index_insert_retried(ctx, '2r')
    pr = ctx.body('db::DbInner::process_reindex')
    if pr:
        for callee, fld in (("log::LogWriter::<'a>::drop_table", '.ReindexBatch.drop_index'), ("log::LogWriter::<'a>::drop_ref_count_table", '.ReindexBatch.drop_ref_count')):
            for s in pr.call_sites(callee):
                lib.cond_guarded(ctx, '2m drop-logged-only-if-batch-says-so %s' % callee.split('::')[-1], pr, s, 'a DropTable record is logged only depending on the drop field of the reindex batch', fields=[fld])
                er = lib.sites_reaching(pr, ['log::Log::end_record'])        # directly or through a helper that ends the record
                ok = any(e in pr.reaches(s) for e in er)
                ctx.ob('2n drop-in-same-record %s' % callee.split('::')[-1], 'K2-order', pr.path, 'the drop is part of the record that carries the last batch (end_record follows)', ok, '')
    rx = ctx.body('column::HashColumn::reindex')
    if rx:
        for fld in ('drop_index', 'drop_ref_count'):
            # assignments of Some(..) to the local that ends up in ReindexBatch.<fld>
            aggs = [s for bi in rx.normal_blocks() for s in rx.blocks[bi]['s'] if s['k'] == 'assign' and s['r']['k'] == 'agg' and s['r']['ak'] == 'Adt:column::ReindexBatch']
            adt = F.adts['column::ReindexBatch']
            fi = [f['name'] for f in adt['variants'][0]['fields']].index(fld)
            ok = False
            det = 'no ReindexBatch aggregate'
            if aggs:
                src = op_local(aggs[0]['r']['a'][fi])
                # where the Some(..) is made - in reindex itself or in a helper whose result ends up in the field
                somes = [(b2, bi, x) for (b2, bi, x) in lib.value_sources(rx, src) if isinstance(x.get('r'), dict) and x['r'].get('k') == 'agg' and x['r']['ak'] == 'Adt:std::option::Option::Some']
                det = '%d Some assignments' % len(somes)
                ok = len(somes) == 1
                for b2, bi, x in somes:
                    g = False
                    for (sw, yes, no) in b2.control_deps(bi):
                        pol = lib.eq_polarity(b2, sw)
                        if pol:
                            eq_t, ne_t, ops = pol
                            sl = backward_slice(b2, [op_place(o) for o in ops if op_place(o)])
                            if eq_t in yes and ne_t in no and any(c.endswith('::total_chunks') for c in sl.calls):
                                g = True
                    ok = ok and g
            ctx.ob('2o %s-only-when-source-exhausted' % fld, 'K3-guard', rx.path, 'the batch asks for the drop only when the walk position equals total_chunks of the source table', ok, det)
    # the progress counter describes the table at the FRONT of the reindex queue: it is reset whenever the front changes
    poppers = lib.calls_on_field(F, ['std::collections::VecDeque::<T, A>::pop_front', 're:VecDeque.*::(pop_back|remove|drain|clear|swap_remove.*|push_front|insert|rotate.*)$'], '.Reindex.queue')
    pb = sorted(set(b.path for b, _ in poppers))
    ctx.ob('2p front-changers', 'K4-confinement', ','.join(pb), 'the front of the reindex queue changes only in drop_index / drop_ref_count (entries are appended at the back)',
           set(pb) == {'column::HashColumn::drop_index', 'column::HashColumn::drop_ref_count'}, str(pb))
    for b, site in poppers:
        rs = [bi for bi, t in b.calls() if call_matches(t, lib.ATOMIC_STORE) and '.Reindex.progress' in lib.receiver_fields(b, t, 0) and len(t['a']) > 1 and t['a'][1].get('i') == 0]
        w = b.find_path([0], b.return_blocks(), removed=set(rs) | core.error_exit_blocks(b) - {site}) if False else None
        # every path entry -> pop_front -> Ok return passes a progress.store(0)
        before = b.find_path([0], {site}, removed=set(rs))
        after = b.find_path(list(b.succ(site)), b.return_blocks(), removed=set(rs) | core.error_exit_blocks(b))
        ok = bool(rs) and (before is None or after is None)
        ctx.ob('2q progress-reset-when-front-changes %s' % b.path, 'K1-must-pass', b.path,
               'whenever the front table of the reindex queue is removed, the batch progress counter is reset to 0 in the same function (else the next queued table is walked from the old position and its first chunks are never migrated)', ok,
               'no progress.store(0)' if not rs else 'a path pops the front without resetting progress', b.loc(site))
        lib.held_at(ctx, '2r front-change-under-reindex-write-lock %s' % b.path, b, site, '.HashColumn.reindex', 'the queue front is changed with the reindex write guard held', mode='write')
    # nobody else resets progress to 0 (a reset while the front table is half walked restarts it: harmless; but a reset
    # coupled to growth instead of completion is exactly the defect above) - informational only
    # 3. growth swap
    for fn, fld in (('column::HashColumn::trigger_reindex', '.Tables.index'), ('column::HashColumn::trigger_ref_count_reindex', '.Tables.ref_count')):
        b = ctx.body(fn)
        if not b:
            continue
        rep = b.call_sites('std::mem::replace')
        pb = [bi for bi, t in b.calls() if call_matches(t, ['std::collections::VecDeque::<T, A>::push_back'])]
        ctx.ob('3a swap-anchors %s' % fn, 'anchor', fn, 'one mem::replace of the table and one push_back onto the reindex queue', len(rep) == 1 and len(pb) == 1, '%s %s' % (rep, pb))
        for s in rep + pb:
            live = lib.guards_live_at(b, s)
            tys = [ty for l, ty, cls in live]
            ok = any('RwLockWriteGuard' in t and 'column::Tables' in t for t in tys) and any('RwLockWriteGuard' in t and 'column::Reindex' in t for t in tys)
            ctx.ob('3b both-write-locks-held %s bb-of:%s' % (fn, b.term(s).get('r')), 'K5-held-at', fn,
                   'the new table is installed and the old one queued with both the tables and the reindex write guards held (a reader sees either the old or the new arrangement)', ok, 'live: %s' % tys, b.loc(s))
        lib.precedes(ctx, '3c replace-before-queue %s' % fn, b, rep, pb, 'the table pushed on the queue is the one that was replaced')
    # 4. batches wait for enactment
    if pr:
        rs = pr.call_sites('column::HashColumn::reindex')
        for s in rs[:1]:
            lib.cond_guarded(ctx, '4a batch-waits-for-enactment', pr, s, 'a reindex batch is built only depending on next_reindex and last_enacted (the record that triggered growth has been applied)',
                             fields=['.DbInner.next_reindex', '.DbInner.last_enacted'])
        st = [bi for bi, t in pr.calls() if call_matches(t, lib.ATOMIC_STORE) and '.DbInner.next_reindex' in lib.receiver_fields(pr, t, 0)]
        ctx.ob('4b reindex-cleared-when-done', 'anchor', pr.path, 'process_reindex clears next_reindex when no column has work', len(st) == 1, '')
    # a reindex batch walks every source page completely: progress advances by whole pages, so an entry skipped inside a
    # page is never migrated and disappears when the old index is dropped
    if rx:
        fam = lib.family(F, rx.path)          # reindex and the helpers extracted from it
        ents = [(fb, bi) for fb in fam for bi in fb.call_sites('index::IndexTable::entries', 'ref_count::RefCountTable::entries')]
        ctx.ob('4c page-read-anchor', 'anchor', rx.path, 'reindex reads whole pages of the source table (index and ref-count branch)', len(ents) == 2, str([(fb.path, bi) for fb, bi in ents]))
        TRUNC = re.compile(r'::(take|skip|step_by|take_while|skip_while|nth|nth_back|map_while|zip|advance_by)$')   # positional truncation; filter() on emptiness is legitimate
        bad = []
        for fb in fam:
            ent = [bi for b2, bi in ents if b2 is fb]
            lib.empty_slot_skipped(ctx, '4e empty-slot-skipped-not-terminal' + ('' if fb is rx else ' ' + fb.path), fb, 'a reindex batch skips an empty slot and goes on with the rest of the page')
            for bi, t in fb.calls():
                nm = t.get('r') or t.get('f') or ''
                if TRUNC.search(t.get('f') or '') or TRUNC.search(nm):
                    if t['a'] and op_place(t['a'][0]) is not None and any(x in ent for x, _ in backward_slice(fb, [op_place(t['a'][0])]).call_sites):
                        bad.append('%s at %s' % ((t.get('f') or nm), fb.loc(bi)))
        ctx.ob('4d page-entries-iterated-without-adaptors', 'K4-confinement', rx.path,
               'the entries of a source page are iterated with plain slice iteration (no take/skip/filter adaptor that could leave entries of a page behind while the page counter advances)', not bad, '; '.join(bad))
    # 5. collision chain
    C05.key_tail_check(ctx, '5')
    # the vectorised page scan never searches for the pattern 0 (empty slots carry 0: a zero compare target makes the scan
    # return an empty slot, which every caller reads as the end of the collision chain): the value broadcast into the compare
    # register is the very value that was tested against zero, and the scalar fallback takes the zero case
    for fn in ('index::IndexTable::find_entry_sse2',):
        fs = F.body(fn)
        if fs is None:
            ctx.note('%s not compiled in this configuration (non-x86_64): scalar search only' % fn)
            continue
        bc = [bi for bi, t in fs.calls() if bi in fs.normal_blocks() and call_matches(t, ['re:_mm_set1_epi32$', 're:_mm_set1_epi64x$', 're:_mm256_set1_epi32$'])]
        fb = fs.call_sites('index::IndexTable::find_entry_base')
        ctx.ob('5z0 vector-scan-anchors', 'anchor', fn, 'the vectorised scan broadcasts one compare target and has a scalar fallback', len(bc) == 1 and len(fb) >= 1, '%s %s' % (bc, fb))
        for s2 in bc:
            tgt = lib.root_local(fs, fs.term(s2)['a'][0])
            ok = False
            det = 'no zero test of the broadcast value dominates the broadcast'
            for (sw, yes, no) in fs.control_deps(s2):
                t = fs.term(sw)
                if t['k'] != 'switch' or op_local(t['a']) is None:
                    continue
                ds = fs.defs().get(op_local(t['a']), [])
                if len(ds) != 1 or ds[0][2] != 'assign' or ds[0][3]['r']['k'] != 'bin' or ds[0][3]['r']['op'] not in ('Eq', 'Ne'):
                    continue
                a, b2 = ds[0][3]['r']['a']
                if b2.get('i') != 0:
                    continue
                tested = lib.root_local(fs, a)
                # edge on which the value is non-zero
                nz = t['ts'][0] if ds[0][3]['r']['op'] == 'Eq' else t['ts'][1]
                z = t['ts'][1] if ds[0][3]['r']['op'] == 'Eq' else t['ts'][0]
                if tested == tgt and tgt is not None:
                    if nz in yes and z in no and any(x in fs.reachable_from([z], removed={sw}) for x in fb):
                        ok = True
                    else:
                        det = 'the zero test of the broadcast value does not separate the broadcast (non-zero edge) from the scalar fallback (zero edge)'
                else:
                    det = 'the value tested against zero (_%s) is not the value broadcast as compare target (_%s): a zero target can reach the vector compare' % (tested, tgt)
            ctx.ob('5z zero-pattern-never-vector-searched', 'K3-guard', fn,
                   'the compare target of the vectorised page scan is exactly the value tested against zero on the edge that continues to the scan; the zero case goes to the scalar search', ok, det, fs.loc(s2))
    # 6. skip if present
    wl = ctx.body('column::HashColumn::write_reindex_plan_locked')
    if wl:
        cp = wl.call_sites('column::HashColumn::contains_partial_key_with_address')
        wi = wl.call_sites('index::IndexTable::write_insert_plan')
        for s in wi:
            lib.result_guards(ctx, '6a reindex-skips-present-entries', wl, cp, s, 'an entry is inserted into the new index only depending on the presence test (no duplicates)')
        lib.precedes(ctx, '6b presence-test-first', wl, cp, wi, 'the presence test precedes the insert')
    # 7. a key found in an OLDER index whose value moves to another slot: the new address is entered into the current index, and
    # the entry in the older index (which now points at the freed slot) has to go in the same plan - reindexing would otherwise
    # carry it over, and a later tenant of the slot whose stored key tail agrees is served for the removed key (F39)
    for wb in [b for b in F.bodies.values() if b.call_sites('column::Column::write_existing_value_plan') and b.call_sites('index::IndexTable::write_insert_plan')]:
        ins = [bi for bi in wb.call_sites('index::IndexTable::write_insert_plan') if '.Tables.index' in lib.receiver_fields(wb, wb.term(bi), 0)]
        rem = [bi for bi in wb.call_sites('index::IndexTable::write_remove_plan') if '.Tables.index' not in lib.receiver_fields(wb, wb.term(bi), 0)]
        eqs = [bi for bi, t in wb.calls() if call_matches(t, ['re:index::TableId as .*PartialEq.*::(eq|ne)$'])]
        same, edges = set(), []
        for x in eqs:
            ne = call_matches(wb.term(x), ['re:::ne$'])       # `!=` is true when the tables differ
            for (sb, tr, fa) in lib.bool_outcome_edges(wb, [x]):
                edges.append(sb)
                same.add(fa if ne else tr)
        ctx.ob('7a0 moved-value-anchors %s' % wb.path, 'anchor', wb.path, 'the insert into the current index, the removal from the index the key was found in, and the comparison of the two table ids were found',
               len(ins) >= 1 and len(eqs) >= 1 and bool(edges), 'insert %s remove %s id comparisons %s' % (ins, rem, eqs))
        errs = core.error_exit_blocks(wb)
        for i in ins:
            w1 = wb.find_path([0], {i}, removed=set(rem), removed_edges=frozenset(same))
            w2 = wb.find_path(list(wb.succ(i)), wb.return_blocks(), removed=set(rem) | errs, removed_edges=frozenset(same)) if w1 else None
            ok = not (w1 and w2)
            ctx.ob('7a moved-value-leaves-no-entry-in-an-older-index %s' % wb.path, 'K1-must-pass', wb.path,
                   'unless the key was found in the current index, a plan that enters the new address of a moved value also removes the entry of the index the key was found in',
                   ok, '' if ok else 'entry kept in the older index: ' + lib.short_path(wb, w1 + w2), wb.loc(i))
        # 7b (F74). The insert can answer NeedReindex WITHOUT having written anything - the new address does not fit the address
        # range of this index (a tier with more than 2^22 slots). The value has been moved by then: the entry the key was found
        # under names a freed slot whichever index it is in, and it has to be removed on every path that hands NeedReindex back -
        # also when it sits in the current index, which is about to be queued and migrated entry by entry.
        adt = F.adts.get('index::PlanOutcome')
        nr = None
        if adt:
            for v in adt['variants']:
                if v['name'] == 'NeedReindex':
                    nr = v['discr']
        all_rem = [bi for bi in wb.call_sites('index::IndexTable::write_remove_plan') if bi in wb.normal_blocks()]
        for i in ins:
            # the switch on the outcome of this insert
            want = {wb.term(i)['d'][0]}
            for _ in range(4):
                for bi in wb.normal_blocks():
                    tt = wb.term(bi)
                    if tt['k'] == 'call' and call_matches(tt, ['std::ops::Try::branch']) and tt['a'] and op_place(tt['a'][0]) is not None and op_place(tt['a'][0])[0] in want:
                        want.add(tt['d'][0])
                    for st in wb.blocks[bi]['s']:
                        if st['k'] == 'assign' and len(st['p']) == 1 and st['r']['k'] == 'use' and op_place(st['r']['a'][0]) is not None and op_place(st['r']['a'][0])[0] in want:
                            want.add(st['p'][0])
            nr_edges = []
            for bi in wb.normal_blocks():
                tt = wb.term(bi)
                d = lib.switch_def(wb, bi)
                if tt['k'] == 'switch' and d and d[2] == 'assign' and d[3]['r']['k'] == 'discr' and d[3]['r']['p'][0] in want and 'PlanOutcome' in str(wb.locals[d[3]['r']['p'][0]]) and nr is not None:
                    for v, tg in zip(tt['vals'], tt['ts']):
                        if v == nr:
                            nr_edges.append((bi, tg))
            # the two cases are told apart by the comparison of the table ids: found in an older index (`same` edges removed), or
            # found in the current one (the other edges removed, and with them the None side of an Option that is Some exactly then:
            # `let sub_index = if in_current { Some(sub_index) } else { None }`)
            diff = set()
            for x in eqs:
                ne = call_matches(wb.term(x), ['re:::ne$'])
                for (sb, tr, fa) in lib.bool_outcome_edges(wb, [x]):
                    diff.add(tr if ne else fa)
            opt_none_edges = set()
            for l, ty in enumerate(wb.locals):
                if not str(ty).startswith('std::option::Option<'):
                    continue
                ds = [d for d in wb.defs().get(l, []) if d[2] == 'assign' and d[3]['r']['k'] == 'agg']
                somes = [d for d in ds if d[3]['r']['ak'].endswith('Option::Some')]
                nones = [d for d in ds if d[3]['r']['ak'].endswith('Option::None')]
                if len(somes) == 1 and len(nones) == 1 and len(wb.defs().get(l, [])) == 2 and \
                        any(wb.find_path([0], {somes[0][0]}, removed_edges=frozenset(same)) is None for _ in [0]) and wb.find_path([0], {nones[0][0]}, removed_edges=frozenset(diff)) is None:
                    for bi in wb.normal_blocks():
                        tt = wb.term(bi)
                        d = lib.switch_def(wb, bi)
                        if tt['k'] == 'switch' and d and d[2] == 'assign' and d[3]['r']['k'] == 'discr' and lib.root_local(wb, {'o': 'c', 'p': d[3]['r']['p']}) in (l,) + tuple(
                                x[3]['p'][0] for x in [y for ll in range(len(wb.locals)) for y in wb.defs().get(ll, []) if y[2] == 'assign' and y[3]['r']['k'] == 'use' and op_place(y[3]['r']['a'][0]) == [l]]):
                            for v, tg2 in zip(tt['vals'], tt['ts']):
                                if v == 0:
                                    opt_none_edges.add((bi, tg2))
                            if tt['vals'] == [1]:
                                opt_none_edges.add((bi, tt['ts'][-1]))
            ok, det = False, 'the NeedReindex outcome of the insert is not examined'
            if nr_edges:
                ok, det = True, ''
                for sw, tg in nr_edges:
                    for name, cut in (('found in an older index', frozenset(same)), ('found in the current index', frozenset(diff | opt_none_edges))):
                        w1 = wb.find_path([0], {sw}, removed=set(all_rem), removed_edges=cut)
                        w2 = wb.find_path([tg], wb.return_blocks(), removed=set(all_rem) | errs, removed_edges=cut) if w1 else None
                        if w1 and w2:
                            ok, det = False, 'NeedReindex handed back with the found entry still in place (key %s): %s' % (name, lib.short_path(wb, w1 + w2))
            ctx.ob('7b found-entry-removed-when-the-insert-needs-a-bigger-index %s' % wb.path, 'K1-must-pass', wb.path,
                   'every path that hands NeedReindex back after the value was moved has removed the entry the key was found under (in whichever index generation)', ok, det, wb.loc(i))
    shared.lookup_sees_one_queue_state(ctx, '8')
    shared.index_hit_verified_against_key(ctx, '9')
    shared.index_entry_purged_from_all_generations(ctx, '10')
    shared.lazily_created_files_dropped_leniently(ctx, '11')
