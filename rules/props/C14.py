"""C14 - storage stays structurally sound (pairing clauses only; slot accounting over histories is NOT decided)."""
import re
import core, lib
from core import call_matches, call_names, op_place, op_local, backward_slice
from props import C02, shared

LEVEL = 'other'
FLOOR = 37      # 70% of the 53 obligation instances derived on the tree the rules were last reviewed against
EXPLANATION = ('Header follows its fields: every function that changes filled / last_removed marks the header dirty, and process_commits logs the header '
               '(complete_plan for every column) after all plans and before the record is closed; the in-memory free list changes under its lock together '
               'with the counters (C10.5); when a value disappears or moves, its index entry is removed or re-pointed in the same record; free-list links '
               'are range-checked against filled/written wherever they are followed.')
EXPLANATION += " Added: the header is logged whenever dirty; the cleared index slot is the verified position; planning reads are shadowed by the writer's overlay; known findings F22 and F21."
ASSUMPTIONS = ['DECLINED: slot accounting (no orphan / double use / leak) over histories, btree shape, node reference counts', 'unwind edges ignored']
TRUSTED = ['rustc MIR construction (nightly)', 'pdb-facts driver', 'rule engine /verif/rules', 'anchor tables in props/C14.py']


SLOT_WRITERS = {'table::ValueTable::next_free', 'table::ValueTable::claim_entries', 'table::ValueTable::clear_slot', 'table::ValueTable::refresh_metadata'}


def run(ctx):
    shared.borrow(ctx, 'C11', '3x2 ', '9x2 later-writes-of-the-root-wait-for-its-pending-removal')   # F49 also breaks the slot accounting / the content of the re-inserted tree
    shared.walk_frees_children_of_the_root_found(ctx, '9w')   # F69
    shared.chain_link_markers_agree(ctx, '8m')
    F = ctx.F
    # 1. header follows its fields
    writers = set()
    for b in F.bodies.values():
        for bi, t in b.all_calls():
            if call_matches(t, lib.ATOMIC_STORE + lib.ATOMIC_RMW) and ({'.ValueTable.filled', '.ValueTable.last_removed'} & lib.receiver_fields(b, t, 0)):
                writers.add(lib.entry_point_of(F, b.path, SLOT_WRITERS))     # (a private helper of a writer counts as the writer)
    allowed = SLOT_WRITERS
    ctx.ob('1a slot-counter-writers', 'K4-confinement', ','.join(sorted(writers)), 'filled / last_removed are stored only by next_free, claim_entries, clear_slot (and refresh_metadata, which reloads them from disk)',
           writers <= allowed and len(writers) >= 3, str(sorted(writers)))
    for fn in sorted(writers - {'table::ValueTable::refresh_metadata'}):
        i = 0
        for b in lib.family(F, fn):
            stores = [bi for bi, t in b.calls() if call_matches(t, lib.ATOMIC_STORE) and ({'.ValueTable.filled', '.ValueTable.last_removed'} & lib.receiver_fields(b, t, 0))]
            src_body = b
            if stores and '{closure' not in b.path and b.path != fn and F.body(fn) is not None and F.body(fn).call_sites(b.path):
                # the stores are made by a private helper of the function: the header is marked after the call of the helper
                src_body = F.body(fn)
                stores = src_body.call_sites(b.path)
            if stores and '{closure' in b.path:
                # the stores are made by a closure (iterator chain): the header is marked after the call the closure is handed to
                uses = lib.closure_use_sites(F, b)
                src_body = uses[0][0] if uses else b
                stores = [u[1] for u in uses] if uses else stores
            dh = [bi for bi, t in src_body.calls() if call_matches(t, lib.ATOMIC_STORE) and '.ValueTable.dirty_header' in lib.receiver_fields(src_body, t, 0) and len(t['a']) > 1 and t['a'][1].get('i') == 1]
            for s in stores:
                lib.must_pass(ctx, '1b header-marked-dirty %s #%d' % (fn, i), src_body, dh, 'after filled / last_removed changed, every success path sets dirty_header', sources=[s])
                i += 1
    pc = ctx.body('db::DbInner::process_commits')
    if pc:
        dr = pc.call_sites("log::LogWriter::<'a>::drain")
        lib.flush_loop_precedes(ctx, '1c header-logged-for-every-column', pc, '.DbInner.columns', ['column::Column::complete_plan'], dr,
                                'before the record is closed, complete_plan runs for every column (complete loop, error -> return)')
        cp = pc.call_sites('column::Column::complete_plan')
        wp = pc.call_sites('db::IndexedChangeSet::write_plan', 'btree::commit_overlay::BTreeChangeSet::write_plan')
        lib.never_after(ctx, '1d no-plan-after-header', pc, cp, wp, 'no write_plan runs after the headers were collected (a later slot change would miss the record)')
    vc = ctx.body('table::ValueTable::complete_plan')
    if vc:
        cx = [bi for bi, t in vc.calls() if call_matches(t, lib.ATOMIC_RMW) and '.ValueTable.dirty_header' in lib.receiver_fields(vc, t, 0)]
        iv = vc.call_sites("log::LogWriter::<'a>::insert_value")
        ctx.ob('1e complete_plan-anchors', 'anchor', vc.path, 'complete_plan: one compare_exchange on dirty_header, one insert_value', len(cx) == 1 and len(iv) == 1, '%s %s' % (cx, iv))
        for s in iv:
            lib.result_guards(ctx, '1f header-logged-iff-dirty', vc, cx, s, 'slot 0 is logged depending on winning the dirty_header compare-exchange')
            # ... and on nothing else: every branch between the test-and-clear and the header write is decided by the outcome of
            # that one atomic operation (a branch whose other side is an error exit is propagation, not a condition)
            after = set()
            for c in cx:
                after |= vc.reaches(c)
            errs = core.error_exit_blocks(vc)
            extra = []
            ndeps = 0
            for (sw, yes, no) in vc.control_deps(s):
                if sw not in after or vc.term(sw)['k'] != 'switch' or op_place(vc.term(sw)['a']) is None:
                    continue
                if all(vc.find_path([x], vc.return_blocks(), removed=errs) is None for x in no):
                    continue
                ndeps += 1
                sl = backward_slice(vc, [op_place(vc.term(sw)['a'])])
                oc = [c for c in sl.calls if not re.search(lib.ATOMIC_RMW[0][3:] if isinstance(lib.ATOMIC_RMW, list) else lib.ATOMIC_RMW, c)]
                of = [f for f in sl.fields if f not in ('.ValueTable.dirty_header',) and not f.startswith(('.Result.', '.Option.'))]
                if oc or of or (sl.binops - {'Not', 'Eq', 'Ne'}):
                    extra.append('%s: %s' % (vc.loc(sw), ', '.join(sorted(oc)[:2] + sorted(of)[:3])))
            ctx.ob('1f2 header-logged-whenever-dirty', 'K3-guard', vc.path,
                   'once the dirty flag was found set (and cleared), the header is logged - no further condition (cached copies of the header can be stale after replay)',
                   ndeps >= 1 and not extra, 'no branch on the outcome of the atomic test-and-clear' if ndeps == 0 else 'additional condition(s): ' + '; '.join(extra))
            a = vc.term(s)['a']
            ctx.ob('1g header-goes-to-slot-0', 'K8-const', vc.path, 'the header is written to index 0', len(a) > 2 and a[2].get('i') == 0, '')
    for fn in ('column::HashColumn::complete_plan', 'btree::BTreeTable::complete_plan'):
        b = ctx.body(fn)
        if b:
            loops = lib.for_loops_over(b)
            calls = b.call_sites('table::ValueTable::complete_plan')
            ok = bool(calls) and any(lib.loop_body_must_call(b, lp, calls) is None for lp in loops)
            ctx.ob('1h every-table-completes %s' % fn, 'K2-loop-order', fn, 'complete_plan visits every value table of the column', ok, '')
    # 3. index entry leaves / moves with its value
    we = ctx.body('column::HashColumn::write_plan_existing')
    if we:
        call = we.call_sites('column::Column::write_existing_value_plan')
        rm = we.call_sites('index::IndexTable::write_remove_plan')
        # (an arm of the planner may live in a helper every success path of which makes the insert: `write_plan_moved`)
        ins = lib.must_sites(we, ['index::IndexTable::write_insert_plan'])
        ctx.ob('3a anchors', 'anchor', we.path, 'write_plan_existing: one value plan call, an index remove, one index insert', len(call) == 1 and len(rm) >= 1 and len(ins) == 1, '%s %s %s' % (call, rm, ins))
        # a removal that is followed by the insert (the entry of an OLDER index is dropped before the new address goes into the
        # current one) does not settle the matter by itself: only the insert, or a removal with nothing after it, does
        rm = [r for r in rm if not any(i in we.reaches(r) for i in ins)]
        none0 = None
        for bi in we.normal_blocks():
            t = we.term(bi)
            d = lib.switch_def(we, bi)
            if t['k'] == 'switch' and d and d[2] == 'assign' and d[3]['r']['k'] == 'discr' and '.#0' in d[3]['r']['p'][1:]:
                for v, tg in zip(t['vals'], t['ts']):
                    if v == 0:
                        none0 = tg
        ok = none0 is not None and we.find_path([none0], we.return_blocks(), removed=set(rm) | set(ins) | core.error_exit_blocks(we)) is None
        ctx.ob('3b index-follows-value', 'K1-must-pass', we.path,
               'when the value plan reports no final outcome (value removed, or moved to another tier), every success path removes the index entry or inserts the new address', ok, '')
        real_ins = [(we, s) for s in ins if call_matches(we.term(s), ['index::IndexTable::write_insert_plan'])]
        for s in ins:
            if not call_matches(we.term(s), ['index::IndexTable::write_insert_plan']):
                for n_ in sorted(set(call_names(we.term(s)))):
                    hb_ = F.bodies.get(n_)
                    if hb_ is not None:
                        real_ins += [(hb_, x) for x in hb_.call_sites('index::IndexTable::write_insert_plan')]
        for ib, s in real_ins:
            fl = lib.receiver_fields(ib, ib.term(s), 0)
            ctx.ob('3c moved-value-indexed-in-current-index', 'K4-provenance', ib.path, 'a moved value is (re)inserted into the CURRENT index (tables.index), also when it was found through an old one', '.Tables.index' in fl, str(sorted(fl)))
    # the index slot that is cleared is the one whose value was verified against the key (several keys can share the 54 bits
    # the index stores): the position flows search_all_indexes -> write_plan_existing -> write_remove_plan -> plan_remove_chunk
    # -> write_entry(empty, i) and is never re-derived from the partial key alone
    prc = ctx.body('index::IndexTable::plan_remove_chunk')
    if prc:
        we2 = [bi for bi, t in prc.calls() if bi in prc.normal_blocks() and call_matches(t, ['index::IndexTable::write_entry'])]
        ctx.ob('3d0 clear-site', 'anchor', prc.path, 'plan_remove_chunk writes the (empty) entry at one position', len(we2) >= 1, str(we2))
        for s2 in we2:
            a = prc.term(s2)['a']
            sl = backward_slice(prc, [op_place(a[1])]) if len(a) > 1 and op_place(a[1]) else None
            research = sorted(c for c in (sl.calls if sl else []) if re.search(r'find_entry', c))
            ctx.ob('3d cleared-slot-is-the-verified-position', 'K4-provenance', prc.path,
                   'the slot cleared by an index removal is the position handed in by the caller (found by a search that compared the stored key tail), not the first partial-key match of a fresh scan',
                   sl is not None and not research and bool(sl.params - {1, 2}), 'position derives from %s' % (research or 'no parameter'), prc.loc(s2))
    wrp = ctx.body('index::IndexTable::write_remove_plan')
    if wrp and prc:
        for s2 in wrp.call_sites('index::IndexTable::plan_remove_chunk'):
            a = wrp.term(s2)['a']
            # which argument carries the position: the usize one
            ok = any(op_place(x) is not None and str(wrp.locals[op_place(x)[0]]) == 'usize' and (backward_slice(wrp, [op_place(x)], through_calls=False).params) for x in a[1:])
            ctx.ob('3e position-forwarded write_remove_plan', 'K4-provenance', wrp.path, 'write_remove_plan forwards the position it was given', ok, '', wrp.loc(s2))
    if we:
        for s2 in we.call_sites('index::IndexTable::write_remove_plan'):
            a = we.term(s2)['a']
            ok = any(op_place(x) is not None and str(we.locals[op_place(x)[0]]) == 'usize' and (backward_slice(we, [op_place(x)], through_calls=False).params) for x in a[1:])
            ctx.ob('3e position-forwarded write_plan_existing', 'K4-provenance', we.path, 'write_plan_existing forwards the position found by the search', ok, '', we.loc(s2))
    hwp = ctx.body('column::HashColumn::write_plan')
    if hwp:
        for s2 in hwp.call_sites('column::HashColumn::write_plan_existing'):
            a = hwp.term(s2)['a']
            # the position itself, or a value (tuple / small struct) that carries it
            ok = any(op_place(x) is not None and any(re.search(r'search_all_indexes$', c) for c in backward_slice(hwp, [op_place(x)]).calls) for x in a[1:])
            ctx.ob('3f position-comes-from-verified-search', 'K4-provenance', hwp.path, 'the position given to write_plan_existing is the one search_all_indexes returned (search_index compares the key tail stored with the value)', ok, '', hwp.loc(s2))
    shared.allocation_state_belongs_to_a_record(ctx, '6')
    shared.index_insert_retried(ctx, '3r')      # a moved or new value always gets its index entry
    # 4. free-list links are bounded when followed
    for fn, cmpf in (('table::ValueTable::read_next_free', '.ValueTable.filled'), ('table::ValueTable::init_table_data', '.ValueTable.filled'),
                     ('table::ValueTable::check_free_refs', '.ValueTable.written'), ('table::ValueTable::open', None)):
        b = ctx.body(fn)
        if not b:
            continue
        ok = False
        corr = []
        for fb in lib.family(F, fn):          # the function or a helper extracted from it
            cs = [bi for bi in fb.normal_blocks() for s in fb.blocks[bi]['s'] if s['k'] == 'assign' and s['r']['k'] == 'agg' and s['r']['ak'] == 'Adt:error::Error::Corruption']
            corr += cs
            for c in cs:
                calls, fields, binops = lib.guard_influences(fb, c)
                if 'Ge' in binops and (cmpf is None or cmpf in fields or any(re.search(r'Atomic.*::load$', x) for x in calls) or (fb is not b and fb.argc >= 1)):
                    ok = True
        ctx.ob('4a link-range-checked %s' % fn, 'K3-guard', fn, 'a free-list link is compared (>=) with the fill mark and rejected as Corruption before it is followed', ok, 'corruption exits %s' % corr)
    # in-memory mirrors (free-entry stacks, ref-count cache) are derived from the files only after replay
    C02.replay_before_service(ctx, '5')
    # 8. planning reads the links it follows (next free, next part) through the writer's own overlay before the file: a record planned
    # before the previous one is applied must see what that one did to the chain
    shared.file_reads_shadowed(ctx, '8')
    shared.tree_lock_decision(ctx, '9')
