"""C17 - column administration and option checks never touch other columns' data (structural part)."""
import re
import core, lib
from props import shared
from core import call_matches, call_names, op_place, op_local, backward_slice

LEVEL = 'proof'
FLOOR = 39      # 70% of the 56 obligation instances derived on the tree the rules were last reviewed against
EXPLANATION = ('In DbInner::open the stored metadata is loaded and compared before the log directory scan (which may unlink empty logs) and before any '
               'column file is opened/extended; metadata is written only with create=true and only when absent; the metadata writer and reader agree on '
               'every key (one per ColumnOptions field, same field on both sides) and equality compares every field; the three per-column file-name '
               'predicates are prefixes of the corresponding file-name formats and are applied with the function\'s own column argument; every public '
               'administration entry opens (locks, replays, cleans) the database before deleting or rewriting anything.')
EXPLANATION += ' Added: administration calls keep the format version and the stored salt, validate new options first, bound the column count by ColId; the metadata writer never compares the version it is given; column numbers in file names are delimited.'
ASSUMPTIONS = ['that other columns\' bytes are equal before/after follows from "untouched" (structural half); content is not compared', 'unwind edges ignored']
TRUSTED = ['rustc MIR construction (nightly)', 'pdb-facts driver', 'rule engine /verif/rules', 'format-template decoder in rules/lib.py', 'anchor tables in props/C17.py']


def run(ctx):
    shared.session_ended_with_close_before_files_change(ctx, '9s')    # F79
    shared.shutdown_drains_every_flushed_log(ctx, '9d')    # F80: a closed session leaves no flushed log behind
    F = ctx.F
    # ------------------------------------------------ 1. validate before touching
    o = ctx.body('db::DbInner::open')
    if o:
        ld = o.call_sites('re:^options::Options::load_and_validate_metadata(_in_version)?$')
        lo = o.call_sites('log::Log::open')
        co = o.call_sites('column::Column::open')
        ctx.ob('1a open-anchors', 'anchor', o.path, 'DbInner::open: one metadata validation, one Log::open, one Column::open site', len(ld) == 1 and len(lo) == 1 and len(co) == 1, '%s %s %s' % (ld, lo, co))
        lib.precedes(ctx, '1b metadata-validated-before-log-scan', o, ld, lo, 'metadata is validated before Log::open (which deletes empty log files)')
        lib.precedes(ctx, '1c metadata-validated-before-column-open', o, ld, co, 'metadata is validated before any column file is opened (opening extends index files)')
        for s in lo + co:
            lib.result_guards(ctx, '1d continue-only-if-metadata-ok bb:%s' % (o.term(s).get('r')), o, ld, s, 'the rest of open runs only on the Ok outcome of the metadata validation')
        # Column::open is given the STORED metadata
        for s in co:
            sl = set()
            for a in o.term(s)['a']:
                if op_place(a):
                    sl |= set(bi for bi, _ in backward_slice(o, [op_place(a)]).call_sites)
            ctx.ob('1e columns-opened-with-stored-metadata', 'K4-provenance', o.path, 'Column::open receives the metadata returned by load_and_validate_metadata', bool(ld) and ld[0] in sl, '')
    # the validating loader (the plain entry may be a one-line wrapper of the variant that is also told which version to create)
    lv = ctx.body('options::Options::load_and_validate_metadata')
    lv2 = F.body('options::Options::load_and_validate_metadata_in_version')
    if lv and lv2 is not None and not lv.call_sites('options::Options::load_metadata'):
        lv = lv2
    if lv:
        wm = lib.sites_reaching(lv, ['options::Options::write_metadata_file_with_version', 'std::fs::write'])
        lm = lv.call_sites('options::Options::load_metadata')
        ctx.ob('1f validate-anchors', 'anchor', lv.path, 'one load and one write site', len(wm) == 1 and len(lm) == 1, '%s %s' % (wm, lm))
        for s in wm:
            lib.cond_guarded(ctx, '1g write-only-with-create', lv, s, 'metadata is written only when the create flag is set', params=[2], want_edge='nonzero')
            lib.result_guards(ctx, '1h write-only-if-absent', lv, lm, s, 'metadata is written only depending on the outcome of load_metadata (absent)')
        # every field mismatch is an error: the comparison loop returns Err on `!=`
        ne = [(fb.path, bi) for fb in lib.family(F, lv.path) for bi, t in fb.calls() if call_matches(t, ['std::cmp::PartialEq::ne', 'std::cmp::PartialEq::eq', 're:ColumnOptions as std::cmp::PartialEq>::(eq|ne)$'])]
        ctx.ob('1i options-compared', 'K1-must-pass', lv.path, 'stored and requested column options are compared with ColumnOptions equality', len(ne) >= 1, '')
        # ... and what is compared are the stored options of the column and the requested options of the column THEMSELVES: neither
        # operand of the equality is a value put together from both sides (`ColumnOptions { flag: self.flag, ..stored.clone() }`
        # makes a field always agree)
        EQ = ['re:ColumnOptions as std::cmp::PartialEq>::(eq|ne)$']
        fam_paths = set(y.path for y in lib.family(F, lv.path))
        neq = 0
        for fb in [x for x in F.bodies.values() if x.path.startswith('options::')]:
            for bi, t in fb.calls():
                if not (bi in fb.normal_blocks() and call_matches(t, EQ) and len(t['a']) == 2):
                    continue
                if not (fb.path in fam_paths or (F.transitive_callers([fb.path]) & fam_paths)):
                    continue
                neq += 1
                built = []
                for a_ in t['a']:
                    if op_place(a_) is None:
                        continue
                    sl = backward_slice(fb, [op_place(a_)])
                    for l in sl.locals:
                        for d in fb.defs().get(l, []):
                            if d[2] == 'assign' and d[3]['r']['k'] == 'agg' and d[3]['r'].get('ak') == 'Adt:options::ColumnOptions':
                                built.append(fb.loc(d[0]))
                            if d[2] == 'call' and str(d[3].get('rty', '')) == 'options::ColumnOptions' and not call_matches(d[3], ['re:Clone>?::clone$']):
                                built.append('%s at %s' % (core.call_names(d[3])[0], fb.loc(d[0])))
                ctx.ob('1i2 options-compared-as-they-are %s' % fb.path, 'K4-provenance', fb.path,
                       'the operands of the column-options equality are the stored and the requested options as they are: neither is a ColumnOptions value put together for the comparison',
                       not built, 'an operand is built at %s' % built, fb.loc(bi))
        ctx.ob('1i3 options-equality-site', 'anchor', lv.path, 'the metadata validation compares column options with ColumnOptions equality somewhere', neq >= 1, 'sites %d' % neq)
        lens = [bi for fb in lib.family(F, lv.path) for bi in fb.normal_blocks() for s in fb.blocks[bi]['s'] if s['k'] == 'assign' and s['r']['k'] == 'bin' and s['r']['op'] in ('Ne', 'Eq')]
        ctx.ob('1j column-count-compared', 'K1-must-pass', lv.path, 'the number of columns is compared', len(lens) >= 1, '')
    # ------------------------------------------------ 2. who writes metadata / creates directories
    wr = sorted(F.direct_callers_of('options::Options::write_metadata_file_with_version'))
    ctx.ob('2a metadata-writers', 'K4-confinement', ','.join(wr), 'the metadata file is written only through write_metadata_with_version / write_metadata_file',
           set(wr) <= {'options::Options::write_metadata_with_version', 'options::Options::write_metadata_file'}, str(wr))
    top = sorted(F.direct_callers_of('options::Options::write_metadata', 'options::Options::write_metadata_with_version') - {'options::Options::write_metadata'})
    allowed = {'options::Options::load_and_validate_metadata', 'options::Options::load_and_validate_metadata_in_version', 'db::Db::add_column', 'db::Db::drop_last_column', 'db::Db::reset_column', 'migration::migrate'}
    ctx.ob('2b metadata-write-entry-points', 'K4-confinement', ','.join(top), 'metadata is (re)written only by create-open, the three column administration calls and migration', all(lib.confined_through(F, x, allowed) or x in allowed for x in top) and any(x.startswith('options::Options::load_and_validate_metadata') for x in top), str(top))
    cd = sorted(F.direct_callers_of('std::fs::create_dir_all', 'std::fs::create_dir'))
    ctx.ob('2c directory-creators', 'K4-confinement', ','.join(cd), 'directories are created only by DbInner::open (create mode) and migration', all(x in ('db::DbInner::open', 'migration::migrate') or lib.confined_through(F, x, {'db::DbInner::open', 'migration::migrate'}) for x in cd), str(cd))
    if o:
        for s in o.call_sites('std::fs::create_dir_all'):
            lib.eq_guarded(ctx, '2d create_dir-only-in-create-mode', o, s, 'the directory is created only when opening_mode == Create', params=[2])
    # ------------------------------------------------ 3. writer/reader tables
    adt = F.adts.get('options::ColumnOptions')
    fields = [f['name'] for f in adt['variants'][0]['fields']] if adt else []
    ws, rs = ctx.body('options::ColumnOptions::as_string'), ctx.body('options::ColumnOptions::from_string')
    if ws and rs and fields:
        tpls = [tk for bi, tk, raw in lib.fmt_templates(ws) if tk]
        ok = len(tpls) == 1
        wmap = {}
        det = ''
        if ok:
            tk = tpls[0]
            keys = []
            for i, (k, v) in enumerate(tk):
                if k == 'arg':
                    lit = tk[i - 1][1] if i > 0 and tk[i - 1][0] == 'lit' else ''
                    m = re.search(r'([A-Za-z_]+): $', lit)
                    keys.append(m.group(1) if m else None)
            # args in order: the new_display/new_debug calls in block order; each derives from one field
            argf = []
            for bi, t in sorted(ws.calls()):
                if call_matches(t, ['re:fmt::rt::Argument.*::new_(display|debug|lower_hex)$']):
                    fl = [f for f in backward_slice(ws, [op_place(t['a'][0])]).fields if f.startswith('.ColumnOptions.')]
                    argf.append(fl[0].split('.')[-1] if len(fl) == 1 else None)
            if len(keys) == len(argf) and None not in keys and None not in argf:
                wmap = dict(zip(keys, argf))
            else:
                ok = False; det = 'keys %s args %s' % (keys, argf)
        ctx.ob('3a writer-table', 'K8-table', ws.path, 'as_string writes one "key: value" pair per field, each value derived from exactly one field', ok and sorted(wmap.values()) == sorted(fields), det or 'writer map %s fields %s' % (wmap, fields))
        # reader: aggregate operand i <- HashMap::get(const key)
        aggs = [s for bi in rs.normal_blocks() for s in rs.blocks[bi]['s'] if s['k'] == 'assign' and s['r']['k'] == 'agg' and s['r']['ak'] == 'Adt:options::ColumnOptions']
        rmap = {}
        if len(aggs) == 1:
            for i, a in enumerate(aggs[0]['r']['a']):
                if op_place(a) is None:
                    continue
                sl = backward_slice(rs, [op_place(a)])
                ks = [c['s'] for c in sl.consts if c.get('ty') == '&str' and 's' in c and re.fullmatch(r'[a-z_]+', c['s'])]
                if len(set(ks)) == 1:
                    rmap[ks[0]] = fields[i]
        ctx.ob('3b reader-table', 'K8-table', rs.path, 'from_string fills every field of ColumnOptions from exactly one key', sorted(rmap.values()) == sorted(fields), 'reader map %s' % rmap)
        ctx.ob('3c writer-reader-agree', 'K8-table', ws.path, 'writer and reader use the same key for the same field (a renamed or swapped key silently resets an option to its default)', bool(wmap) and wmap == rmap,
               'writer %s / reader %s' % (sorted(wmap.items()), sorted(rmap.items())))
    eq = F.body('<options::ColumnOptions as std::cmp::PartialEq>::eq')
    if eq is None:
        ctx.ob('3d equality-anchor', 'anchor', '-', 'ColumnOptions implements PartialEq', False, 'no eq body')
    else:
        fl = set()
        for blk in eq.blocks:
            for s in blk['s']:
                if s['k'] == 'assign':
                    for pl in ([s['r'].get('p')] if s['r'].get('p') else []) + [op_place(a) for a in s['r'].get('a', []) if op_place(a)]:
                        fl |= set(e.split('.')[-1] for e in pl[1:] if isinstance(e, str) and e.startswith('.ColumnOptions.'))
        ctx.ob('3d equality-compares-every-field', 'K8-table', eq.path, 'ColumnOptions equality looks at every field (a mismatch in an ignored field would be accepted at open)', fl == set(fields), 'compared %s of %s' % (sorted(fl), fields))
    # compression byte round trip
    fc = F.body('<compress::CompressionType as std::convert::From<u8>>::from')
    cadt = F.adts.get('compress::CompressionType')
    if fc and cadt:
        made = set(s['r']['ak'].split('::')[-1] for blk in fc.blocks for s in blk['s'] if s['k'] == 'assign' and s['r']['k'] == 'agg' and s['r']['ak'].startswith('Adt:compress::CompressionType::'))
        ctx.ob('3e compression-decoder-covers-enum', 'K8-table', fc.path, 'From<u8> for CompressionType can produce every variant the writer can emit (`as u8`)', made == set(v['name'] for v in cadt['variants']), str(sorted(made)))
    # metadata file keys
    wf, rf = ctx.body('options::Options::write_metadata_file_with_version'), ctx.body('options::Options::load_metadata_file')
    if wf and rf:
        wk = set()
        for fb in lib.family(F, wf.path):          # the function, its closures and private helpers
            for bi, tk, raw in lib.fmt_templates(fb):
                if tk and tk[0][0] == 'lit':
                    wk.add(re.sub(r'[=]$', '', tk[0][1]))
        rk = set(s for bi, s in lib.str_consts(rf) if re.fullmatch(r'[a-z]+', s))
        ctx.ob('3f metadata-file-keys-agree', 'K8-table', wf.path, 'the metadata file writer emits version= / salt= / col<i>= and the reader recognises exactly those keys', wk == {'version', 'salt', 'col'} and {'version', 'salt', 'col'} <= rk, 'writer %s reader %s' % (sorted(wk), sorted(rk)))
    # the reader keeps the order of the col<i>= lines (the writer emits them in index order and the reader ignores <i>)
    if rf:
        aggs = [st for bi in rf.normal_blocks() for st in rf.blocks[bi]['s'] if st['k'] == 'assign' and st['r']['k'] == 'agg' and st['r']['ak'] == 'Adt:options::Metadata']
        madt = F.adts.get('options::Metadata')
        ok = False
        det = 'no Metadata aggregate'
        if aggs and madt:
            ci = [f['name'] for f in madt['variants'][0]['fields']].index('columns')
            a = aggs[0]['r']['a'][ci]
            locs = backward_slice(rf, [op_place(a)], through_calls=False).locals if op_place(a) else set()
            pushes = [bi for bi, t in rf.calls() if call_matches(t, ['re:Vec.*::push$']) and t['a'] and op_place(t['a'][0]) is not None and (backward_slice(rf, [op_place(t['a'][0])], through_calls=False).locals & locs)]
            sl = backward_slice(rf, [op_place(a)]) if op_place(a) else None
            # order-preserving producers: push in the line loop, or collect() straight from the line iterator; anything that can
            # reorder or re-key (maps, sets, sort, reverse, swap, dedup, rev) is reported
            other = [c for c in (sl.calls if sl else []) if re.search(r'(BTreeMap|HashMap|BTreeSet|HashSet|BinaryHeap|::sort|::reverse|::rev$|::swap|::rotate_|into_values|::dedup|::retain|::insert$|::remove$|::swap_remove$)', c)]
            coll = [c for c in (sl.calls if sl else []) if re.search(r'Iterator::collect$', c)]
            ok = ((len(pushes) >= 1 and all(x in rf.reaches(x) for x in pushes)) or bool(coll)) and not other
            det = 'pushes %s, collect %s, reordering producers %s' % (pushes, coll[:1], other[:3])
        ctx.ob('3g columns-kept-in-file-order', 'K4-provenance', rf.path,
               'Metadata.columns is the vector the col<i>= lines were pushed onto in file order (no map, sort or re-collection in between): column i of the file is column i of the database', ok, det)
    # administration calls rely on "open, then drop" leaving no log content behind before files are deleted by prefix: the clean
    # shutdown path (no background error) always runs the full clean (flush every column, truncate EVERY dirty log) and then
    # deletes the log files - not the worker's incremental clean, which may keep the newest enacted logs
    kl = ctx.body('db::DbInner::kill_logs')
    if kl:
        none = lib.prune_option_field(kl, '.DbInner.bg_err', keep_some=False)
        ca = lib.sites_reaching(kl, ['db::DbInner::clean_all_logs'])
        lk = lib.sites_reaching(kl, ['log::Log::kill_logs'])
        lib.must_pass(ctx, '3s shutdown-truncates-every-log', kl, ca, 'without a background error every success path of kill_logs runs clean_all_logs', removed_edges=none)
        lib.precedes(ctx, '3s2 full-clean-before-log-files-are-deleted', kl, ca, lk, 'clean_all_logs precedes Log::kill_logs', removed_edges=none)
    cab = ctx.body('db::DbInner::clean_all_logs')
    if cab:
        nd = cab.call_sites('log::Log::num_dirty_logs')
        cl = cab.call_sites('log::Log::clean_logs')
        ok = False
        for s2 in cl:
            a = cab.term(s2)['a']
            if len(a) > 1 and op_place(a[1]) is not None:
                sl = backward_slice(cab, [op_place(a[1])])
                ok = any(bi in nd for bi, _ in sl.call_sites) and not (sl.binops - {'Not'})
        ctx.ob('3s3 full-clean-truncates-all-dirty-logs', 'K4-provenance', cab.path, 'clean_all_logs asks Log::clean_logs for exactly num_dirty_logs() truncations (no log is kept)', ok and bool(cl), '')
    # an administration call rewrites the metadata: it must carry over the format version the database HAS (key hashing of uniform
    # columns and the part layout differ between versions 4..8; a bumped version makes the untouched columns unreadable)
    pre = F.body('db::Db::precheck_column_operation')
    if pre is not None:
        fl = set()
        for bi in pre.normal_blocks():
            for st in pre.blocks[bi]['s']:
                if st['k'] == 'assign':
                    for pl in ([st['r'].get('p')] if st['r'].get('p') else []) + [op_place(a) for a in st['r'].get('a', []) if op_place(a)]:
                        fl |= set(e for e in pl[1:] if isinstance(e, str) and e.startswith('.'))
        ctx.ob('2v0 precheck-reads-stored-version', 'K4-provenance', pre.path, 'the precheck (open + drop) hands back the format version of the opened database', '.DbInner.db_version' in fl or '.Metadata.version' in fl, str(sorted(f for f in fl if 'version' in f)))
    for fn in ('db::Db::add_column', 'db::Db::drop_last_column', 'db::Db::reset_column'):
        b = ctx.body(fn)
        if not b:
            continue
        ws = [bi for bi, t in b.calls() if bi in b.normal_blocks() and call_matches(t, ['re:Options::write_metadata(_file)?(_with_version)?$'])]
        ctx.ob('2v1 admin-metadata-write %s' % fn, 'anchor', fn, 'the administration call rewrites the metadata', len(ws) >= 1, str(ws))
        for s2 in ws:
            t = b.term(s2)
            nm = t.get('r') or t.get('f') or ''
            ok = False
            det = 'written through %s, which stamps CURRENT_VERSION' % nm.split('::')[-1]
            if nm.endswith('_with_version') and len(t['a']) > 3:
                v = t['a'][3]
                if op_place(v) is not None:
                    sl = backward_slice(b, [op_place(v)])
                    ok = any(c.endswith('precheck_column_operation') for c in sl.calls) and not any(str(c.get('un', '')).endswith('CURRENT_VERSION') for c in sl.consts if isinstance(c, dict))
                    det = 'the version argument does not come from the opened database' if not ok else ''
                else:
                    det = 'the version argument is a constant'
            ctx.ob('2v admin-keeps-format-version %s' % fn, 'K4-provenance', fn, 'the metadata is written back with the format version obtained from the precheck open, not with CURRENT_VERSION', ok, det, b.loc(s2))
    # an administration call that is given column options checks them before it touches anything: Db::open asserts
    # Options::is_valid, so accepted-but-invalid options leave a database that panics on every later open (and every
    # administration call starts with an open)
    for fn in ('db::Db::add_column', 'db::Db::reset_column'):
        b = ctx.body(fn)
        if not b:
            continue
        newopt = {'db::Db::add_column': 2, 'db::Db::reset_column': 3}[fn]      # the parameter holding the new column options
        iv = [x for x in lib.sites_reaching(b, ['options::ColumnOptions::is_valid'])
              if any(op_place(a) is not None and newopt in backward_slice(b, [op_place(a)]).params for a in b.term(x)['a'])]
        eff = lib.sites_reaching(b, ['re:Options::write_metadata(_file)?(_with_version)?$', 'db::Db::remove_column_files', 'column::Column::drop_files'])
        lib.precedes(ctx, '2w new-options-validated-first %s' % fn, b, iv, eff, 'the new column options are checked with ColumnOptions::is_valid before files are deleted or the metadata is rewritten')
        for i, s2 in enumerate(eff):
            if iv:
                lib.result_guards(ctx, '2w2 effects-only-if-valid %s #%d' % (fn, i), b, iv, s2, 'deleting files / rewriting the metadata depends on the outcome of the validity check')
    # column ids are u8: a 257th column would alias column 0 (`c as ColId`), and dropping it would delete column 0's files
    ac = ctx.body('db::Db::add_column')
    if ac:
        ws = lib.sites_reaching(ac, ['re:Options::write_metadata(_file)?(_with_version)?$'])
        ok = False
        for s2 in ws:
            for pr in lib.guard_predicates(ac, s2):
                if pr['const'] in (255, 256) and ('.Options.columns' in pr['fields'] or any(c.endswith('::len') for c in pr['calls'])):
                    ok = True
        ctx.ob('2x column-count-bounded-by-ColId', 'K7-narrowing-cast', ac.path, 'add_column refuses to go beyond the 256 columns a u8 column id can name', ok, 'no comparison of the column count with 255/256 guards the metadata write')
    ov = F.body('options::Options::is_valid')
    if ov is not None:
        cs = [st['r']['a'] for blk in ov.blocks for st in blk['s'] if st['k'] == 'assign' and st['r']['k'] == 'bin' and st['r']['op'] in ('Gt', 'Ge', 'Lt', 'Le')]
        def has_bound(x):
            if lib.const_of(ov, x) in (255, 256):
                return True
            return op_place(x) is not None and any(isinstance(c, dict) and c.get('i') in (255, 256) for c in backward_slice(ov, [op_place(x)]).consts)
        ok = any(any(has_bound(x) for x in ops) for ops in cs)
        ctx.ob('2x2 options-with-too-many-columns-invalid', 'K7-narrowing-cast', ov.path, 'Options::is_valid (asserted by every open) rejects more than 256 columns', ok, 'no comparison with 255/256 in Options::is_valid')
    shared.metadata_replaced_atomically(ctx, '2m')    # add_column / drop_last_column / reset_column rewrite the metadata of a populated database
    # ------------------------------------------------ 4. administration touches only its column
    df = ctx.body('column::Column::drop_files')
    if df:
        # membership predicates = crate-local bool functions called by drop_files (discovered, not named)
        ps = [bi for bi, t in df.calls() if bi in df.normal_blocks() and t.get('rty') == 'bool' and any(n in F.bodies for n in call_names(t))]
        ctx.ob('4a membership-tests-found', 'anchor', df.path, 'drop_files decides membership through crate-local boolean predicate(s)', len(ps) >= 1, '%d predicate call(s)' % len(ps))
        for s2 in ps:
            a0 = df.term(s2)['a'][0] if df.term(s2)['a'] else None
            sl = backward_slice(df, [op_place(a0)]) if a0 is not None and op_place(a0) else None
            isconst = a0 is not None and 'i' in a0
            ctx.ob('4b predicate-gets-own-column %s' % df.term(s2).get('r'), 'K4-provenance', df.path, 'the predicate is applied with the unmodified column argument of drop_files',
                   sl is not None and 1 in sl.params and not sl.binops and not isconst, 'binops %s' % (sorted(sl.binops) if sl else None))
        pushes = [bi for bi, t in df.calls() if call_matches(t, ['re:Vec.*::push$'])]
        cut = set()
        for bi in df.normal_blocks():
            t = df.term(bi)
            if t['k'] == 'switch' and t['vals'] == [0] and len(t['ts']) == 2 and op_place(t['a']):
                sl = backward_slice(df, [op_place(t['a'])])
                if any(b2 in ps for b2, _ in sl.call_sites) and not sl.binops:
                    cut.add((bi, t['ts'][1]))
        w = df.find_path([0], set(pushes), removed_edges=cut) if pushes else ['?']
        ctx.ob('4c only-matching-names-collected', 'K3-guard', df.path, 'a file name is put on the deletion list only on a true outcome of a membership predicate', len(cut) == len(ps) and len(cut) >= 1 and w is None,
               'predicate branches %d; path %s' % (len(cut), lib.short_path(df, w) if w else ''))
        rm = df.call_sites('std::fs::remove_file')
        ctx.ob('4d removal-anchors', 'anchor', df.path, 'one remove_file site, fed by the collected list', len(rm) == 1 and len(pushes) == 1, '')
    # file-name formats (writers) and membership predicates (whatever drop_files / deplace_column call)
    # (a name may be put together through a helper that formats the part all files of a column share: templates are expanded)
    writers = {}
    for mod in ('index::TableId', 'table::TableId', 'ref_count::RefCountTableId'):
        wb = F.body(mod + '::file_name')
        if wb is None:
            ctx.ob('4e name-format-anchor %s' % mod, 'anchor', mod, 'file_name exists', False, '')
            continue
        for bi, tk in lib.expanded_templates(F, wb):
            if tk and tk[0][0] == 'lit':
                # the kind is the literal up to and including its first "_"
                kind = tk[0][1]
                writers[kind] = (mod, tk, kind)
    ctx.ob('4f kinds-distinct', 'K8-table', '-', 'the three file kinds use distinct, non-prefixing name prefixes', len(writers) == 3 and not any(x != y and x.startswith(y) for x in writers for y in writers), str(sorted(writers)))
    colsig = set(w[1][1] for w in writers.values() if len(w[1]) > 1 and w[1][1][0] == 'arg')
    ctx.ob('4e0 column-placeholder', 'anchor', '-', 'the three file-name formats print the column with one common placeholder format, followed by "_"',
           len(colsig) == 1 and all(len(w[1]) > 2 and w[1][2][0] == 'lit' and w[1][2][1].startswith('_') for w in writers.values()), str(colsig))
    TESTS = ['re:str>?::starts_with', 're:str>?::strip_prefix', 're:str>?::contains', 're:str>?::ends_with']
    for user in ('column::Column::drop_files', shared.column_file_mover(F)):
        ub = F.body(user)
        if ub is None:
            continue
        kinds_seen = set()
        ntpl = 0
        for c in sorted(set(F.transitive_callees([user])) | {user}):
            cb = F.body(c)
            if cb is None:
                continue
            for bi2, sc in lib.str_consts(cb):
                if sc in ('index', 'table', 'refcount'):
                    kinds_seen.add(sc + '_')
            cands = []
            for bi2, t2 in cb.calls():
                if bi2 not in cb.normal_blocks() or not call_matches(t2, TESTS) or len(t2['a']) < 2:
                    continue
                tk = lib.string_tokens(F, cb, t2['a'][1])
                if tk:
                    cands.append(tk)
            # ... and what a predicate formats itself before it hands the string to a closure or a combinator (a helper that
            # RETURNS the string is read where the string is used, see above)
            if str(cb.locals[0]) != 'std::string::String':
                for bi2, tk in lib.expanded_templates(F, cb):
                    if tk and tk not in cands:
                        cands.append(tk)
            for tk in cands:
                if tk[0][0] == 'lit' and tk[0][1] in writers:
                    kinds_seen.add(tk[0][1])
                for i, tok in enumerate(tk):
                    if tok in colsig:
                        ntpl += 1
                        nxt = tk[i + 1] if i + 1 < len(tk) else None
                        ok = nxt is not None and nxt[0] == 'lit' and nxt[1].startswith('_')
                        ctx.ob('4e column-number-delimited %s in %s' % (user.split('::')[-1], c), 'K8-table', c,
                               'wherever the column number is formatted for a file-name test it is closed by the "_" separator (else column 1 matches 10..19 and column 10 matches 100..109)',
                               ok, 'the tested name reads %r' % (tk,))
        ctx.ob('4e1 column-format-used %s' % user, 'anchor', user, 'the membership test formats the column number with the file-name placeholder', ntpl >= 1, '%d templates' % ntpl)
        ctx.ob('4e2 all-kinds-tested %s' % user, 'K9-agreement', user, 'the membership test of %s names the three file kinds of a column' % user.split('::')[-1], kinds_seen >= set(writers), 'kinds: %s' % sorted(kinds_seen))
    # every entry that deletes or rewrites opens the database first
    lib.callers_confined(ctx, '4g drop_files-callers', F, ['column::Column::drop_files'], {'db::Db::remove_column_files', 'migration::clear_column'}, 'column files are deleted only by remove_column_files and clear_column', required=['db::Db::remove_column_files'])
    lib.callers_confined(ctx, '4h remove_column_files-callers', F, ['db::Db::remove_column_files'], {'db::Db::drop_last_column', 'db::Db::reset_column'}, 'remove_column_files is called only by drop_last_column / reset_column', required=['db::Db::drop_last_column', 'db::Db::reset_column'])
    for fn, first, later in (('db::Db::drop_last_column', ['db::Db::precheck_column_operation'], ['db::Db::remove_column_files', 'options::Options::write_metadata']),
                             ('db::Db::reset_column', ['db::Db::precheck_column_operation'], ['db::Db::remove_column_files', 'options::Options::write_metadata']),
                             ('db::Db::add_column', ['db::Db::precheck_column_operation'], ['options::Options::write_metadata_with_version']),
                             ('migration::clear_column', ['db::Db::open'], ['column::Column::drop_files'])):
        b = ctx.body(fn)
        if not b:
            continue
        f1 = b.call_sites(*first)
        l1 = b.call_sites(*later)
        lib.precedes(ctx, '4i open-before-change %s' % fn, b, f1, l1, 'the database is opened (lock taken, pending logs replayed and removed, metadata validated) before files are deleted or metadata rewritten')
        for s in l1:
            lib.result_guards(ctx, '4j change-only-if-open-ok %s' % fn, b, f1, s, 'the change happens only on the Ok outcome of the open')
    pc = ctx.body('db::Db::precheck_column_operation')
    if pc:
        lib.must_pass(ctx, '4k precheck-opens-db', pc, pc.call_sites('db::Db::open'), 'precheck_column_operation opens the database with the caller\'s options')
    shared.one_salt_per_handle(ctx, '5')
    # 6. the metadata writer writes the format version it is given (CURRENT_VERSION only when it is given none): it never compares the
    # version with anything - "normalising" a version it dislikes silently re-labels a database whose tables are in another format
    wf = ctx.body('options::Options::write_metadata_file_with_version')
    if wf:
        cmp = []
        vparams = [l for l in range(1, wf.argc + 1) if 'Option<u32>' in str(wf.locals[l])]
        for fb in lib.family(F, wf.path):
            for bi in fb.normal_blocks():
                for st in fb.blocks[bi]['s']:
                    if st['k'] == 'assign' and st['r']['k'] == 'bin' and st['r']['op'] in ('Eq', 'Ne', 'Lt', 'Le', 'Gt', 'Ge'):
                        pls = [op_place(a) for a in st['r']['a'] if op_place(a) is not None]
                        # an operand that IS the version: a u32 (the payload of the Option) derived from the parameter
                        if fb is wf and any(str(fb.locals[pl[0]]) in ('u32', '&u32') and set(vparams) & set(backward_slice(fb, [pl]).params) for pl in pls):
                            cmp.append(fb.loc(bi))
        ctx.ob('6a0 version-parameter', 'anchor', wf.path, 'the metadata writer takes the version as an Option<u32> parameter', len(vparams) == 1, str(vparams))
        ctx.ob('6a version-written-as-given', 'K3-guard', wf.path, 'the version parameter is not compared with anything before it is written', not cmp, 'compared at %s' % cmp)

