"""C18 - at most one live handle per database directory (structural core):
lock first, lock held for the handle's lifetime, lock released last."""
import re
import core, lib
from core import call_matches, call_names, op_place, op_local, backward_slice

LEVEL = 'proof'
FLOOR = 14
EXPLANATION = ('The advisory lock file is taken (fs2 try_lock_exclusive) before any other file of the directory is read, written or deleted; '
               'the locked File is the one stored in DbInner.lock_file; DbInner/Db are constructed only on that path; unlock is called only '
               'at the end of Db::drop_inner after kill_logs; nothing forgets or replaces the lock file.')
ASSUMPTIONS = ['flock semantics across processes are those of fs2/OS (trusted)', 'unwind edges ignored']
TRUSTED = ['rustc MIR construction (nightly)', 'pdb-facts driver', 'rule engine /verif/rules', 'FS primitive pattern table in props/C18.py']

LOCK = ['fs2::FileExt::try_lock_exclusive', 'fs2::FileExt::lock_exclusive', 'std::fs::File::try_lock', 'std::fs::File::lock']
# `lock_file.unlock()` resolves to std's inherent File::unlock on current toolchains (fs2's trait method on older ones)
UNLOCK = ['fs2::FileExt::unlock', 'std::fs::File::unlock']

FS_PRIM_RX = re.compile(r'^(std::fs::|memmap2::|std::os::unix::fs::|fs2::)')
FS_NONIO_RX = re.compile(r'^std::fs::(OpenOptions::(new|create|read|write|append|truncate|create_new)$|Metadata::|FileType::|Permissions::|DirEntry::(file_name|path)$)')
IO_TRAIT_RX = re.compile(r'std::io::(Read|Write|Seek|BufRead)::')
PATH_IO_RX = re.compile(r'^std::path::Path::(is_dir|is_file|exists|metadata|read_dir|try_exists|symlink_metadata|canonicalize|read_link)$')

def is_fs_prim(t):
    for n in call_names(t):
        if FS_NONIO_RX.search(n):
            return False
    for n in call_names(t):
        if FS_PRIM_RX.search(n) or PATH_IO_RX.search(n):
            return True
        if IO_TRAIT_RX.search(n):
            return True
    return False

# calls allowed before the lock is held (reasons): the directory must exist to hold a lock file;
# the existence test of the directory; opening the lock file itself.
PRE_LOCK_ALLOWED = {
    'std::fs::create_dir_all': 'create-mode directory creation (needed to place the lock file)',
    'std::path::Path::is_dir': 'existence test of the database directory (read-only stat)',
    'std::fs::OpenOptions::open': 'opening the lock file itself',
}


def run(ctx):
    F = ctx.F
    o = ctx.body('db::DbInner::open')
    if o:
        locks = o.call_sites(*LOCK)
        ctx.ob('1a lock-site', 'anchor', o.path, 'DbInner::open takes the exclusive advisory lock', len(locks) == 1, 'lock call sites: %s' % locks)
        reach_fs = F.transitive_callers([b.path for b in F.bodies.values() if any(is_fs_prim(t) for _, t in b.all_calls())])
        n = 0
        bad = []
        for bi, t in o.calls():
            if bi not in o.normal_blocks():
                continue
            names = call_names(t)
            prim = is_fs_prim(t)
            local = any(nm in reach_fs for nm in names if nm in F.bodies)
            if not (prim or local):
                continue
            if bi in locks:
                continue
            n += 1
            w = o.find_path([0], {bi}, removed=set(locks))
            if w is None:
                continue
            # reachable without the lock: must be an allowed pre-lock primitive
            if prim and any(nm in PRE_LOCK_ALLOWED for nm in names):
                continue
            bad.append('%s at %s' % (names[0], o.loc(bi)))
        ctx.ob('1b lock-before-any-file-access', 'K2-order', o.path,
               'every call in DbInner::open that can touch a file (std::fs/memmap2/io traits, directly or through crate callees) is preceded on all paths by try_lock_exclusive, except directory creation / existence test / opening the lock file',
               not bad and n >= 3, 'file-touching calls reachable without holding the lock: %s' % bad if bad else 'only %d file-touching calls found' % n, o.loc())
        ctx.info['C18.file_touching_calls_in_open'] = n
        # the pre-lock OpenOptions::open must be the lock file (its File is the one that gets locked)
        opens = [bi for bi in o.call_sites('std::fs::OpenOptions::open') if o.find_path([0], {bi}, removed=set(locks))]
        ok = False
        if len(locks) == 1 and len(opens) == 1:
            sl = backward_slice(o, [op_place(o.term(locks[0])['a'][0])])
            ok = any(bi == opens[0] for bi, _ in sl.call_sites)
        ctx.ob('1c prelock-open-is-the-lock-file', 'K4-provenance', o.path,
               'the only file opened before the lock is the file that is then locked', ok, 'pre-lock opens: %s' % opens)
        # create_dir_all only in Create mode
        for s in o.call_sites('std::fs::create_dir_all'):
            lib.eq_guarded(ctx, '1d create_dir-only-in-create-mode', o, s, 'the directory is created only when opening_mode == Create', params=[2])
        # error of the lock attempt is returned as Error::Locked
        if locks:
            t = o.term(locks[0])
            nxt = o.term(t['t']) if 't' in t else {}
            ok = nxt.get('k') == 'call' and call_matches(nxt, ['std::result::Result::<T, E>::map_err']) and any(a.get('fn') == 'error::Error::Locked' for a in nxt['a'])
            ctx.ob('1e lock-error-mapped-to-Locked', 'K6-error', o.path, 'a failed lock attempt is converted to Error::Locked', ok, '')
            later = o.call_sites('options::Options::load_and_validate_metadata')
            for s in later:
                lib.result_guards(ctx, '1f continue-only-if-locked', o, locks, s, 'metadata is loaded only on the Ok outcome of the lock attempt')
            ctx.ob('1g lock-error-is-returned', 'K6-error', o.path, 'the Err outcome of the lock attempt reaches the return value (from_residual)',
                   any(b in core.error_exit_blocks(o) for b in o.reaches(locks[0])), '')
        # ------------------------------------------------ 2. held for the handle's lifetime
        adt = F.adts.get('db::DbInner')
        fidx = [f['name'] for f in adt['variants'][0]['fields']].index('lock_file') if adt else None
        aggs = [(bi, s) for bi in o.normal_blocks() for s in o.blocks[bi]['s'] if s['k'] == 'assign' and s['r']['k'] == 'agg' and s['r']['ak'] == 'Adt:db::DbInner']
        ok = False
        det = 'no DbInner aggregate in DbInner::open'
        if aggs and fidx is not None and locks:
            lockfile_local = set(l for l in backward_slice(o, [op_place(o.term(locks[0])['a'][0])], through_calls=False).locals if o.locals[l] == 'std::fs::File')
            a = aggs[0][1]['r']['a'][fidx]
            ok = a.get('o') == 'm' and len(a['p']) == 1 and bool(lockfile_local & backward_slice(o, [a['p']], through_calls=False).locals)
            det = 'DbInner.lock_file is initialised from %s, the locked file is local(s) %s' % (core.op_str(a), sorted(lockfile_local))
        ctx.ob('2a locked-file-stored-in-handle', 'K4-provenance', o.path, 'the File that was locked is moved into DbInner.lock_file (so it lives as long as the handle)', ok, det)
        # the locked file is not dropped on the success path before the aggregate
        if aggs and locks:
            lf = [l for l in backward_slice(o, [op_place(o.term(locks[0])['a'][0])], through_calls=False).locals if o.locals[l] == 'std::fs::File']
            drops = [bi for bi in o.normal_blocks() if o.term(bi)['k'] == 'drop' and o.term(bi)['p'][0] in lf]
            w = o.find_path([locks[0]], {aggs[0][0]}, removed=set()) if False else None
            bad = [d for d in drops if aggs[0][0] in o.reaches(d)]
            ctx.ob('2b lock-not-dropped-before-store', 'K2-order', o.path, 'no drop of the locked File lies on a path to the DbInner construction', not bad, 'drops: %s' % bad)
    mk = sorted(b.path for b in F.bodies.values() if any(s['k'] == 'assign' and s['r']['k'] == 'agg' and s['r']['ak'] == 'Adt:db::DbInner' for blk in b.blocks for s in blk['s']))
    ctx.ob('2c DbInner-constructed-only-in-open', 'K4-confinement', ','.join(mk), 'DbInner values are constructed only in DbInner::open', mk == ['db::DbInner::open'], str(mk))
    lib.callers_confined(ctx, '2d DbInner::open-callers', F, ['db::DbInner::open'], {'db::Db::open_inner'}, 'DbInner::open is called only by Db::open_inner', required=['db::Db::open_inner'])
    mk = sorted(b.path for b in F.bodies.values() if any(s['k'] == 'assign' and s['r']['k'] == 'agg' and s['r']['ak'] == 'Adt:db::Db' for blk in b.blocks for s in blk['s']))
    ctx.ob('2e Db-constructed-only-in-open_inner', 'K4-confinement', ','.join(mk), 'Db handles are constructed only in Db::open_inner', mk == ['db::Db::open_inner'], str(mk))
    # nobody else writes / takes the lock_file field
    wr = []
    for b in F.bodies.values():
        for bi in range(b.n):
            for s in b.blocks[bi]['s']:
                if s['k'] == 'assign':
                    if '.DbInner.lock_file' in s['p'][1:]:
                        wr.append(b.path)
                    r = s['r']
                    if r['k'] == 'ref' and r['m'] == 'mut' and '.DbInner.lock_file' in r['p'][1:]:
                        wr.append(b.path)
                    if r['k'] in ('use',) and r['a'][0].get('o') == 'm' and '.DbInner.lock_file' in r['a'][0]['p'][1:]:
                        wr.append(b.path)
    ctx.ob('2f lock_file-never-replaced', 'K4-confinement', ','.join(sorted(set(wr))) or '-', 'no body assigns to, mutably borrows or moves out of DbInner.lock_file', not wr, str(sorted(set(wr))))
    fg = sorted(F.direct_callers_of('std::mem::forget', 're:ManuallyDrop.*::new$', 'std::boxed::Box::<T, A>::leak', 're:Arc.*::into_raw$'))
    ctx.ob('2g no-forget', 'K4-confinement', ','.join(fg) or '-', 'no mem::forget / ManuallyDrop / Box::leak / Arc::into_raw in the crate (a leaked handle would hold the lock forever, a leaked DbInner would skip unlock ordering)', not fg, str(fg))
    # ------------------------------------------------ 3. released last
    lib.callers_confined(ctx, '3a unlock-callers', F, UNLOCK, {'db::Db::drop_inner'}, 'unlock is called only by Db::drop_inner', required=['db::Db::drop_inner'])
    d = ctx.body('db::Db::drop_inner')
    if d:
        un = d.call_sites(*UNLOCK)
        kl = d.call_sites('db::DbInner::kill_logs')
        lib.precedes(ctx, '3b kill_logs-before-unlock', d, kl, un, 'the final drain/cleanup (kill_logs) completes before the lock is released')
        joins = d.call_sites('re:JoinHandle.*::join$')
        ctx.ob('3c four-joins', 'anchor', d.path, 'drop_inner joins the four worker threads', len(joins) == 4, 'join sites: %d' % len(joins))
        for i, j in enumerate(joins):
            pass
        w = None
        for u in un:
            for j in joins:
                if j in d.reaches(u):
                    w = (u, j)
        ctx.ob('3d no-join-after-unlock', 'K2-order', d.path, 'no worker is still being joined after the lock was released', w is None, str(w))
        for u in un:
            ok = '.DbInner.lock_file' in lib.receiver_fields(d, d.term(u), 0)
            ctx.ob('3e unlock-receiver', 'K4-provenance', d.path, 'unlock is applied to DbInner.lock_file', ok, '')
        lib.must_pass(ctx, '3f drop_inner-always-unlocks', d, un, 'every path through drop_inner reaches unlock', cut_errors=False)
    dr = ctx.body('<db::Db as std::ops::Drop>::drop')
    if dr:
        lib.must_pass(ctx, '3g Drop-calls-drop_inner', dr, dr.call_sites('db::Db::drop_inner'), 'Drop for Db always runs drop_inner', cut_errors=False)
