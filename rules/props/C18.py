"""C18 - at most one live handle per database directory (structural core):
lock first, lock held for the handle's lifetime, lock released last."""
import re
import core, lib
from props import shared
from core import call_matches, call_names, op_place, op_local, backward_slice

LEVEL = 'proof'
FLOOR = 15      # 70% of the 22 obligation instances derived on the tree the rules were last reviewed against
EXPLANATION = ('The advisory lock file is taken (fs2 try_lock_exclusive) before any other file of the directory is read, written or deleted; '
               'the locked File is the one stored in DbInner.lock_file; DbInner/Db are constructed only on that path; unlock is called only '
               'at the end of Db::drop_inner after kill_logs; nothing forgets or replaces the lock file.')
EXPLANATION += ' Added: a failed lock attempt changes nothing (also through Drop of a guard); the offline entry points (migrate, clear_column, add / drop / reset column) write nothing before they opened a handle.'
ASSUMPTIONS = ['flock semantics across processes are those of fs2/OS (trusted)', 'unwind edges ignored']
TRUSTED = ['rustc MIR construction (nightly)', 'pdb-facts driver', 'rule engine /verif/rules', 'FS primitive pattern table in props/C18.py']

LOCK = ['fs2::FileExt::try_lock_exclusive', 'fs2::FileExt::lock_exclusive', 'std::fs::File::try_lock', 'std::fs::File::lock']
# `lock_file.unlock()` resolves to std's inherent File::unlock on current toolchains (fs2's trait method on older ones)
UNLOCK = ['fs2::FileExt::unlock', 'std::fs::File::unlock']

FS_PRIM_RX = re.compile(r'^(std::fs::|memmap2::|std::os::unix::fs::|fs2::)')
FS_NONIO_RX = re.compile(r'^std::fs::(OpenOptions::(new|create|read|write|append|truncate|create_new)$|Metadata::|FileType::|Permissions::|DirEntry::(file_name|path)$)')
IO_TRAIT_RX = re.compile(r'std::io::(Read|Write|Seek|BufRead)::')
PATH_IO_RX = re.compile(r'^std::path::Path::(is_dir|is_file|exists|metadata|read_dir|try_exists|symlink_metadata|canonicalize|read_link)$')

def is_fs_prim(t):
    for n in call_names(t):
        if FS_NONIO_RX.search(n):
            return False
    for n in call_names(t):
        if FS_PRIM_RX.search(n) or PATH_IO_RX.search(n):
            return True
        if IO_TRAIT_RX.search(n):
            return True
    return False

# calls allowed before the lock is held (reasons): the directory must exist to hold a lock file;
# the existence test of the directory; opening the lock file itself.
PRE_LOCK_ALLOWED = {
    'std::fs::create_dir_all': 'create-mode directory creation (needed to place the lock file)',
    'std::path::Path::is_dir': 'existence test of the database directory (read-only stat)',
    'std::fs::OpenOptions::open': 'opening the lock file itself',
}


MODIFY_RX = re.compile(r'^std::fs::(remove_file|remove_dir|remove_dir_all|rename|write|copy|create_dir|create_dir_all|hard_link|File::(create|create_new|set_len|set_permissions|write.*)|set_permissions)$|^std::fs::File::set_len$')


def lock_chain(F, start):
    """[(body, site_block, is_direct)] from `start` down to the body that calls the lock primitive itself;
    helper extraction (a function that must-reach the lock on its Ok paths) is followed."""
    chain = []
    b = F.body(start)
    seen = set()
    while b is not None and b.path not in seen:
        seen.add(b.path)
        direct = b.call_sites(*LOCK)
        if direct:
            chain.append((b, direct[0], True))
            return chain, len(direct)
        ms = lib.must_sites(b, LOCK)
        if len(ms) != 1:
            return chain, 0
        chain.append((b, ms[0], False))
        nxt = [n for n in call_names(b.term(ms[0])) if n in F.bodies]
        b = F.body(nxt[0]) if nxt else None
    return chain, 0


def run(ctx):
    F = ctx.F
    o = ctx.body('db::DbInner::open')
    if o:
        chain, ndirect = lock_chain(F, o.path)
        ctx.ob('1a lock-site', 'anchor', o.path, 'DbInner::open takes the exclusive advisory lock (directly or through a helper that always does)', ndirect == 1 and bool(chain),
               'chain %s direct lock calls %d' % ([(b.path, s) for b, s, d in chain], ndirect))
        reach_fs = F.transitive_callers([b.path for b in F.bodies.values() if any(is_fs_prim(t) for _, t in b.all_calls())])
        n = 0
        bad = []
        for (b, site, direct) in chain:
            for bi, t in b.calls():
                if bi not in b.normal_blocks() or bi == site:
                    continue
                names = call_names(t)
                prim = is_fs_prim(t)
                local = any(nm in reach_fs for nm in names if nm in F.bodies)
                if not (prim or local):
                    continue
                n += 1
                if b.find_path([0], {bi}, removed={site}) is None:
                    continue
                if prim and any(nm in PRE_LOCK_ALLOWED for nm in names):
                    continue
                bad.append('%s in %s at %s' % (names[0], b.path, b.loc(bi)))
        ctx.ob('1b lock-before-any-file-access', 'K2-order', o.path,
               'every call on the way to the lock and in DbInner::open that can touch a file (std::fs/memmap2/io traits, directly or through crate callees) is preceded on all paths by the lock, except directory creation / existence test / opening the lock file',
               not bad and n >= 3, 'file-touching calls reachable without holding the lock: %s' % bad if bad else 'only %d file-touching calls found' % n, o.loc())
        ctx.info['C18.file_touching_calls_checked'] = n
        if chain and chain[-1][2]:
            db_, ls, _ = chain[-1]
            opens = [bi for bi in db_.call_sites('std::fs::OpenOptions::open', 'std::fs::File::open', 'std::fs::File::create') if db_.find_path([0], {bi}, removed={ls})]
            sl = backward_slice(db_, [op_place(db_.term(ls)['a'][0])])
            ok = len(opens) == 1 and any(bi == opens[0] for bi, _ in sl.call_sites)
            ctx.ob('1c prelock-open-is-the-lock-file', 'K4-provenance', db_.path, 'the only file opened before the lock is the file that is then locked', ok, 'pre-lock opens: %s' % opens)
            t = db_.term(ls)
            nxt = db_.term(t['t']) if 't' in t else {}
            ok = nxt.get('k') == 'call' and call_matches(nxt, ['std::result::Result::<T, E>::map_err']) and any(a.get('fn') == 'error::Error::Locked' for a in nxt['a'])
            ctx.ob('1e lock-error-mapped-to-Locked', 'K6-error', db_.path, 'a failed lock attempt is converted to Error::Locked', ok, '')
            ctx.ob('1g lock-error-is-returned', 'K6-error', db_.path, 'the Err outcome of the lock attempt reaches the return value (from_residual)',
                   any(b2 in core.error_exit_blocks(db_) for b2 in db_.reaches(ls)), '')
            # a failed attempt modifies nothing: the error-only region after the lock call
            cont = None
            cur = t.get('t')
            for _ in range(4):
                if cur is None:
                    break
                tt = db_.term(cur)
                if tt['k'] == 'call' and call_matches(tt, [lib.TRY_BRANCH]):
                    sw = db_.term(tt['t'])
                    if sw['k'] == 'switch':
                        for v, tg in zip(sw['vals'], sw['ts']):
                            if v == 0:
                                cont = (tt['t'], tg)
                    break
                cur = tt.get('t') if tt['k'] == 'call' else None
            bad2 = []
            if cont:
                swb, ok_t = cont
                err_region = db_.reachable_from([x for x in db_.succ(swb) if x != ok_t]) - db_.reachable_from([ok_t])
                modifiers = F.transitive_callers([bb.path for bb in F.bodies.values() if any(any(MODIFY_RX.search(nm) for nm in call_names(tt2)) for _, tt2 in bb.all_calls())])
                for bi in sorted(err_region):
                    tt = db_.blocks[bi]['t']
                    if tt['k'] == 'call':
                        nms = call_names(tt)
                        if any(MODIFY_RX.search(nm) for nm in nms) or any(nm in modifiers for nm in nms if nm in F.bodies):
                            bad2.append('%s at %s' % (nms[0], db_.loc(bi)))
                    elif tt['k'] == 'drop':
                        for dp in F.drop_impls_for(tt['ty']):
                            if dp in modifiers:
                                bad2.append('drop of %s runs %s at %s' % (tt['ty'], dp, db_.loc(bi)))
            ctx.ob('1h failed-lock-attempt-changes-nothing', 'K6b-effect-before-error', db_.path,
                   'on the path where the lock attempt failed nothing that creates, deletes, renames or resizes a file is reachable (also not through Drop of a guard) - the lock file belongs to the live owner',
                   cont is not None and not bad2, 'no `?` after the lock call' if cont is None else '; '.join(bad2))
        for s in o.call_sites('std::fs::create_dir_all'):
            lib.eq_guarded(ctx, '1d create_dir-only-in-create-mode', o, s, 'the directory is created only when opening_mode == Create', params=[2])
        top_site = chain[0][1] if chain else None
        if top_site is not None:
            later = o.call_sites('re:^options::Options::load_and_validate_metadata(_in_version)?$')
            for s in later:
                lib.result_guards(ctx, '1f continue-only-if-locked', o, [top_site], s, 'metadata is loaded only on the Ok outcome of the lock attempt')
        # ------------------------------------------------ 1l. the lock is on the file that is at the path (F72)
    lock_identity(ctx, F)
    if o:
        # ------------------------------------------------ 2. held for the handle's lifetime
        adt = F.adts.get('db::DbInner')
        fidx = [f['name'] for f in adt['variants'][0]['fields']].index('lock_file') if adt and 'lock_file' in [f['name'] for f in adt['variants'][0]['fields']] else None
        aggs = [(bi, s) for bi in o.normal_blocks() for s in o.blocks[bi]['s'] if s['k'] == 'assign' and s['r']['k'] == 'agg' and s['r']['ak'] == 'Adt:db::DbInner']
        ok = False
        det = 'no DbInner aggregate with a lock_file field in DbInner::open'
        if aggs and fidx is not None and top_site is not None:
            a = aggs[0][1]['r']['a'][fidx]
            if op_place(a):
                if chain[0][2]:
                    lockfile_local = set(l for l in backward_slice(o, [op_place(o.term(top_site)['a'][0])], through_calls=False).locals if o.locals[l] == 'std::fs::File')
                    ok = a.get('o') == 'm' and bool(lockfile_local & backward_slice(o, [a['p']], through_calls=False).locals)
                else:
                    ok = a.get('o') == 'm' and any(bi == top_site for bi, _ in backward_slice(o, [a['p']]).call_sites)
            det = 'DbInner.lock_file is initialised from %s' % core.op_str(a)
        ctx.ob('2a locked-file-stored-in-handle', 'K4-provenance', o.path, 'the value that holds the lock is moved into DbInner.lock_file (so it lives as long as the handle)', ok, det)
        if aggs and top_site is not None and chain[0][2]:
            lf = [l for l in backward_slice(o, [op_place(o.term(top_site)['a'][0])], through_calls=False).locals if o.locals[l] == 'std::fs::File']
            drops = [bi for bi in o.normal_blocks() if o.term(bi)['k'] == 'drop' and o.term(bi)['p'][0] in lf]
            bad = [d for d in drops if aggs[0][0] in o.reaches(d)]
            ctx.ob('2b lock-not-dropped-before-store', 'K2-order', o.path, 'no drop of the locked File lies on a path to the DbInner construction', not bad, 'drops: %s' % bad)
    mk = sorted(b.path for b in F.bodies.values() if any(s['k'] == 'assign' and s['r']['k'] == 'agg' and s['r']['ak'] == 'Adt:db::DbInner' for blk in b.blocks for s in blk['s']))
    ctx.ob('2c DbInner-constructed-only-in-open', 'K4-confinement', ','.join(mk), 'DbInner values are constructed only in DbInner::open', mk == ['db::DbInner::open'], str(mk))
    inner = sorted(p2 for p2 in F.bodies if re.match(r'^db::Db::open_inner\w*$', p2))      # open_inner, or a variant that takes one more argument
    lib.callers_confined(ctx, '2d DbInner::open-callers', F, ['db::DbInner::open'], set(inner), 'DbInner::open is called only by Db::open_inner', required=inner[:1])
    mk = sorted(b.path for b in F.bodies.values() if any(s['k'] == 'assign' and s['r']['k'] == 'agg' and s['r']['ak'] == 'Adt:db::Db' for blk in b.blocks for s in blk['s']))
    ctx.ob('2e Db-constructed-only-in-open_inner', 'K4-confinement', ','.join(mk), 'Db handles are constructed only in Db::open_inner', len(mk) == 1 and mk[0] in inner, str(mk))
    # nobody else writes / takes the lock_file field
    wr = []
    for b in F.bodies.values():
        for bi in range(b.n):
            for s in b.blocks[bi]['s']:
                if s['k'] == 'assign':
                    if '.DbInner.lock_file' in s['p'][1:]:
                        wr.append(b.path)
                    r = s['r']
                    if r['k'] == 'ref' and r['m'] == 'mut' and '.DbInner.lock_file' in r['p'][1:]:
                        wr.append(b.path)
                    if r['k'] in ('use',) and r['a'][0].get('o') == 'm' and '.DbInner.lock_file' in r['a'][0]['p'][1:]:
                        wr.append(b.path)
    ctx.ob('2f lock_file-never-replaced', 'K4-confinement', ','.join(sorted(set(wr))) or '-', 'no body assigns to, mutably borrows or moves out of DbInner.lock_file', not wr, str(sorted(set(wr))))
    fg = sorted(F.direct_callers_of('std::mem::forget', 're:ManuallyDrop.*::new$', 'std::boxed::Box::<T, A>::leak', 're:Arc.*::into_raw$'))
    ctx.ob('2g no-forget', 'K4-confinement', ','.join(fg) or '-', 'no mem::forget / ManuallyDrop / Box::leak / Arc::into_raw in the crate (a leaked handle would hold the lock forever, a leaked DbInner would skip unlock ordering)', not fg, str(fg))
    # ------------------------------------------------ 3. released last
    d = ctx.body('db::Db::drop_inner')
    direct_un = F.direct_callers_of(*UNLOCK)
    un_reach = F.transitive_callers(direct_un)
    # unlock is reachable only through Db::drop_inner (and the helper chain below it)
    outside = sorted(c for c in direct_un if c != 'db::Db::drop_inner' and 'db::Db::drop_inner' not in F.transitive_callers([c]))
    ctx.ob('3a unlock-callers', 'K4-confinement', ','.join(sorted(direct_un)), 'the lock is released only on the Db::drop_inner path', bool(direct_un) and not outside and 'db::Db::drop_inner' in un_reach, 'callers %s' % sorted(direct_un))
    if d:
        un = lib.sites_reaching(d, UNLOCK)     # (conditional since F76: only the last owner of the DbInner unlocks)
        kl = d.call_sites('db::DbInner::kill_logs')
        lib.precedes(ctx, '3b kill_logs-before-unlock', d, kl, un, 'the final drain/cleanup (kill_logs) completes before the lock is released')
        joins = lib.sites_reaching(d, ['re:JoinHandle.*::join$'])
        ctx.ob('3c four-joins', 'anchor', d.path, 'drop_inner joins the worker threads', len(joins) >= 1, 'join sites: %d' % len(joins))
        for i, j in enumerate(joins):
            pass
        w = None
        for u in un:
            for j in joins:
                if j in d.reaches(u):
                    w = (u, j)
        ctx.ob('3d no-join-after-unlock', 'K2-order', d.path, 'no worker is still being joined after the lock was released', w is None, str(w))
        for u in un:
            ok = '.DbInner.lock_file' in lib.receiver_fields(d, d.term(u), 0)
            ctx.ob('3e unlock-receiver', 'K4-provenance', d.path, 'unlock is applied to DbInner.lock_file', ok, '')
    # the lock file is never unlinked (a deleted lock file lets a second opener lock a fresh one)
    lib.callers_confined(ctx, '3h remove_file-callers', F, ['std::fs::remove_file', 'std::fs::rename'],
                         {'log::Log::open', 'log::Log::drop_log', 'column::Column::drop_files', 'file::TableFile::remove', 'index::IndexTable::drop_file',
                          'ref_count::RefCountTable::drop_file', shared.column_file_mover(F),
                          'options::Options::write_metadata_file_with_version'},
                         'files are unlinked/renamed only by the known log, table, index, ref-count, migration and metadata sites - none of which can name the lock file', required=['log::Log::drop_log'])
    # a directory removal takes the `lock` file inside it along: a handle alive on that directory loses its lock (a second open then
    # succeeds) and its files. The private directories of an in-place migration are the only ones the library removes; each removal is
    # made under the directory's own lock (F66; the closure of migrate that removes the revert directory used to be a reviewed
    # exception of 3h - "cannot name the lock file" was wrong for a recursive removal)
    nrm = 0
    for rb in sorted(F.bodies.values(), key=lambda x: x.path):
        for s_ in rb.call_sites('std::fs::remove_dir_all'):
            if s_ not in rb.normal_blocks():
                continue
            nrm += 1
            locks = [x for x in rb.call_sites('re:try_lock_exclusive$', 're:FileExt.*::try_lock_exclusive$') if rb.dominates(x, s_)]
            ok = False
            det = 'no try_lock_exclusive dominates the removal'
            for x in locks:
                errs = lib.result_err_targets(rb, x)
                # the lock error leaves the function (the removal is not reached on the Err edge)
                reach_on_err = any(s_ in rb.reaches(e) or s_ == e for e in errs)
                # the locked file lives in the directory that is removed: both derive from the same parameter / local
                ra = backward_slice(rb, [op_place(a) for a in rb.term(s_)['a'] if op_place(a) is not None])
                la = backward_slice(rb, [op_place(a) for a in rb.term(x)['a'] if op_place(a) is not None])
                same = bool((ra.params & la.params) or (ra.fields & la.fields and any(f_.endswith('path') for f_ in ra.fields & la.fields)))
                named_lock = any(sc == 'lock' for _, sc in lib.str_consts(rb))
                if errs and not reach_on_err and same and named_lock:
                    ok = True
                else:
                    det = 'lock at %s: err edges %s, removal reachable on error %s, same directory %s, file named "lock" %s' % (rb.loc(x), errs, reach_on_err, same, named_lock)
            ctx.ob('3i directory-removed-only-under-its-lock %s #%d' % (rb.path, nrm), 'K2-order', rb.path,
                   'remove_dir_all is dominated by a successful try_lock_exclusive on the file `lock` inside the directory it removes', ok, '' if ok else det, rb.loc(s_))
    ctx.ob('3i0 directory-removals', 'anchor', '-', 'the recursive directory removals of the crate were found', nrm >= 1, 'found %d' % nrm)
    # the metadata writer renames its temporary file over the path it is given: that path is <dir>/metadata, never <dir>/lock
    for fn in ('options::Options::write_metadata_with_version',):
        b = F.body(fn)
        if b is not None:
            names = [s2 for bi, s2 in lib.str_consts(b)]
            ctx.ob('3i metadata-path-is-not-the-lock-file %s' % fn, 'K8-const', fn, 'the file name appended by the metadata writer is "metadata"', 'metadata' in names and 'lock' not in names, str(names))
    if False:
        pass
        lib.must_pass(ctx, '3f drop_inner-always-unlocks', d, un, 'every path through drop_inner reaches unlock', cut_errors=False)
    shared.lock_kept_while_the_database_is_shared(ctx, '3l')       # F76: a tree reader that outlives the handle keeps the directory locked
    dr = ctx.body('<db::Db as std::ops::Drop>::drop')
    if dr:
        lib.must_pass(ctx, '3g Drop-calls-drop_inner', dr, dr.call_sites('db::Db::drop_inner'), 'Drop for Db always runs drop_inner', cut_errors=False)
    # 3. the entry points that work on a closed database (migration, column administration) modify nothing in a database directory
    # before they have opened a handle on it - a call that is refused with Error::Locked must not have written already (F56: migrate
    # created the destination directory and its metadata first; run concurrently with another opener it replaced a live database's salt)
    WRITE_PRIMS = ['std::fs::create_dir_all', 'std::fs::create_dir', 'std::fs::write', 'std::fs::rename', 'std::fs::remove_file', 'std::fs::remove_dir_all',
                   'std::fs::remove_dir', 'std::fs::copy', 're:std::fs::File::set_len$', 're:std::fs::File::create$']
    OPENERS = ['re:^db::Db::open(_or_create\\w*|_read_only|_inner\\w*)?$', 'db::Db::precheck_column_operation']
    n3 = 0
    for fn in ('migration::migrate', 'migration::clear_column', 'db::Db::add_column', 'db::Db::drop_last_column', 'db::Db::reset_column'):
        b = ctx.body(fn)
        if not b:
            continue
        opens = lib.sites_reaching(b, OPENERS, lift=False)
        eff = [x for x in lib.sites_reaching(b, WRITE_PRIMS) if x not in opens]
        n3 += 1
        ctx.ob('3a0 offline-entry-anchors %s' % fn, 'anchor', fn, 'the entry point opens a handle and modifies files', len(opens) >= 1 and len(eff) >= 1, 'opens %s effects %s' % (opens, eff))
        lib.precedes(ctx, '3a nothing-written-before-a-handle-was-opened %s' % fn, b, opens, eff,
                     'every file modification of the entry point is preceded on all paths by the opening of a database handle (which takes the directory lock or fails with Error::Locked)')
    ctx.ob('3a1 offline-entry-points', 'anchor', '-', 'migrate, clear_column and the three column administration calls were found', n3 == 5, 'found %d' % n3)



def lock_identity(ctx, F):
    """A lock file is opened by path and locked a moment later. In between the directory can have been removed and created again by
    a live handle (migrate does that with its private directories, under their lock): the lock then sits on an orphaned file and
    excludes nobody. Every place that takes the advisory lock therefore checks, before it touches anything else, that the locked
    file is still the file at the path (same device and inode) and gives up with Locked otherwise."""
    checks = set()
    for p, b in F.bodies.items():
        names = [n for _, t in b.calls() for n in call_names(t)]
        if sum(1 for n in names if re.search(r'MetadataExt::ino$|MetadataExt>::ino$', n)) >= 2 and any(re.search(r'^std::fs::metadata$|Path::metadata$', n) for n in names) \
                and any(re.search(r'File::metadata$', n) for n in names):
            checks.add(p)
    sites = []
    for p, b in sorted(F.bodies.items()):
        for s in b.call_sites(*LOCK):
            if s in b.normal_blocks():
                sites.append((b, s))
    ctx.ob('1l0 lock-sites', 'anchor', '-', 'the places that take the advisory lock (DbInner::open, the removal of a private migration directory) and the identity check were found',
           len(sites) >= 2 and len(checks) >= 1, 'lock sites %s, identity checks %s' % ([(b.path, s) for b, s in sites], sorted(checks)))
    reach_fs = F.transitive_callers([b.path for b in F.bodies.values() if any(is_fs_prim(t) for _, t in b.all_calls())])
    for b, s in sites:
        cs = [bi for bi, t in b.calls() if bi in b.normal_blocks() and any(n in checks for n in call_names(t))]
        bad = []
        for bi, t in b.calls():
            if bi not in b.normal_blocks() or bi == s or bi in cs or bi not in b.reaches(s):
                continue
            names = call_names(t)
            if not (is_fs_prim(t) or any(n in reach_fs for n in names if n in F.bodies)):
                continue
            if b.find_path(list(b.succ(s)), {bi}, removed=set(cs), sensitive=False) is not None:
                bad.append('%s at %s' % (names[0], b.loc(bi)))
        w = lib.ok_return_unreachable_avoiding(b, cs, sources=[s]) if cs else ['?']
        # ... and a negative answer of the check is an error of the function (not looked at = not checked)
        unheeded = [b.loc(c) for c in cs if not lib.result_err_targets(b, c)]
        ctx.ob('1l locked-file-is-the-file-at-the-path %s' % b.path, 'K2-order', b.path,
               'after the lock was taken, the identity of the locked file (device, inode) is compared with the file at the path before anything else is touched, on every path, and a mismatch ends the function with an error',
               bool(cs) and not bad and w is None and not unheeded,
               'no identity check after the lock' if not cs else ('file access before the check: %s' % bad if bad else ('the result of the check at %s is not examined' % unheeded if unheeded else 'success path without the check: %s' % lib.short_path(b, w))), b.loc(s))
