"""C12 - power loss cannot tear state: log synced before apply, data flushed before log reuse.
Structural core decided: the ordering statement of the property ("no table byte is modified on
behalf of a record before its log bytes were synced; no log file is truncated/reused/deleted before
the table changes it describes were flushed") as dominance / must-pass / confinement facts on MIR."""
import core, lib
from core import op_place
from lib import *
from props import shared

LEVEL = 'other'     # since F82: two rules (1u, 1Le) carry reviewed exceptions (the torn append; five error exits that let go of a log file handle)
FLOOR = 40
EXPLANATION = ('Ordering core of C12 decided on MIR of every path: sync-before-hand-over in Log::flush_one, hand-over queue '
               'confinement, enact_plan reachable only from DbInner::enact_logs through Log::read_next, column flush loop '
               'dominating every Log::clean_logs call (with sync_data assumed true), truncation made durable, remap flush, '
               'confinement of truncation/unlink primitives, msync range.')
EXPLANATION += ' Added: the flush visits queued old tables; a replayed log is synced first; the truncate count is read before the flush; a torn appended record is never handed to the applier; a failed truncation requeues the logs not cleaned and destroys no handle.'
ASSUMPTIONS = ['sync_wal = sync_data = true (CFG pruned on Log.sync / Options.sync_data)',
               'kernel honours fdatasync/msync; page-subset recovery content is not decided',
               'MIR paths over-approximate feasible paths; unwind edges are ignored']
TRUSTED = ['rustc MIR construction (nightly)', 'pdb-facts driver', 'rule engine /verif/rules', 'frozen anchor table in props/C12.py']

PUSH_BACK = 'std::collections::VecDeque::<T, A>::push_back'
POP_FRONT = 'std::collections::VecDeque::<T, A>::pop_front'
SYNC_DATA = 'std::fs::File::sync_data'
SYNC_ALL = 'std::fs::File::sync_all'
SET_LEN = 'std::fs::File::set_len'
REMOVE_FILE = 'std::fs::remove_file'
MMAP_FLUSH = ['memmap2::MmapMut::flush', 'memmap2::MmapMut::flush_range']


def run(ctx):
    F = ctx.F
    shared.sync_before_handover(ctx, '1')
    shared.wal_confinement(ctx, '1w')

    # ---------------------------------------------------------------- 2. tables flushed before truncation
    cl_callers = sorted(F.direct_callers_of('log::Log::clean_logs'))
    ctx.ob('2a clean_logs-callers', 'K4-confinement', ','.join(cl_callers),
           'Log::clean_logs (truncation) has callers, among them DbInner::clean_logs; every caller is checked for the flush loop below',
           'db::DbInner::clean_logs' in cl_callers, str(cl_callers))
    for cp in cl_callers:
        b = F.body(cp)
        sd = lib.prune_bool_field(b, '.Options.sync_data', True)
        sites = b.call_sites('log::Log::clean_logs')
        lib.flush_loop_precedes(ctx, '2b flush-loop-before-truncate %s' % cp, b, '.DbInner.columns', ['column::Column::flush'], sites,
                                'every Log::clean_logs call is preceded by a complete loop over self.columns calling Column::flush (error -> return), sync_data assumed on',
                                removed_edges=sd)
    # the count handed to Log::clean_logs in the concurrent clean-up stage was read BEFORE the flush
    b = ctx.body('db::DbInner::clean_logs')
    if b:
        sites = b.call_sites('log::Log::clean_logs')
        flushes = b.call_sites('column::Column::flush')
        bad = None
        n = 0
        for s in sites:
            t = b.term(s)
            sl = core.backward_slice(b, [core.op_place(a) for a in t['a'][1:] if core.op_place(a)])
            for (bi, ct) in sl.call_sites:
                if core.call_matches(ct, ['log::Log::num_dirty_logs']):
                    n += 1
                    for f in flushes:
                        if bi in b.reaches(f):
                            bad = 'the dirty-log count used for truncation is read at %s, after Column::flush at %s: logs retired during the flush would be truncated with their pages unflushed' % (b.loc(bi), b.loc(f))
        ctx.ob('2c truncate-count-read-before-flush', 'K2-order', b.path,
               'in the cleanup stage (concurrent with the applier) the number of logs to truncate is sampled before the column flush starts',
               bad is None and n > 0, bad or ('no num_dirty_logs call feeds Log::clean_logs' if n == 0 else ''), b.loc())
    # Column::flush reaches every file kind
    cf = ctx.body('column::Column::flush')
    if cf:
        lib.must_pass(ctx, '2d Column::flush-dispatch', cf, cf.call_sites('column::HashColumn::flush', 'btree::BTreeTable::flush'),
                      'Column::flush flushes the hash or btree column on every success path', min_targets=2)
    hf = ctx.body('column::HashColumn::flush')
    if hf:
        lib.must_pass(ctx, '2e hash-flush-index', hf, hf.call_sites('index::IndexTable::flush'), 'HashColumn::flush flushes the index on every success path')
        lib.flush_loop_precedes(ctx, '2f hash-flush-values', hf, '.Tables.value', ['table::ValueTable::flush'], hf.return_blocks(),
                                'HashColumn::flush flushes every value table (complete loop) before returning Ok')
        rc = hf.call_sites('ref_count::RefCountTable::flush')
        ctx.ob('2g hash-flush-refcount', 'K1-must-pass', hf.path, 'HashColumn::flush flushes the ref-count table when one exists',
               bool(rc) and all(any(core.call_matches(hf.term(s), ['re:Option.*::is_some', 're:Option.*::is_none']) or True for s in [x]) for x in rc),
               'no RefCountTable::flush call' if not rc else '')
        if rc:
            lib.cond_guarded(ctx, '2h hash-flush-refcount-only-skipped-if-absent', hf, rc[0],
                             'the ref-count flush is skipped only depending on Tables.ref_count (presence test)', fields=['.Tables.ref_count'])
    bf = ctx.body('btree::BTreeTable::flush')
    if bf:
        loops = lib.for_loops_over(bf)
        calls = bf.call_sites('table::ValueTable::flush')
        ok = bool(calls) and any(lib.loop_body_must_call(bf, lp, calls) is None for lp in loops)
        ctx.ob('2i btree-flush-values', 'K2-loop-order', bf.path, 'BTreeTable::flush flushes every value table in a complete loop', ok,
               '' if ok else 'no complete loop calling ValueTable::flush')
    vf = ctx.body('table::ValueTable::flush')
    if vf:
        lib.must_pass(ctx, '2j valuetable-flush', vf, vf.call_sites('file::TableFile::flush'), 'ValueTable::flush reaches TableFile::flush')

    # ---------------------------------------------------------------- 3. truncation durable before reuse/unlink
    lc = ctx.body('log::Log::clean_logs')
    if lc:
        # the truncation may sit in clean_logs itself, in a closure or in a helper extracted from it: every body of the family that
        # truncates is checked on its own (set_len -> sync_all before it returns Ok), and in clean_logs a call to such a helper
        # counts as the truncate+sync step
        fam = lib.family(F, lc.path)
        pool = [bi for b, bi in lib.calls_on_field(F, ['re:VecDeque.*::(extend|push_back|push_front|append)$', 're:Extend.*>::extend$'], '.Log.log_pool', bodies=[lc])]
        drops = lc.call_sites('log::Log::drop_log')
        trunc_bodies = [x for x in fam if x.call_sites(SET_LEN)]
        ctx.ob('3a truncate-site', 'anchor', lc.path, 'Log::clean_logs truncates with set_len', bool(trunc_bodies) and bool(pool), 'truncating bodies %s pool sites %s' % ([x.path for x in trunc_bodies], pool))
        w, wb = None, None
        for x in trunc_bodies:
            sa = x.call_sites(SYNC_ALL, SYNC_DATA)
            goals = set(x.return_blocks()) | (set(pool) | set(drops) if x is lc else set())
            for s in x.call_sites(SET_LEN):
                w = x.find_path([y for y in x.succ(s)], goals, removed=set(sa) | core.error_exit_blocks(x))
                if w or not sa:
                    w, wb = (w or ['no sync call']), x
                    break
            if w:
                break
        ctx.ob('3b truncate-synced-before-reuse', 'K2-order', lc.path,
               'after set_len(0) the file is sync_all-ed on every success path before it can enter the pool, be unlinked, or the function returns Ok',
               w is None and bool(trunc_bodies), '' if w is None else 'path from truncation to reuse without sync in %s: %s' % (wb.path, lib.short_path(wb, w) if isinstance(w[0], int) else w[0]))
        if lc not in trunc_bodies and trunc_bodies:
            # helper form: the helper's result is looked at before the file goes to the pool
            hs = lib.sites_reaching(lc, [x.path for x in trunc_bodies])
            for pl in pool[:1]:
                lib.precedes(ctx, '3b2 truncation-before-pool', lc, hs, [pl], 'a log enters the pool only after the truncate+sync step ran')
        for x in trunc_bodies:
            for s in x.call_sites(SET_LEN):
                t = x.term(s)
                z = t['a'][1].get('i') if len(t['a']) > 1 else None
                ctx.ob('3c truncate-to-zero', 'K8-const', x.path, 'the log is truncated to length 0 (a constant)', z == 0, 'set_len operand: %s' % core.op_str(t['a'][1]))
    # logs are truncated oldest first (a power loss between two truncations must leave a suffix-closed set of logs:
    # an older log surviving while a newer one is gone would be replayed over newer flushed state)
    shared.queue_discipline(ctx, '3q')
    shared.failed_cleanup_keeps_queue_order(ctx, '3')
    shared.no_log_handle_destroyed_in_cleanup(ctx, '3')   # also when a truncation fails: the logs not cleaned stay in front of the newer ones
    shared.torn_record_not_handed_over(ctx, '1')        # only complete records reach the stage that writes tables
    shared.unsynced_log_never_abandoned(ctx, '1')       # F82: no newer log file beside one that could not be synced
    shared.log_handles_are_linear(ctx, '1')
    flush_is_not_skipped_wrongly(ctx, '2s')
    # every table the applier may write to is msynced by the column flush that precedes log truncation: besides the current index,
    # the value tables and the current ref-count table these are the OLD index / ref-count tables still queued for re-indexing
    # (HashColumn::enact_plan writes into them for records planned before the growth, and replay does at open)
    hf, he = ctx.body('column::HashColumn::flush'), F.body('column::HashColumn::enact_plan')
    if hf and he:
        writes_old = [lp for lp in lib.for_loops_over(he)] or True
        applier_uses_queue = any({'.Reindex.queue', '.HashColumn.reindex'} & lib.receiver_fields(x, t, 0) for x in lib.family(F, he.path) for _, t in x.calls() if t['a'])
        ctx.ob('2m0 applier-writes-queued-tables', 'anchor', he.path, 'the applier looks tables up in the reindex queue', applier_uses_queue, '')
        for kind, callee in (('index', 'index::IndexTable::flush'), ('ref-count', 'ref_count::RefCountTable::flush')):
            sites = lib.sites_reaching(hf, [callee])
            inq = []
            for lp in lib.for_loops_over(hf, '.Reindex.queue'):
                if any(x in hf.reachable_from([lp['some']], removed={lp['head']}) for x in sites):
                    inq.append(lp)
            # iterator forms: queue.iter().try_for_each / for_each with a closure that flushes
            itf = [bi for bi, t in hf.calls() if bi in hf.normal_blocks() and t['a'] and '.Reindex.queue' in lib.receiver_fields(hf, t, 0) and any(F.body(c) is not None and lib.sites_reaching(F.body(c), [callee]) for c in lib.closure_operands(hf, t))]
            w = hf.find_path([0], hf.return_blocks(), removed=set(lp['head'] for lp in inq) | set(itf) | core.error_exit_blocks(hf)) if (inq or itf) else ['?']
            ctx.ob('2m queued-%s-tables-flushed' % kind, 'K2-loop-order', hf.path,
                   'HashColumn::flush msyncs every %s table in the reindex queue on every success path (the applier writes into them; their logs are truncated after this flush)' % kind,
                   w is None, 'the flush never visits the reindex queue' if not (inq or itf) else 'success path that skips the queued tables')
    # ---------------------------------------------------------------- 4. remap flushes the old mapping
    g = ctx.body('file::TableFile::grow')
    if g:
        reps = lib.fam_sites(F, g.path, ['std::mem::replace'])           # in grow or in a helper extracted from it
        reps = [(fb, x) for fb, x in reps if any('MmapMut' in str(fb.locals[op_place(a)[0]]) for a in fb.term(x)['a'] if op_place(a) is not None)]
        ctx.ob('4a remap-site', 'anchor', g.path, 'TableFile::grow replaces the mapping with mem::replace', bool(reps), '')
        for fb, x in reps:
            lib.must_pass(ctx, '4b old-map-flushed', fb, lib.msync_tail_sites(fb, 0), 'after the mapping was replaced, every success path msyncs the whole old mapping (flush, or flush_range(0, len)) before returning Ok',
                          sources=[x])
    # ---------------------------------------------------------------- 5. truncation / unlink primitives confined
    lib.callers_confined(ctx, '5a set_len-callers', F, [SET_LEN],
                         {'file::TableFile::open', 'file::TableFile::grow', 'index::IndexTable::open_existing', 'index::IndexTable::enact_plan',
                          'ref_count::RefCountTable::open_existing', 'ref_count::RefCountTable::enact_plan', 'log::Log::clean_logs'},
                         'File::set_len is called only by table growth/creation code and Log::clean_logs', required=['log::Log::clean_logs'])
    # only clean_logs may shrink: every other set_len operand is not the constant 0
    bad = []
    for b in F.bodies.values():
        for bi, t in b.calls():
            if core.call_matches(t, [SET_LEN]) and not lib.site_in(F, 'log::Log::clean_logs', b.path):
                if len(t['a']) > 1 and t['a'][1].get('i') == 0:
                    bad.append(b.path)
    ctx.ob('5b only-log-truncates', 'K8-const', ','.join(bad) or '-', 'no set_len outside Log::clean_logs truncates to 0', not bad, str(bad))
    lib.callers_confined(ctx, '5c drop_log-callers', F, ['log::Log::drop_log'], {'log::Log::clean_logs', 'log::Log::kill_logs'},
                         'log files are unlinked only from the pool overflow of clean_logs and from kill_logs', required=['log::Log::clean_logs', 'log::Log::kill_logs'])
    lib.callers_confined(ctx, '5d remove_file-callers', F, [REMOVE_FILE],
                         {'log::Log::open', 'log::Log::drop_log', 'column::Column::drop_files', 'file::TableFile::remove',
                          'index::IndexTable::drop_file', 'ref_count::RefCountTable::drop_file'},
                         'std::fs::remove_file is called only by the six known unlink sites', required=['log::Log::drop_log'])
    kl = ctx.body('log::Log::kill_logs')
    if kl:
        # kill_logs unlinks only pool files and the (finished) reader file
        dl = kl.call_sites('log::Log::drop_log') or lib.sites_reaching(kl, ['log::Log::drop_log'])     # (or through a helper that closes the handle first)
        srcs = set()
        for s in dl:
            srcs |= core.backward_slice(kl, [core.op_place(a) for a in kl.term(s)['a'][1:] if core.op_place(a)]).fields
        allowed = {'.Log.log_pool', '.Log.reading', '.Reading.id', '.Option.0', '.#0', '.#1'}
        q = sorted(f for f in srcs if f.startswith('.Log.') and f not in allowed)
        ctx.ob('5e kill_logs-unlinks-only-pool-and-reader', 'K4-confinement', kl.path,
               'Log::kill_logs derives the ids it unlinks only from log_pool and the current reader (never read_queue/cleanup_queue/appending)',
               not q and bool(dl), 'unexpected sources: %s' % q)
    # ---------------------------------------------------------------- 6. msync covers the data area
    meta = {p: c.get('i') for p, c in F.consts.items() if p.endswith('::META_SIZE')}
    for fn, mc in (('index::IndexTable::flush', 'index::META_SIZE'), ('ref_count::RefCountTable::flush', 'ref_count::META_SIZE')):
        b = ctx.body(fn)
        if not b:
            continue
        ms = meta.get(mc)
        sites = lib.msync_tail_sites(b, ms if ms is not None else 0)
        ctx.ob('6a msync-range %s' % fn, 'K8-const', fn, 'the index/ref-count flush msyncs from an offset <= META_SIZE up to the end of the mapping (offset + length == map.len())',
               bool(sites) and ms is not None, 'no msync that starts at or below META_SIZE=%s and provably reaches the end of the mapping' % ms)
        lib.cond_guarded(ctx, '6b msync-only-skipped-if-unmapped %s' % fn, b, sites[0],
                         'the msync is skipped only when no mapping exists', fields=['.IndexTable.map'] if 'index' in fn else ['.RefCountTable.map']) if sites else None
    part = lib.msync_partial_sites(F)
    ctx.ob('6e no-partial-msync', 'K8-const', '-', 'no msync in the crate covers a range that stops short of the end of its mapping (bytes appended by in-place growth would never be written back)',
           not part, '; '.join('%s at %s' % x for x in part))
    tf = ctx.body('file::TableFile::flush')
    if tf:
        sites = lib.msync_tail_sites(tf, 0)
        ctx.ob('6c tablefile-msync', 'K1-must-pass', tf.path, 'TableFile::flush msyncs the whole mapping (flush, or flush_range(0, map.len()))', bool(sites), 'no msync of the whole mapping')
        if sites:
            lib.cond_guarded(ctx, '6d tablefile-msync-only-skipped-if-unmapped', tf, sites[0], 'msync skipped only when the file is not mapped', fields=['.TableFile.map'])


def flush_is_not_skipped_wrongly(ctx, p):
    """TableFile::flush is what makes table bytes durable before the logs that describe them are truncated. It syncs the mapping
    whenever there is one. If it may SKIP the sync on the word of a flag ("nothing written since the last flush"), that flag has to
    be right also after a failure: a sync that failed has made nothing durable, so its error edge puts the flag back - otherwise the
    retry (the next cleanup round, or the shutdown path) skips the table and truncates the logs - and every function that writes
    into the mapping raises the flag."""
    F = ctx.F
    b = ctx.body('file::TableFile::flush')
    if not b:
        return
    M = lib.sites_reaching(b, ['re:memmap2::MmapMut::(flush|flush_range)$', 're:MmapMut::(flush|flush_range)$'])
    ctx.ob(p + '0 flush-anchor', 'anchor', b.path, 'TableFile::flush msyncs the mapping', len(M) >= 1, str(M))
    if not M:
        return
    nomap = lib.prune_option_field(b, '.TableFile.map', keep_some=True)
    w = lib.ok_return_unreachable_avoiding(b, M, removed_edges=frozenset(nomap))
    if w is None:
        ctx.ob(p + ' existing-mapping-always-synced', 'K1-must-pass', b.path, 'every successful return of TableFile::flush has synced the mapping if there is one (no skip)', True, '')
        return
    # a skip: which atomic flag of the file decides it?
    flags = set()
    for bi in w:
        t = b.term(bi)
        if t['k'] == 'switch' and op_place(t['a']) is not None:
            sl = backward_slice(b, [op_place(t['a'])])
            for cb_, ct in sl.call_sites:
                if call_matches(ct, lib.ATOMIC_RMW + ['re:Atomic.*::load$']):
                    flags |= set(f for f in lib.receiver_fields(b, ct, 0) if f.startswith('.TableFile.') and f != '.TableFile.map')
    if not flags:
        ctx.ob(p + ' existing-mapping-always-synced', 'K1-must-pass', b.path, 'every successful return of TableFile::flush has synced the mapping if there is one, or the skip is decided by a flag of the file', False,
               'success path without msync: ' + lib.short_path(b, w))
        return
    for fl in sorted(flags):
        # (a) the error edge of the sync raises the flag again
        bad = []
        for m in M:
            errt = lib.result_err_targets(b, m)
            raise_sites = [bi for bi, t in b.calls() if bi in b.normal_blocks() and call_matches(t, lib.ATOMIC_STORE + lib.ATOMIC_RMW) and fl in lib.receiver_fields(b, t, 0)
                           and len(t['a']) > 1 and lib.const_of(b, t['a'][1]) == 1]
            for e in errt:
                if b.find_path([e], b.return_blocks(), removed=set(raise_sites), sensitive=False) is not None:
                    bad.append('the error edge of the sync at %s returns without raising %s again' % (b.loc(m), fl))
            if not errt:
                bad.append('no error edge found for the sync at %s' % b.loc(m))
        ctx.ob(p + 'a skip-flag-restored-when-the-sync-fails %s' % fl.split('.')[-1], 'K1-must-pass', b.path,
               'a flag that lets flush skip the sync is raised again on the error edge of a failed sync (a failed msync made nothing durable: the retry must not skip the file)', not bad, '; '.join(bad))
        # (b) every writer of the mapping raises it
        bad = []
        for wb in [x for x in F.bodies.values() if x.path.startswith('file::TableFile::') and '{closure' not in x.path]:
            cps = []
            for bi, t in wb.calls():
                if bi in wb.normal_blocks() and call_matches(t, ['re:copy_from_slice$', 're:ptr::copy(_nonoverlapping)?$', 're:ptr::write(_bytes)?$']) and t['a'] and op_place(t['a'][0]) is not None:
                    # the destination is (a view of) the mapping, not the caller's buffer
                    dst = backward_slice(wb, [op_place(t['a'][0])])
                    if any(re.search(r'from_raw_parts_mut$|as_mut_ptr$|DerefMut', c) for c in dst.calls) or '.TableFile.map' in dst.fields:
                        cps.append(bi)
            if not cps:
                continue
            rs = [bi for bi, t in wb.calls() if bi in wb.normal_blocks() and call_matches(t, lib.ATOMIC_STORE + lib.ATOMIC_RMW) and fl in lib.receiver_fields(wb, t, 0)]
            for c in cps:
                if lib.ok_return_unreachable_avoiding(wb, rs, sources=[c]) is not None:
                    bad.append('%s writes the mapping at %s without raising %s afterwards' % (wb.path, wb.loc(c), fl))
        ctx.ob(p + 'b every-write-raises-the-skip-flag %s' % fl.split('.')[-1], 'K1-must-pass', 'file::TableFile', 'every function of TableFile that copies bytes into the mapping raises the flag after the copy', not bad, '; '.join(bad))
