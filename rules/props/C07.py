"""C07 - reference-counted columns keep a value exactly while its count is positive (overlay clause)."""
import re
import core, lib
from core import call_matches, call_names, op_place, op_local, backward_slice
from props import shared

LEVEL = 'proof'
FLOOR = 13      # 70% of the 19 obligation instances derived on the tree the rules were last reviewed against
EXPLANATION = ('Counts are runtime arithmetic and are not decided. Decided: dereferences (and references) of counted keys are not mirrored as removals in '
               'the commit overlay; every Set is mirrored under the current commit id; with ref_counted on, a Set on an existing key increments and returns '
               'before any replace/remove, and a Dereference removes only through write_dec_ref.')
EXPLANATION += ' Added: change lists are append-only; value iteration is bounded by the fill mark; the writer-side search verifies the stored key; the handle keeps the stored salt. The counter protocol of change_ref: kept only after the new counter was written and logged, removed only for a tombstone or at zero, written where it was read, +1 / -1 from the two callers.'
ASSUMPTIONS = ['the count arithmetic in ValueTable::change_ref (saturation at LOCKED_REF, the subtraction itself) and the table chain logic are not decided; the protocol around the arithmetic is (rules 7a-7e)', 'unwind edges ignored']
TRUSTED = ['rustc MIR construction (nightly)', 'pdb-facts driver', 'rule engine /verif/rules', 'anchor tables in props/C07.py']


def run(ctx):
    shared.counted_changes_are_all_applied(ctx, '8')
    F = ctx.F
    # 1. removals of counted keys are not mirrored in the overlay
    for fn, ins in (('db::IndexedChangeSet::copy_to_overlay', ['re:HashMap.*::insert$']), ('btree::commit_overlay::BTreeChangeSet::copy_to_overlay', ['re:BTreeMap.*::insert$'])):
        b = ctx.body(fn)
        if not b:
            continue
        none_sites = []
        for bi, t in b.calls():
            if bi in b.normal_blocks() and call_matches(t, ins):
                sl = backward_slice(b, [op_place(t['a'][2])]) if len(t['a']) > 2 and op_place(t['a'][2]) else None
                aggs = [x for l in (sl.locals if sl else []) for (b2, si, kind, x) in b.defs().get(l, []) if kind == 'assign' and x['r']['k'] == 'agg']
                kinds = set(x['r']['ak'] for x in aggs)
                if 'Adt:std::option::Option::None' in kinds and 'Adt:std::option::Option::Some' not in kinds:
                    none_sites.append(bi)
        ctx.ob('1a removal-mirror-site %s' % fn, 'anchor', fn, 'one site mirrors a removal (inserts (id, None))', len(none_sites) == 1, str(none_sites))
        for s in none_sites:
            lib.cond_guarded(ctx, '1b removal-mirrored-only-if-not-counted %s' % fn, b, s,
                             'a Dereference is mirrored as "removed" in the overlay only when the column is not reference counted (a dereference from 2 to 1 must not hide the value)',
                             fields=['.ColumnOptions.ref_counted'], want_edge='zero')
    shared.set_always_mirrored(ctx, '1c')
    # 2. table side under ref_counted
    we = ctx.body('column::Column::write_existing_value_plan')
    if we:
        rc = lib.prune_bool_param(we, 7, True)
        ctx.ob('2a ref_counted-anchored', 'anchor', we.path, 'write_existing_value_plan branches on its ref_counted parameter', len(rc) >= 3, '%d branches' % len(rc))
        reach = we.reachable_from([0], removed_edges=rc)
        def live(pats):
            return [s for s in we.call_sites(*pats) if s in reach]
        inc, dec = live(['table::ValueTable::write_inc_ref']), live(['table::ValueTable::write_dec_ref'])
        bad = live(['table::ValueTable::write_replace_plan', 'table::ValueTable::write_remove_plan', 'table::ValueTable::write_insert_plan'])
        ctx.ob('2b counted-set-increments', 'K1-must-pass', we.path, 'with ref_counted on, the Set and Reference arms reach write_inc_ref', len(inc) == 2, str(inc))
        ctx.ob('2c counted-dereference-decrements', 'K1-must-pass', we.path, 'with ref_counted on, the Dereference arm reaches write_dec_ref', len(dec) == 1, str(dec))
        ctx.ob('2d counted-never-replaces-or-removes-directly', 'K1-must-pass', we.path,
               'with ref_counted on, no direct replace / remove / insert of the value is reachable (removal happens only inside write_dec_ref when the count reaches zero)', not bad, 'reachable: %s' % [we.loc(s) for s in bad])
        # ... and not merely reachable: with ref_counted on, EVERY success path of the Set / Reference arm increments and every success
        # path of the Dereference arm decrements (no extra condition under which an accepted operation leaves the count alone)
        opsw = None
        for bi in we.normal_blocks():
            t = we.term(bi)
            d = lib.switch_def(we, bi)
            if t['k'] == 'switch' and d and d[2] == 'assign' and d[3]['r']['k'] == 'discr' and 'db::Operation<' in str(we.locals[d[3]['r']['p'][0]]):
                opsw = bi
                break
        ctx.ob('2f0 operation-match-anchor', 'anchor', we.path, 'write_existing_value_plan matches on the operation', opsw is not None, '')
        if opsw is not None:
            names = {v['discr']: v['name'] for v in F.adts['db::Operation']['variants']}
            arms = dict(zip(we.term(opsw)['vals'], we.term(opsw)['ts']))
            for v, nm in sorted(names.items()):
                if nm not in ('Set', 'Reference', 'Dereference') or v not in arms:
                    continue
                tg = inc if nm != 'Dereference' else dec
                w = we.find_path([arms[v]], we.return_blocks(), removed=set(tg) | core.error_exit_blocks(we) | {opsw}, removed_edges=rc)
                ctx.ob('2f counted-%s-always-changes-the-count' % nm, 'K1-must-pass', we.path,
                       'with ref_counted on, every success path of the %s arm passes %s' % (nm, 'write_inc_ref' if nm != 'Dereference' else 'write_dec_ref'),
                       w is None and bool(tg), '' if w is None else 'success path that leaves the count alone: ' + lib.short_path(we, w))
    wd = ctx.body('table::ValueTable::write_dec_ref')
    if wd:
        cr = wd.call_sites('table::ValueTable::change_ref')
        rm = wd.call_sites('table::ValueTable::write_remove_plan')
        for s in rm:
            lib.result_guards(ctx, '2e remove-only-when-count-reaches-zero', wd, cr, s, 'write_dec_ref removes the value only depending on the result of change_ref (count reached zero)')

    # 3. "all in commit order": every accepted operation is appended to the commit's change list, and the list is only ever appended to
    VEC_MUT = re.compile(r'(Vec<.*>|Vec::<.*>|slice::<impl \[T\]>|\[T\]>?)::(pop|remove|swap_remove|truncate|clear|retain|retain_mut|dedup|dedup_by|dedup_by_key|drain|insert|sort_unstable|sort_unstable_by|sort_unstable_by_key|sort_by|sort_by_key|sort_by_cached_key|sort|reverse|swap|rotate_left|rotate_right|split_off|append|extend|extend_from_slice|resize|fill|iter_mut|last_mut|first_mut|get_mut|as_mut_slice|splice|extract_if|select_nth_unstable)$|^std::mem::(take|replace|swap)$')
    STABLE_SORT_OK = {'btree::commit_overlay::BTreeChangeSet::write_plan': r'slice::<impl \[T\]>::sort$'}   # stable sort by key keeps the commit order of operations on one key
    for cs, pushfn in (('.IndexedChangeSet.changes', 'db::IndexedChangeSet::push'), ('.BTreeChangeSet.changes', 'btree::commit_overlay::BTreeChangeSet::push')):
        bad = []
        npush = 0
        for b in F.bodies.values():
            for bi, t in b.calls():
                nm = t.get('r') or t.get('f') or ''
                if not t['a'] or op_place(t['a'][0]) is None:
                    continue
                if re.search(r'Vec.*::push$', nm) and cs in lib.receiver_fields(b, t, 0):
                    npush += 1
                    continue
                if VEC_MUT.search(nm) and cs in lib.receiver_fields(b, t, 0):
                    if b.path in STABLE_SORT_OK and re.search(STABLE_SORT_OK[b.path], nm):
                        continue
                    bad.append('%s in %s at %s' % (nm, b.path, b.loc(bi)))
        ctx.ob('3a change-list-append-only %s' % cs, 'K4-confinement', cs,
               'the list of operations of a commit is only appended to (no pop/remove/truncate/reorder anywhere in the crate; the btree write plan may stable-sort it by key): operations are applied in commit order, none is cancelled', not bad and npush >= 1, '; '.join(bad) or 'pushes: %d' % npush)
        pb = ctx.body(pushfn)
        if pb:
            sites = lib.must_sites(pb, ['re:Vec.*::push$'])
            sites = [x for x in sites if True]
            lib.must_pass(ctx, '3b every-accepted-operation-is-recorded %s' % pushfn, pb, sites,
                          'every success return of the change-set push has appended the operation (no operation is accepted and dropped)')

    # value iteration reads every visited slot through the log overlay (it sees logged removals, counter changes and reused slots),
    # so it must also visit the slots that logged-but-not-yet-enacted records APPENDED: the walk is bounded by the fill mark
    # (advanced when a record is planned), not only by `written` (advanced when the header is enacted). Otherwise a commit shows
    # up half: its removals and counters are reported, its new values are not.
    iw = ctx.body('table::ValueTable::iter_while')
    if iw:
        rng = [st for bi in iw.normal_blocks() for st in iw.blocks[bi]['s'] if st['k'] == 'assign' and st['r']['k'] == 'agg' and str(st['r']['ak']).endswith('ops::Range')]
        fl = set()
        for st in rng:
            for a in st['r']['a']:
                if op_place(a) is not None:
                    fl |= backward_slice(iw, [op_place(a)]).fields
        ctx.ob('4a iteration-bounded-by-fill-mark', 'K4-provenance', iw.path,
               'the slot range walked by value iteration derives from ValueTable.filled (slots appended by logged records are visited), not from `written` alone',
               bool(rng) and '.ValueTable.filled' in fl, 'range derives from %s' % sorted(f for f in fl if 'ValueTable' in f))
    # 5. a counted operation lands on the key it names
    shared.index_hit_verified_against_key(ctx, '5')
    shared.one_salt_per_handle(ctx, '6')
    counter_protocol(ctx, '7')


def counter_protocol(ctx, p):
    """The counter of a stored value is read, changed and written back by ValueTable::change_ref. The arithmetic (saturation at
    LOCKED_REF) is a value property and is not decided; the protocol around it is in the shape of the code:
    a  `Ok(true)` ("still referenced, entry kept") is returned only after the new counter was written into the entry buffer and the
       buffer was logged (write_rc, then LogWriter::insert_value): a path that returns true without them forgets a reference;
    b  `Ok(false)` ("gone: remove the entry") is returned only for a tombstone or on the zero edge of a comparison of the new counter
       with 0: any other false removes a value that is still referenced;
    c  the number written back derives from the number read (read_rc) and from `delta`;
    d  it is written where it was read: the buffer offset is restored (set_offset) from an offset taken BEFORE read_rc;
    e  write_inc_ref / write_dec_ref ask for +1 / -1."""
    F = ctx.F
    cr = ctx.body('table::ValueTable::change_ref')
    if not cr:
        return
    E = r'^table::Entry::<.*>::'
    rd = lib.sites_reaching(cr, ['re:' + E + 'read_rc$'])
    wr = lib.sites_reaching(cr, ['re:' + E + 'write_rc$'])
    so = lib.sites_reaching(cr, ['re:' + E + 'set_offset$'])
    off = cr.call_sites('re:' + E + 'offset$')
    lg = lib.sites_reaching(cr, ['re:^log::LogWriter::<.*>::insert_value$'])
    ctx.ob(p + '0 counter-anchor', 'anchor', cr.path, 'change_ref reads the counter, restores the offset, writes the counter and logs the entry',
           len(rd) == 1 and len(wr) >= 1 and len(so) >= 1 and len(lg) >= 1 and len(off) >= 1, 'read_rc %s write_rc %s set_offset %s offset %s insert_value %s' % (rd, wr, so, off, lg))
    if not (len(rd) == 1 and wr and so and lg and off):
        return
    # result blocks: `_0 = Ok(const b)`
    res = {True: [], False: []}
    for bi in cr.normal_blocks():
        for st in cr.blocks[bi]['s']:
            if st['k'] == 'assign' and st['p'] == [0] and st['r']['k'] == 'agg' and st['r']['ak'].endswith('Result::Ok') and st['r']['a']:
                c = lib.const_of(cr, st['r']['a'][0])
                if c in (0, 1):
                    res[bool(c)].append(bi)
    ctx.ob(p + '1 result-anchor', 'anchor', cr.path, 'change_ref returns constant Ok(true) / Ok(false) results', len(res[True]) >= 1 and len(res[False]) >= 1, 'true at %s, false at %s' % (res[True], res[False]))
    # a: every path from entry to an Ok(true) block passes write_rc and then insert_value
    for n, t in enumerate(res[True]):
        w1 = cr.find_path([0], {t}, removed=set(wr))
        ok = w1 is None
        w2 = None
        if ok:
            for w_ in wr:
                w2 = w2 or cr.find_path(list(cr.succ(w_)), {t}, removed=set(lg))
            ok = w2 is None
        if not ok:
            # a counter that is pinned at LOCKED_REF never changes: returning "kept" for it without rewriting the entry is the same behaviour
            LOCKED = (F.consts.get('table::LOCKED_REF') or {}).get('i')
            for (sw, yes, no) in cr.control_deps(t):
                pol = lib.eq_polarity(cr, sw)
                if pol and LOCKED is not None:
                    eq_t, ne_t, ops = pol
                    if LOCKED in [lib.const_of(cr, o) for o in ops] and eq_t in yes and ne_t in no and \
                       any(any(re.search(r'read_rc$', c) for c in backward_slice(cr, [op_place(o)]).calls) for o in ops if op_place(o) is not None):
                        ok = True
        ctx.ob(p + 'a kept-only-after-counter-logged #%d' % n, 'K1-must-pass', cr.path, 'Ok(true) is returned only after write_rc and a following LogWriter::insert_value (or for a counter equal to LOCKED_REF, which never changes)', ok,
               '' if ok else 'path to Ok(true) that skips them: ' + lib.short_path(cr, w1 or w2), cr.loc(t))
    # b: Ok(false) only for a tombstone or on the zero edge of `counter == 0`
    for n, f in enumerate(res[False]):
        why = None
        for (sw, yes, no) in cr.control_deps(f):
            t = cr.term(sw)
            d = lib.switch_def(cr, sw)
            if d and d[2] == 'call' and call_matches(d[3], ['re:' + E + 'is_tombstone$']) and t['k'] == 'switch' and t['ts'][-1] in yes:
                why = 'tombstone'
            pol = lib.eq_polarity(cr, sw)
            if pol:
                eq_t, ne_t, ops = pol
                if 0 in [lib.const_of(cr, o) for o in ops] and eq_t in yes and ne_t in no:
                    sls = [backward_slice(cr, [op_place(o)]) for o in ops if op_place(o) is not None]
                    if any(any(re.search(r'read_rc$', c) for c in sl.calls) for sl in sls):
                        why = why or 'counter == 0'
            # the arithmetic may live in a pure helper `fn(counter, delta) -> Option<u32>`: Ok(false) on its None edge, where the
            # helper answers None only on the equal edge of (new counter == 0) of a value derived from its parameters
            if why is None and t['k'] == 'switch' and d and d[2] == 'assign' and d[3]['r']['k'] == 'discr':
                src = d[3]['r']['p'][0]
                sd = cr.defs().get(src, [])
                if len(sd) == 1 and sd[0][2] == 'call' and 'Option<' in sd[0][3].get('rty', '') and (0 in t.get('vals', []) or t.get('vals') == [1]):
                    # (`let Some(x) = f() else { .. }` tests for Some and leaves None to the otherwise edge)
                    none_t = t['ts'][t['vals'].index(0)] if 0 in t['vals'] else t['ts'][-1]
                    hn = [x for x in call_names(sd[0][3]) if x in F.bodies]
                    fed = any(any(re.search(r'read_rc$', c) for c in backward_slice(cr, [op_place(a)]).calls) for a in sd[0][3]['a'] if op_place(a) is not None)
                    if hn and fed and none_t in yes:
                        hb = F.bodies[hn[0]]
                        nones = [bi for bi in hb.normal_blocks() for st in hb.blocks[bi]['s']
                                 if st['k'] == 'assign' and st['p'] == [0] and st['r']['k'] == 'agg' and st['r']['ak'].endswith('Option::None')]
                        good = bool(nones)
                        for nb_ in nones:
                            g = False
                            for (sw2, yes2, no2) in hb.control_deps(nb_):
                                pol2 = lib.eq_polarity(hb, sw2)
                                if pol2 and 0 in [lib.const_of(hb, o) for o in pol2[2]] and pol2[0] in yes2 and pol2[1] in no2:
                                    sl2 = [backward_slice(hb, [op_place(o)]) for o in pol2[2] if op_place(o) is not None]
                                    if any(x.params for x in sl2):
                                        g = True
                            good = good and g
                        if good:
                            why = 'counter == 0 (in %s)' % hn[0]
        ctx.ob(p + 'b removed-only-at-zero #%d' % n, 'K3-guard', cr.path, 'Ok(false) is returned only for a tombstone or on the equal edge of (new counter == 0)', why is not None, str(why), cr.loc(f))
    # c: the number written derives from the number read and from delta
    dl = [l for l, nm in cr.names.items() if nm == 'delta' and 1 <= l <= cr.argc]
    for n, w_ in enumerate(wr):
        a = cr.term(w_)['a']
        sl = backward_slice(cr, [op_place(x) for x in a[1:] if op_place(x) is not None]) if len(a) > 1 else None
        ok = bool(sl) and any(re.search(r'read_rc$', c) for c in sl.calls) and bool(dl) and (set(dl) & sl.params)
        ctx.ob(p + 'c written-counter-derives-from-read-counter-and-delta #%d' % n, 'K9-provenance', cr.path, 'the argument of write_rc is computed from the result of read_rc and the delta parameter', ok, '', cr.loc(w_))
    # d: the offset restored before write_rc was taken before read_rc
    for n, w_ in enumerate(wr):
        doms = [s for s in so if cr.dominates(s, w_)]
        ok = False
        for s in doms:
            a = cr.term(s)['a']
            r = lib.root_local(cr, a[1]) if len(a) > 1 else None
            srcs = [o for o in off if cr.term(o).get('d') and cr.term(o)['d'][0] == r]
            if srcs and all(cr.dominates(o, rd[0]) for o in srcs) and rd[0] in cr.reaches(s) is False:
                pass
            if srcs and all(cr.dominates(o, rd[0]) for o in srcs) and cr.dominates(rd[0], s):
                ok = True
        ctx.ob(p + 'd counter-written-where-it-was-read #%d' % n, 'K9-provenance', cr.path,
               'write_rc is dominated by a set_offset whose argument is the buffer offset taken before read_rc (reading moves the offset past the counter)', ok, 'set_offset sites dominating: %s' % doms, cr.loc(w_))
    # e: callers ask for +1 / -1
    for fn, want in (('table::ValueTable::write_inc_ref', 1), ('table::ValueTable::write_dec_ref', -1)):
        b = ctx.body(fn)
        if not b:
            continue
        cs = b.call_sites('table::ValueTable::change_ref')
        vals = []
        for s in cs:
            a = b.term(s)['a']
            c = lib.const_of(b, a[2]) if len(a) > 2 else None
            if c is not None and c >= (1 << 31):
                c -= (1 << 32)
            vals.append(c)
        ctx.ob(p + 'e delta-sign %s' % fn, 'K8-const', fn, '%s calls change_ref with delta %d' % (fn.split('::')[-1], want), len(cs) >= 1 and all(v == want for v in vals), 'deltas %s' % vals)
