"""Obligation families shared by several properties (C01/C05/C02/C11/C15...). Each function records
obligations under the calling property's id (ctx.prop) with the given key prefix."""
import re
import core, lib
from core import call_matches, call_names, op_place, op_local, backward_slice

PUSH_BACK = 'std::collections::VecDeque::<T, A>::push_back'
COPY_IDX = 'db::IndexedChangeSet::copy_to_overlay'
COPY_BT = 'btree::commit_overlay::BTreeChangeSet::copy_to_overlay'
CLEAN_IDX = 'db::IndexedChangeSet::clean_overlay'
CLEAN_BT = 'btree::commit_overlay::BTreeChangeSet::clean_overlay'
APPLIERS = ['column::Column::enact_plan', 'column::HashColumn::drop_index', 'column::HashColumn::drop_ref_count']
REMOVE_ENTRY = ['re:OccupiedEntry.*::(remove_entry|remove)$']


def queue_push_sites(body):
    return [bi for b, bi in lib.calls_on_field(body.facts, [PUSH_BACK, 're:VecDeque.*::(push_front|insert|extend)$'], '.CommitQueue.commits', bodies=[body])]


def publish_before_ack(ctx, p):
    F = ctx.F
    cr = ctx.body('db::DbInner::commit_raw')
    if cr:
        push = queue_push_sites(cr)
        lib.must_pass(ctx, p + 'a commit_raw-queues-the-commit', cr, push,
                      'every successful return of commit_raw has pushed the commit onto CommitQueue.commits (else it is never persisted)')
        lib.flush_loop_precedes(ctx, p + 'b hash-changes-published-before-queueing', cr, '.CommitChangeSet.indexed', [COPY_IDX], push,
                                'a complete loop over commit.indexed calling copy_to_overlay (error -> return) precedes the queue push')
        lib.flush_loop_precedes(ctx, p + 'c btree-changes-published-before-queueing', cr, '.CommitChangeSet.btree_indexed', [COPY_BT], push,
                                'a complete loop over commit.btree_indexed calling copy_to_overlay (error -> return) precedes the queue push')
        # the queued Commit carries the id its overlay entries were tagged with
        aggs = [(bi, s) for bi in cr.normal_blocks() for s in cr.blocks[bi]['s'] if s['k'] == 'assign' and s['r']['k'] == 'agg' and s['r']['ak'] == 'Adt:db::Commit']
        ok = False
        det = 'no Commit aggregate'
        if aggs:
            adt = F.adts['db::Commit']
            ii = [f['name'] for f in adt['variants'][0]['fields']].index('id')
            idop = aggs[0][1]['r']['a'][ii]
            ids = backward_slice(cr, [op_place(idop)], through_calls=False).locals if op_place(idop) else set()
            ok = bool(ids)
            det = ''
            for s in cr.call_sites(COPY_IDX, COPY_BT):
                a = cr.term(s)['a'][2]
                al = backward_slice(cr, [op_place(a)], through_calls=False).locals if op_place(a) else set()
                if not (ids & al):
                    ok = False
                    det = 'copy_to_overlay at %s tags overlay entries with an id unrelated to Commit.id' % cr.loc(s)
        ctx.ob(p + 'd commit-id-is-the-published-tag', 'K4-provenance', cr.path,
               'the id stored in the queued Commit is the record_id passed to copy_to_overlay (so clean_overlay(commit.id) removes exactly its entries)', ok, det)
    set_always_mirrored(ctx, p + 'g')
    cc = ctx.body('db::DbInner::commit_changes')
    if cc:
        lib.must_pass(ctx, p + 'e commit_changes-reaches-commit_raw', cc, cc.call_sites('db::DbInner::commit_raw'),
                      'every successful return of commit_changes went through commit_raw')
    c = ctx.body('db::DbInner::commit')
    if c:
        lib.must_pass(ctx, p + 'f commit-reaches-commit_changes', c, c.call_sites('db::DbInner::commit_changes'),
                      'DbInner::commit always goes through commit_changes', cut_errors=False)


def u64_arg_slices(b, site):
    """backward slices of the u64-typed arguments of the call at `site` (record / commit ids are the only u64 arguments of the
    overlay publication and cleaning functions)"""
    res = []
    for a in b.term(site)['a']:
        pl = op_place(a)
        if pl is not None and len(pl) == 1 and str(b.locals[pl[0]]) == 'u64':
            res.append(backward_slice(b, [pl]))
        elif pl is not None and len(pl) > 1:
            sl = backward_slice(b, [pl])
            if any(f.endswith('.id') for f in sl.fields):
                res.append(sl)
    return res


def id_forwarded(F, helper, inner_pats):
    """in a helper that wraps the overlay functions: every u64 argument it hands to them is one of its own parameters"""
    hb = F.body(helper)
    if hb is None:
        return True
    for s in lib.sites_reaching(hb, inner_pats):
        for sl in u64_arg_slices(hb, s):
            if not sl.params:
                return False
    return True


def handover_order(ctx, p):
    F = ctx.F
    pc = ctx.body('db::DbInner::process_commits')
    if pc:
        er = pc.call_sites('log::Log::end_record')
        # directly, or through a helper that cleans both kinds; the deferral branch (defer_commit) is judged on its own below
        cl = [x for x in lib.sites_reaching(pc, [CLEAN_IDX, CLEAN_BT]) if not call_matches(pc.term(x), ['db::DbInner::defer_commit'])]
        ctx.ob(p + 'a process_commits-anchors', 'anchor', pc.path, 'process_commits ends the record once and cleans the commit overlay afterwards', len(er) == 1 and len(cl) >= 1, 'end_record %s clean %s' % (er, cl))
        lib.precedes(ctx, p + 'b logged-before-overlay-cleaned', pc, er, cl,
                     'commit-overlay entries are removed only after Log::end_record published the record into the log overlay')
        for s in cl:
            lib.result_guards(ctx, p + 'c clean-only-if-end_record-ok', pc, er, s, 'clean_overlay runs only on the Ok outcome of end_record')
        # the id handed to clean_overlay is the commit's id (not the log record id)
        bad = None
        for s in cl:
            sls = u64_arg_slices(pc, s)
            if not sls:
                bad = 'clean_overlay at %s: no id argument found' % pc.loc(s)
            for sl in sls:
                if '.Commit.id' not in sl.fields:
                    bad = 'clean_overlay at %s is given an id not derived from Commit.id' % pc.loc(s)
                elif any(n in ('log::LogWriter::<\'a>::record_id', 'log::Log::end_record', 'log::Log::begin_record') for n in sl.calls):
                    bad = 'clean_overlay at %s is given an id derived from the log record id' % pc.loc(s)
            for n in core.call_names(pc.term(s)):
                if F.body(n) is not None and n not in (CLEAN_IDX, CLEAN_BT) and not id_forwarded(F, n, [CLEAN_IDX, CLEAN_BT]):
                    bad = 'helper %s does not forward the id it is given' % n
        ctx.ob(p + 'd clean-uses-commit-id', 'K4-provenance', pc.path,
               'clean_overlay is called with the id the entries were tagged with (Commit.id); log record ids come from a different counter', bad is None and bool(cl), bad or '')
    el = ctx.body('db::DbInner::enact_logs')
    if el:
        er = el.call_sites('log::Log::end_read')
        ap = lib.sites_reaching(el, APPLIERS, lift=False)
        if not ap:
            ap = lib.sites_reaching(el, APPLIERS)        # the apply loop was moved into a helper: its call site stands for the five
        napp = len(ap) if len(ap) >= 5 else len(lib.fam_sites(F, el.path, APPLIERS))
        ctx.ob(p + 'e enact_logs-anchors', 'anchor', el.path, 'enact_logs has one end_read call and five applier calls (in it or in a helper it calls)', len(er) == 1 and napp >= 5, 'end_read %s appliers %s' % (er, ap))
        lib.never_after(ctx, p + 'f no-apply-after-end_read', el, er, ap,
                        'no table write (enact_plan/drop) can follow Log::end_read of the record (log-overlay entries are removed only after the bytes are written)')
        st = [bi for bi, t in el.calls() if call_matches(t, lib.ATOMIC_STORE) and '.DbInner.last_enacted' in lib.receiver_fields(el, t, 0)]
        lib.precedes(ctx, p + 'g applied-before-end_read', el, st, er, 'end_read is reached only after the apply loop finished (last_enacted stored)')
    dc = ctx.body('db::DbInner::defer_commit')
    if dc:
        cp = lib.sites_reaching(dc, [COPY_IDX, COPY_BT])
        cl = lib.sites_reaching(dc, [CLEAN_IDX, CLEAN_BT])
        ctx.ob(p + 'h defer_commit-anchors', 'anchor', dc.path, 'defer_commit re-copies and cleans', len(cp) >= 1 and len(cl) >= 1, '%s %s' % (cp, cl))
        lib.flush_loop_precedes(ctx, p + 'i retag-before-untag (hash)', dc, '.CommitChangeSet.indexed', [COPY_IDX], cl,
                                'all hash-column entries are re-published under the new id (complete loop) before any entry of the old id is cleaned')
        lib.flush_loop_precedes(ctx, p + 'i retag-before-untag (btree)', dc, '.CommitChangeSet.btree_indexed', [COPY_BT], cl,
                                'all btree entries are re-published under the new id (complete loop) before any entry of the old id is cleaned')
        lib.never_after(ctx, p + 'j no-copy-after-clean', dc, cl, cp, 'no re-publication after the clean in defer_commit')
        bad = None
        for s in cl:
            sls = u64_arg_slices(dc, s)
            if not sls or any(5 not in sl.params for sl in sls):
                bad = 'clean_overlay at %s is not given the old_id parameter' % dc.loc(s)
            for n in core.call_names(dc.term(s)):
                if F.body(n) is not None and n not in (CLEAN_IDX, CLEAN_BT) and not id_forwarded(F, n, [CLEAN_IDX, CLEAN_BT]):
                    bad = 'helper %s does not forward the id it is given' % n
        ctx.ob(p + 'k defer-clean-uses-old-id', 'K4-provenance', dc.path, 'defer_commit cleans with old_id', bad is None, bad or '')


LOG_OVERLAY_MAPS = ['.LogOverlays.index', '.LogOverlays.value', '.LogOverlays.ref_count', '.IndexLogOverlay.map', '.ValueLogOverlay.map', '.RefCountLogOverlay.map']
COMMIT_OVERLAY_MAPS = ['.CommitOverlay.indexed', '.CommitOverlay.address', '.CommitOverlay.btree_indexed']


def overlay_bound_params(F, maps, skip_prefixes=('log::LogWriter', 'log::LogChange')):
    """{crate function path: {parameter local: set(maps)}} for parameters that are bound, at some call site, to a reference derived
    from one of the shared overlay maps (helpers that receive the map as `&mut HashMap<..>`); fixed point over the call graph."""
    key = ('ovl_bound',) + tuple(maps)
    cache = F.__dict__.setdefault('_ovl_cache', {})
    if key in cache:
        return cache[key]
    bound = {}
    changed = True
    while changed:
        changed = False
        for b in F.bodies.values():
            if b.path.startswith(skip_prefixes):
                continue
            mine = bound.get(b.path, {})
            for bi, t in b.calls():
                cbs = [F.body(n) for n in core.call_names(t) if F.body(n) is not None]
                # closures handed to an iterator adaptor (`maps.iter_mut().for_each(|o| o.map.clear())`) receive the elements
                cbs += [F.body(c) for c in lib.closure_operands(b, t) if F.body(c) is not None]
                for cb in cbs:
                    if cb.path.startswith(skip_prefixes):
                        continue
                    is_closure_arg = cb.kind == 'Closure' and not any(n == cb.path for n in core.call_names(t))
                    srcs = []
                    if is_closure_arg:
                        # every argument of the adaptor call may flow into the closure's parameters
                        srcs = [(pi, a) for a in t['a'] for pi in range(2, cb.argc + 1)]
                    else:
                        srcs = [(i + 1, a) for i, a in enumerate(t['a'])]
                    for pi, a in srcs:
                        pl = op_place(a)
                        if pl is None or pi >= len(cb.locals):
                            continue
                        ty = str(cb.locals[pi])
                        if is_closure_arg:
                            # element closures: only parameters whose type is one of the overlay structs themselves
                            if not re.search(r'(IndexLogOverlay|ValueLogOverlay|RefCountLogOverlay|LogOverlays|CommitOverlay)\b', ty):
                                continue
                        elif 'HashMap<' not in ty and 'BTreeMap<' not in ty and 'LogOverlay' not in ty and 'CommitOverlay' not in ty:
                            continue
                        sl = backward_slice(b, [pl], through_calls=True)
                        got = set(m for m in maps if m in sl.fields)
                        for q in sl.params & set(mine):
                            got |= mine[q]
                        if got and got - bound.get(cb.path, {}).get(pi, set()):
                            bound.setdefault(cb.path, {}).setdefault(pi, set()).update(got); changed = True
    cache[key] = bound
    return bound


def receiver_overlay_maps(F, b, t, maps, bound):
    """the overlay maps argument 0 of the call may derive from (directly, or through a bound parameter)"""
    if not t['a'] or op_place(t['a'][0]) is None:
        return set()
    sl = backward_slice(b, [op_place(t['a'][0])])
    got = set(m for m in maps if m in sl.fields)
    for q in sl.params & set(bound.get(b.path, {})):
        got |= bound[b.path][q]
    return got


def receiver_is_overlay(F, b, t, maps, bound):
    """does argument 0 of the call derive from one of the overlay maps (directly, or through a bound parameter)?"""
    if not t['a'] or op_place(t['a'][0]) is None:
        return None
    sl = backward_slice(b, [op_place(t['a'][0])])
    hit = [m for m in maps if m in sl.fields]
    if hit:
        return hit[0]
    qs = sorted(sl.params & set(bound.get(b.path, {})))
    if qs:
        return '(overlay map parameter _%d)' % qs[0]
    return None


def overlay_entries_replaced_whole(ctx, p, MAPS=None, what='log', key='h log-overlay-entries-replaced-whole', floor=3):
    """an entry of the shared log overlay is never edited in place: publication replaces (tag, data) together, so that the tag
    always names the youngest record that wrote the chunk/value and end_read of an older record leaves it alone. The same holds
    for the commit overlay (tag = commit id, removed by clean_overlay of that commit only)."""
    F = ctx.F
    LOG_OVERLAY_MAPS = MAPS if MAPS is not None else globals()['LOG_OVERLAY_MAPS']
    EDIT = re.compile(r'(HashMap.*::(get_mut|get_many_mut|iter_mut|values_mut|get_or_insert_with)|hash_map::(OccupiedEntry|VacantEntry|Entry).*::(get_mut|into_mut|and_modify|or_insert|or_insert_with|or_insert_with_key|or_default)|hash_map::(IterMut|ValuesMut).*::next'
                      r'|BTreeMap.*::(get_mut|iter_mut|values_mut|range_mut|first_entry|last_entry)|btree_map::(OccupiedEntry|VacantEntry|Entry).*::(get_mut|into_mut|and_modify|or_insert|or_insert_with|or_insert_with_key|or_default)|btree_map::(IterMut|ValuesMut|RangeMut).*::next)$')
    bound = overlay_bound_params(F, LOG_OVERLAY_MAPS)
    bad = []
    nwrite = 0
    for b in sorted(F.bodies.values(), key=lambda x: x.path):
        if b.path.startswith(('log::LogWriter', 'log::LogChange')):
            continue
        for bi, t in b.calls():
            if bi not in b.normal_blocks():
                continue
            nm = t.get('r') or t.get('f') or ''
            if re.search(r'((HashMap|BTreeMap).*::(insert|extend)|Extend<.*>>::extend)$', nm) and receiver_is_overlay(F, b, t, LOG_OVERLAY_MAPS, bound):
                nwrite += 1
                continue
            if not EDIT.search(nm) or 'Vec<' in nm:
                continue
            # entry handles: receiver derives from a HashMap::entry call on an overlay map
            hit = receiver_is_overlay(F, b, t, LOG_OVERLAY_MAPS, bound)
            if hit and ('HashMap' in nm or 'hash_map::' in nm or 'BTreeMap' in nm or 'btree_map::' in nm):
                bad.append('%s on %s in %s at %s' % (nm.split('::')[-1], hit, b.path, b.loc(bi)))
    ctx.ob(p + key, 'K4-confinement', '-',
           'outside the record under construction, entries of the shared %s overlay are only inserted/extended whole (tag and data together) - never looked up mutably or edited in place (a kept older tag would let the clean-up of the older owner drop the younger owner\'s data)' % what,
           not bad and nwrite >= floor, '; '.join(bad[:4]) or 'whole-entry writes: %d' % nwrite)


def owner_id_removal(ctx, p):
    """every removal from a commit-overlay / log-overlay map is guarded by the owner id (record id tag == argument),
    except the wholesale reset at the end of a failed replay."""
    F = ctx.F
    RM = re.compile(r'(OccupiedEntry.*::(remove_entry|remove)|HashMap.*::(remove|remove_entry|clear|retain|drain|extract_if)|BTreeMap.*::(remove|remove_entry|clear|retain|pop_first|pop_last|split_off|extract_if)|std::mem::take|std::mem::replace)$')
    maps = ['.CommitOverlay.indexed', '.CommitOverlay.address', '.CommitOverlay.btree_indexed', '.LogOverlays.index', '.LogOverlays.value', '.LogOverlays.ref_count',
            '.IndexLogOverlay.map', '.ValueLogOverlay.map', '.RefCountLogOverlay.map']
    RESET_OK = {'log::Log::clear_replay_logs': 'replay is over (or failed): the log overlay is emptied wholesale before the logs are cleaned'}
    n = 0
    covered = set()
    bound = overlay_bound_params(F, maps)
    for b in sorted(F.bodies.values(), key=lambda x: x.path):
        if b.path.startswith(('log::LogWriter', 'log::LogChange')):
            continue      # the record being built (local overlays of a LogWriter), not the shared overlays
        for bi, t in b.calls():
            if bi not in b.normal_blocks():
                continue
            nm = t.get('r') or t.get('f') or ''
            if not RM.search(nm) or not t['a']:
                continue
            # the map itself, or a parameter some caller binds to the map (BTreeChangeSet::clean_overlay, helpers)
            h = receiver_is_overlay(F, b, t, maps, bound)
            if not h:
                continue
            hit = [h if not h.startswith('(overlay map parameter') or b.path != CLEAN_BT else '(btree overlay parameter)']
            rk = [k for k in RESET_OK if lib.site_in(F, k, b.path)]
            if rk:
                ctx.ob(p + 'a overlay-reset %s %s' % (b.path, hit[0]), 'K4-confinement', b.path, 'wholesale reset, reviewed: ' + RESET_OK[rk[0]], nm.endswith('::clear'), nm, b.loc(bi))
                continue
            n += 1
            covered |= receiver_overlay_maps(F, b, t, maps, bound)
            # record id parameter of the enclosing function: named record_id
            rid = [l for l, name in b.names.items() if name == 'record_id' and 1 <= l <= b.argc]
            key_ = p + 'a owner-guard %s %s #bb-of-%s' % (b.path, hit[0], nm.split('::')[-1])
            desc_ = 'an overlay entry is removed only if its record-id tag (tuple field 0) equals the record id this call is cleaning for (a later commit\'s newer entry for the same key must survive)'
            if lib.eq_guard_site(b, bi, fields=['.#0'], params=rid[:1] or [3]) is None and rid:
                # generic helper form: the tag is read through a closure parameter (`written_by(e.get()) == record_id`); then every
                # caller must pass a closure that returns tuple field 0 of the entry
                fnp = [l for l in range(1, b.argc + 1) if re.search(r'Fn|impl ', str(b.locals[l])) or str(b.locals[l]).strip() in ('F', 'G', 'W')]
                gs = lib.eq_guard_site(b, bi, params=rid[:1])
                if gs is not None and fnp:
                    pol = lib.eq_polarity(b, gs)
                    sl = backward_slice(b, [op_place(o) for o in pol[2] if op_place(o) is not None]) if pol else None
                    via_closure = sl is not None and any(re.search(r'ops::Fn(Mut|Once)?(<.*>)?::call(_mut|_once)?$', c) for c in sl.calls)
                    tag0 = True
                    ncall = 0
                    for cb in F.bodies.values():
                        for x, t2 in cb.calls():
                            if b.path in call_names(t2):
                                ncall += 1
                                cls = lib.closure_operands(cb, t2)
                                if not cls or not all(F.body(c) is not None and '.#0' in backward_slice(F.body(c), [[0]]).fields for c in cls):
                                    tag0 = False
                    ctx.ob(key_, 'K3-guard', b.path, desc_ + ' [helper form: the tag is read through a closure every caller passes as |entry| entry.0]', via_closure and tag0 and ncall >= 1,
                           'callers %d, closure returns field 0: %s' % (ncall, tag0), b.loc(bi))
                    continue
            lib.eq_guarded(ctx, key_, b, bi,
                           'an overlay entry is removed only if its record-id tag (tuple field 0) equals the record id this call is cleaning for (a later commit\'s newer entry for the same key must survive)',
                           fields=['.#0'], params=rid[:1] or [3])
    need = [['.CommitOverlay.indexed'], ['.CommitOverlay.address'], ['.CommitOverlay.btree_indexed'], ['.LogOverlays.index', '.IndexLogOverlay.map'], ['.LogOverlays.value', '.ValueLogOverlay.map'], ['.LogOverlays.ref_count', '.RefCountLogOverlay.map']]
    missing = [g[0] for g in need if not any(m in covered for m in g)]
    ctx.ob(p + 'b owner-guard-count', 'anchor', '-', 'guarded removal exists for each of the six overlay maps (indexed, address, btree; log index, value, ref-count)', n >= 1 and not missing, 'sites %d, maps without a removal site: %s' % (n, missing))


READ_FNS = [
    # (function, overlay lookup callee patterns, table lookup callee patterns, arm label)
    ('db::DbInner::get', ['db::CommitOverlay::get'], ['column::HashColumn::get'], 'hash'),
    ('db::DbInner::get', ['db::CommitOverlay::btree_get'], ['btree::BTreeTable::get'], 'btree'),
    ('db::DbInner::get_size', ['db::CommitOverlay::get_size'], ['column::HashColumn::get_size'], 'hash'),
    ('db::DbInner::get_size', ['db::CommitOverlay::btree_get'], ['btree::BTreeTable::get'], 'btree'),
    ('db::DbInner::get_node', ['db::CommitOverlay::get_address'], ['column::HashColumn::get_value'], 'node'),
    ('db::DbInner::get_node_children', ['db::CommitOverlay::get_address'], ['column::HashColumn::get_value'], 'node'),
    ('<db::DbTreeReader as db::TreeReader>::get_root', ['db::CommitOverlay::get'], ['column::HashColumn::get'], 'root'),
]


def read_layering(ctx, p):
    F = ctx.F
    for fn, ov, tb, arm in READ_FNS:
        b = ctx.body(fn)
        if not b:
            continue
        ovs = lib.sites_reaching(b, ov)
        tbs = lib.sites_reaching(b, tb)
        k = '%s/%s' % (fn, arm)
        if not ovs or not tbs:
            ctx.ob(p + 'a layering-anchors %s' % k, 'anchor', fn, 'overlay lookup and table lookup sites exist', False, 'overlay sites %s table sites %s' % (ovs, tbs))
            continue
        for s in tbs:
            lib.precedes(ctx, p + 'b overlay-first %s' % k, b, ovs, [s], 'the commit overlay is consulted before the tables on every path')
            lib.held_at(ctx, p + 'c overlay-lock-held %s' % k, b, s, '.DbInner.commit_overlay',
                        'the commit-overlay read guard is still held when the tables are consulted (no gap in which a commit can be cleaned and missed)')
            if arm == 'btree':
                lib.held_at(ctx, p + 'c2 log-overlay-read-lock-held %s' % k, b, s, '.DbInner.log',
                            'a btree lookup walks header -> root -> ... -> leaf: the log-overlay read guard is held across the whole walk (a record published between two node fetches would mix two versions of the tree)')
            # table lookup only when the overlay had no entry: depends on the overlay lookup outcome
            lib.result_guards(ctx, p + 'd tables-only-on-overlay-miss %s' % k, b, ovs, s, 'the table lookup happens only on one outcome (miss) of the overlay lookup')
            # log overlay is handed to the table lookup
            t = b.term(s)
            sl = set()
            for a in t['a']:
                if op_place(a):
                    sl |= backward_slice(b, [op_place(a)]).calls
            # closures capture it instead
            for c in lib.closure_operands(b, t):
                pass
            ok = 'log::Log::overlays' in sl
            if not ok:
                # captured by the closure passed to with_locked: look at the closure aggregate operands
                for a in t['a']:
                    l = op_local(a)
                    for (bi, si, kind, x) in b.defs().get(l, []) if l is not None else []:
                        if kind == 'assign' and x['r']['k'] == 'agg':
                            for o2 in x['r']['a']:
                                if op_place(o2) and 'log::Log::overlays' in backward_slice(b, [op_place(o2)]).calls:
                                    ok = True
            ctx.ob(p + 'e log-overlay-passed %s' % k, 'K4-provenance', fn, 'the table lookup is given the log overlay (Log::overlays()) so logged-but-unapplied bytes shadow file bytes', ok, '')
    # inside the tables: log overlay first, then the mapping
    for fn, q, rd in (('index::IndexTable::get', ['log::LogQuery::with_index'], ['index::IndexTable::chunk_at', 're:IndexTable::(chunk_at|chunks|raw)']),
                      ('ref_count::RefCountTable::get', ['log::LogQuery::ref_count'], ['re:RefCountTable::(chunk_at|chunks|raw)'])):
        b = F.body(fn)
        if not b:
            ctx.ob(p + 'f table-layering-anchor %s' % fn, 'anchor', fn, 'anchor exists', False, 'missing')
            continue
        qs = lib.sites_reaching(b, q)
        ctx.ob(p + 'f log-overlay-query-present %s' % fn, 'K2-order', fn, 'the table read consults the log overlay (LogQuery)', bool(qs), '')


def atomic_publication(ctx, p):
    F = ctx.F
    cr = ctx.body('db::DbInner::commit_raw')
    if cr:
        sites = lib.sites_reaching(cr, [COPY_IDX, COPY_BT]) + queue_push_sites(cr)
        lib.same_guard_at(ctx, p + 'a one-overlay-guard-over-publication', cr, sites, '.DbInner.commit_overlay',
                          'a single commit_overlay write guard is held across every copy_to_overlay call and the queue push (a transaction becomes visible as a unit)', mode='write')
        lib.same_guard_at(ctx, p + 'b queue-mutex-over-publication', cr, sites, '.DbInner.commit_queue',
                          'the commit-queue mutex is held across publication and queueing (ids and queue order agree)')
    dc = ctx.body('db::DbInner::defer_commit')
    if dc:
        sites = lib.sites_reaching(dc, [COPY_IDX, COPY_BT, CLEAN_IDX, CLEAN_BT])
        lib.same_guard_at(ctx, p + 'c one-guard-over-retag', dc, sites, '.DbInner.commit_overlay',
                          'defer_commit re-tags and cleans under one commit_overlay write guard', mode='write')
    er = ctx.body('log::Log::end_record')
    if er:
        PUB = ['re:(Extend.*>::extend|HashMap.*::extend|HashMap.*::insert)$']
        per = {fld: lib.field_effect_sites(er, PUB, fld) for fld in ('.LogOverlays.index', '.LogOverlays.value', '.LogOverlays.ref_count')}
        ext = [x for v in per.values() for x in v]
        # a helper that receives the map (bound parameter) and inserts/extends it counts as the publication site
        bound = overlay_bound_params(F, LOG_OVERLAY_MAPS)
        for bi, t in er.calls():
            cbs = [F.body(n) for n in core.call_names(t) if F.body(n) is not None and n in bound]
            if cbs and bi in er.normal_blocks() and any(op_place(a) is not None and any(m in backward_slice(er, [op_place(a)]).fields for m in LOG_OVERLAY_MAPS) for a in t['a']):
                ext.append(bi)
        ext = sorted(set(ext))
        ctx.ob(p + 'd end_record-anchors', 'anchor', er.path, 'end_record publishes into the three log-overlay maps (directly or through a helper that is given the overlays)', all(per.values()) or len(ext) >= 3, 'publication sites: %s' % ext)
        overlay_entries_replaced_whole(ctx, p)
        lib.same_guard_at(ctx, p + 'e one-guard-over-log-publication', er, ext, '.Log.overlays',
                          'index, value and ref-count chunks of a record enter the log overlay under one write guard', mode='write')
        fl = er.call_sites('log::LogChange::flush_to_file')
        lib.precedes(ctx, p + 'f written-to-log-before-visible', er, fl, ext, 'the record is appended to the log file before it is published in the log overlay')
        for s in ext[:1]:
            lib.result_guards(ctx, p + 'g publish-only-if-append-ok', er, fl, s, 'publication happens only on the Ok outcome of the append')


def wal_confinement(ctx, p):
    """only appliers write persistent table state, and appliers run only from enact_logs on a reader
    obtained from Log::read_next."""
    F = ctx.F
    lib.callers_confined(ctx, p + 'a column-enact-callers', F, ['column::Column::enact_plan'], {'db::DbInner::enact_logs'},
                         'Column::enact_plan is called only from DbInner::enact_logs', required=['db::DbInner::enact_logs'])
    lib.callers_confined(ctx, p + 'b hash/btree-enact-callers', F, ['column::HashColumn::enact_plan', 'btree::BTreeTable::enact_plan'],
                         {'column::Column::enact_plan'}, 'HashColumn/BTreeTable::enact_plan are called only from Column::enact_plan',
                         required=['column::Column::enact_plan'])
    lib.callers_confined(ctx, p + 'c table-enact-callers', F,
                         ['table::ValueTable::enact_plan', 'index::IndexTable::enact_plan', 'ref_count::RefCountTable::enact_plan'],
                         {'column::HashColumn::enact_plan', 'btree::BTreeTable::enact_plan', 'column::Column::enact_plan'},
                         'table-level enact_plan functions are called only from the column appliers',
                         required=['column::HashColumn::enact_plan', 'btree::BTreeTable::enact_plan'])
    lib.callers_confined(ctx, p + 'd table-write-primitive', F, ['file::TableFile::write_at'],
                         {'table::ValueTable::enact_plan', 'table::ValueTable::do_init_with_entry'},
                         'TableFile::write_at (raw mmap write) is called only by the value-table applier (exception: do_init_with_entry writes the btree header of a table file that did not exist before, at column creation)',
                         required=['table::ValueTable::enact_plan'])
    lib.callers_confined(ctx, p + 'e raw-mmap-writers', F, ['std::slice::from_raw_parts_mut', 'core::slice::from_raw_parts_mut', 're:Atomic.*::from_ptr$'],
                         {'file::TableFile::write_at', 'index::IndexTable::enact_plan', 'ref_count::RefCountTable::enact_plan'},
                         'raw mutable views of a mapping (a mutable slice, an atomic cell over an entry) are created only in the three appliers',
                         required=['file::TableFile::write_at', 'index::IndexTable::enact_plan', 'ref_count::RefCountTable::enact_plan'])
    # other ways to mutate a mapping: DerefMut / as_mut_ptr / copy_from_slice through MmapMut
    mm = sorted(F.direct_callers_of('re:memmap2::MmapMut as std::ops::DerefMut>::deref_mut', 're:MmapMut.*::as_mut_ptr$', 're:MmapMut as std::convert::AsMut'))
    allowed = {'index::IndexTable::write_stats', 'file::madvise_random'}
    ctx.ob(p + 'f mmap-derefmut-confined', 'K4-confinement', ','.join(mm), 'safe mutable access to a mapping (DerefMut/as_mut_ptr) is used only for the statistics area and madvise',
           all(lib.confined_through(F, x, allowed) for x in mm), 'unexpected: %s' % sorted(x for x in mm if not lib.confined_through(F, x, allowed)))
    lib.callers_confined(ctx, p + 'g drop_file-callers', F, ['index::IndexTable::drop_file', 'ref_count::RefCountTable::drop_file'],
                         {'column::HashColumn::drop_index', 'column::HashColumn::drop_ref_count'},
                         'index / ref-count files are unlinked only by drop_index / drop_ref_count', required=['column::HashColumn::drop_index', 'column::HashColumn::drop_ref_count'])
    lib.callers_confined(ctx, p + 'h drop_index-callers', F, ['column::HashColumn::drop_index', 'column::HashColumn::drop_ref_count'],
                         {'db::DbInner::enact_logs'}, 'drop_index / drop_ref_count run only when a logged DropTable record is enacted', required=['db::DbInner::enact_logs'])
    mk = sorted(b.path for b in F.bodies.values()
                if any(s['k'] == 'assign' and s['r']['k'] == 'agg' and s['r']['ak'] == 'Adt:log::LogReader' for blk in b.blocks for s in blk['s']))
    ctx.ob(p + 'i logreader-constructed-once', 'K4-confinement', ','.join(mk), 'LogReader values are built only in LogReader::new', mk == ["log::LogReader::<'a>::new"], str(mk))
    lib.callers_confined(ctx, p + 'j logreader-new-callers', F, ["log::LogReader::<'a>::new"], {'log::Log::read_next'},
                         'LogReader::new is called only by Log::read_next', required=['log::Log::read_next'])
    lib.callers_confined(ctx, p + 'k read_next-callers', F, ['log::Log::read_next'], {'db::DbInner::enact_logs'},
                         'Log::read_next is called only by DbInner::enact_logs', required=['db::DbInner::enact_logs'])


def queue_discipline(ctx, p):
    """FIFO discipline of the pipeline queues: producers push at the back, consumers take from the front."""
    F = ctx.F
    import re
    ALLOWED = re.compile(r'(VecDeque.*::(push_back|pop_front|len|is_empty|front|front_mut|iter|drain|make_contiguous|new|default|extend)$|Deref|RwLock.*::(read|write)$|Mutex.*::lock$|IntoIterator|Extend.*>::extend$|Default>::default$|Index.*::index$)')
    for field in ('.Log.read_queue', '.Log.cleanup_queue', '.Log.replay_queue', '.CommitQueue.commits'):
        bad = []
        n = 0
        def drains_of(b):
            return [bi for bi, t in b.all_calls() if (t.get('r') or t.get('f') or '').endswith('::drain') and t['a'] and field in lib.receiver_fields(b, t, 0)]
        def restores(b, bi, t):
            """un-taking: entries this function drained from the FRONT of the queue and could not process are put back at the front,
            walking them in reverse so that they end up in their original order (the error path of a consumer)"""
            dr = drains_of(b)
            if not dr or len(t['a']) < 2 or op_place(t['a'][1]) is None:
                return False
            sl = backward_slice(b, [op_place(t['a'][1])])
            from_drained = any(x in dr for x, _ in sl.call_sites)
            reversed_walk = any((t2.get('r') or t2.get('f') or '').endswith('::rev') for x, t2 in sl.call_sites)
            return from_drained and reversed_walk
        for b in F.bodies.values():
            for bi, t in b.all_calls():
                if not t['a']:
                    continue
                nm = t.get('r') or t.get('f') or ''
                if 'VecDeque' not in nm:
                    continue
                if field in lib.receiver_fields(b, t, 0):
                    n += 1
                    if nm.endswith('::push_front') and restores(b, bi, t):
                        continue
                    if not ALLOWED.search(nm):
                        bad.append('%s calls %s at %s' % (b.path, nm, b.loc(bi)))
                    if nm.endswith('::drain'):
                        # the range must start at 0 (front)
                        sl = backward_slice(b, [op_place(t['a'][1])]) if len(t['a']) > 1 and op_place(t['a'][1]) else None
                        aggs = [x for l in (sl.locals if sl else []) for (b2, si, kind, x) in b.defs().get(l, []) if kind == 'assign' and x['r']['k'] == 'agg' and 'Range' in x['r']['ak']]
                        okr = any((x['r']['ak'].endswith('RangeFull')) or (x['r']['a'] and x['r']['a'][0].get('i') == 0 and 'RangeFrom' in x['r']['ak']) or
                                  (x['r']['a'] and x['r']['a'][0].get('i') == 0) for x in aggs)
                        if not okr:
                            bad.append('%s drains %s from a non-zero start at %s' % (b.path, field, b.loc(bi)))
        # collections drained from the queue keep the queue order while they are processed
        REORDER = re.compile(r'(::pop$|::rev$|::reverse$|::sort|::swap$|::swap_remove$|::remove$|::split_off$|::rotate_|::select_nth|::retain)')
        for b in F.bodies.values():
            drains = [bi for bi, t in b.all_calls() if (t.get('r') or t.get('f') or '').endswith('::drain') and t['a'] and field in lib.receiver_fields(b, t, 0)]
            if not drains:
                continue
            for bi, t in b.all_calls():
                nm = t.get('r') or t.get('f') or ''
                if REORDER.search(nm) and t['a'] and op_place(t['a'][0]) is not None:
                    sl = backward_slice(b, [op_place(t['a'][0])])
                    if nm.endswith('::rev') and any((t2.get('r') or t2.get('f') or '').endswith('::push_front') and restores(b, x2, t2) for x2, t2 in b.all_calls()):
                        continue      # the reversed walk that feeds the restoring push_front
                    if any(x in drains for x, _ in sl.call_sites):
                        bad.append('%s processes the entries drained from %s out of order (%s at %s)' % (b.path, field, nm, b.loc(bi)))
        ctx.ob(p + 'a fifo %s' % field, 'K4-confinement', '-', 'the queue %s is used strictly FIFO (push_back / pop_front / drain from index 0); no split_off, pop_back, push_front, insert, sort' % field,
               not bad and n >= 2, '; '.join(bad[:3]) or '%d uses' % n)




def replay_order(ctx, p):
    F = ctx.F
    # replay order: by first record id
    lo = ctx.body('log::Log::open')
    if lo:
        srt = [(bi, t) for bi, t in lo.calls() if call_matches(t, ['re:slice::<impl \\[T\\]>::sort', 're:::sort(_unstable)?(_by(_key)?)?$'])]
        ok = False
        det = 'no sort of the replay queue'
        for bi, t in srt:
            cls = lib.closure_operands(lo, t)
            for c in cls:
                cb = F.body(c)
                flds = backward_slice(cb, [0]).fields
                ok = '.#1' in flds and '.#0' not in flds and '.#2' not in flds
                det = 'sort key closure returns a value derived from %s' % sorted(flds)
        ctx.ob(p + 'j replay-in-record-id-order', 'K3-guard', lo.path, 'log files found at open are replayed ordered by the id of their first record (tuple field 1), not by file number', ok, det)
        rmv = lo.call_sites('std::fs::remove_file')
        for s in rmv:
            lib.cond_guarded(ctx, p + 'k only-empty-logs-deleted-at-open', lo, s, 'a log file is deleted at open only depending on open_log_file reporting no first record', calls=['log::Log::open_log_file'])




def set_always_mirrored(ctx, p):
    """every Set of a transaction is mirrored in the commit overlay tagged with this commit's id
    (an entry left with an older tag is removed when the older commit is processed)."""
    F = ctx.F
    for fn, fld, ins in (('db::IndexedChangeSet::copy_to_overlay', '.IndexedChangeSet.changes', ['re:HashMap.*::insert$']),
                         ('btree::commit_overlay::BTreeChangeSet::copy_to_overlay', '.BTreeChangeSet.changes', ['re:BTreeMap.*::insert$'])):
        b = ctx.body(fn)
        if not b:
            continue
        loops = lib.for_loops_over(b, fld)
        sites = [bi for bi, t in b.calls() if bi in b.normal_blocks() and call_matches(t, ins)]
        ok = False
        det = 'no loop over %s' % fld
        for lp in loops:
            found, w = lib.loop_arm_must_call(b, lp, 'Operation<', 0, sites)
            if found:
                ok = w is None
                det = '' if ok else 'a Set operation can be skipped: ' + lib.short_path(b, w)
        ctx.ob(p + ' set-always-published %s' % fn, 'K2-loop-order', fn,
               'on the Set arm every iteration inserts the key into the commit overlay under the current commit id (no skip for keys already present)', ok, det)


RAW_READERS = ['file::TableFile::read_at', 'file::TableFile::slice_at', 're:(index::IndexTable|ref_count::RefCountTable)::(chunk_at|chunk_entries_at)$']
LOGQUERY = ['re:^log::LogQuery::', 're:as log::LogQuery>::']
# raw readers that bypass the log overlay on purpose (function -> reason)
UNSHADOWED_OK = {
    'table::ValueTable::open': 'opening a table file: runs before / during Db open, nothing is logged yet for this handle',
    'table::ValueTable::init_table_data': 'startup (after replay and log cleanup): rebuilds the in-memory free list from the file',
    'table::ValueTable::refresh_metadata': 'startup, right after replay: re-reads the header from the file',
    'table::ValueTable::check_free_refs': 'offline diagnostic (Db::dump with validate_free_refs)',
    'table::ValueTable::dump_entry': 'diagnostic dump of a corrupted entry',
    'ref_count::RefCountTable::table_entries': 'startup: builds the ref-count cache from the file (HashColumn::init_table_data)',
    'index::IndexTable::sorted_entries': 'offline diagnostic (fast dump)',
}


def file_reads_shadowed(ctx, p):
    """every read of table / index / ref-count bytes at runtime looks in the log overlay first and reads the
    file only on a miss (bytes being rewritten by the applier are always shadowed)."""
    F = ctx.F
    n = 0
    for b in sorted(F.bodies.values(), key=lambda x: x.path):
        sites = b.call_sites(*RAW_READERS)
        if not sites:
            continue
        uk = [k for k in UNSHADOWED_OK if lib.site_in(F, k, b.path)]      # the reviewed function, or a helper/closure reachable only through it
        if not uk and lib.confined_through(F, b.path, set(UNSHADOWED_OK)):
            # a helper shared by several of the reviewed functions and reachable through nothing else
            uk = sorted(k for k in UNSHADOWED_OK if b.path in set(x.path for x in lib.family(F, k)))[:1] or sorted(UNSHADOWED_OK)[:1]
        if uk:
            ctx.ob(p + 'a unshadowed-read-reviewed %s' % b.path, 'K4-confinement', b.path, 'reads file bytes without the overlay by design: ' + UNSHADOWED_OK[uk[0]], True, '')
            continue
        lq = lib.sites_reaching(b, LOGQUERY, lift=False)

        def shadowed_at(cb, s2, depth=2):
            """(overlay queried on every path to s2, s2 depends on the outcome of that query, witness) - in cb itself, or, for a
            helper without a query of its own (`find_in_file`, called by `get` on an overlay miss), at every call of it"""
            lq_ = lib.sites_reaching(cb, LOGQUERY, lift=False)
            if lq_:
                w_ = cb.find_path([0], {s2}, removed=set(lq_))
                g_ = False
                if w_ is None:
                    for (sw, yes, no) in cb.control_deps(s2):
                        t = cb.term(sw)
                        if t['k'] == 'switch' and op_place(t['a']) is not None:
                            sl = backward_slice(cb, [op_place(t['a'])])
                            if any(bi in lq_ for bi, _ in sl.call_sites):
                                g_ = True
                return w_ is None, g_, w_
            callers = [(F.bodies[c], x) for c in sorted(set(F.callers(cb.path))) if c in F.bodies and c != cb.path for x, t in F.bodies[c].calls() if x in F.bodies[c].normal_blocks() and cb.path in call_names(t)]
            if depth == 0 or not callers or '{closure' in cb.path:
                return False, False, ['?']
            res = [shadowed_at(c2, x, depth - 1) for c2, x in callers]
            return all(r[0] for r in res), all(r[1] for r in res), next((r[2] for r in res if not r[0]), None)
        for i, s2 in enumerate(sites):
            n += 1
            ok, guarded, w = shadowed_at(b, s2)
            ctx.ob(p + 'b overlay-first %s #%d' % (b.path, i), 'K2-order', b.path,
                   'the log overlay is queried before the file/mapping is read, and the file read happens only depending on the outcome (miss) of that query', ok and guarded,
                   ('file read reachable without an overlay query: ' + (lib.short_path(b, w) if w and w != ['?'] and lq else '?')) if not ok else 'file read does not depend on the overlay query result', b.loc(s2))
    ctx.ob(p + 'c raw-read-sites', 'anchor', '-', 'the survey found the runtime file-read sites (>= 12 on the pinned tree)', n >= 12, '%d sites' % n)
    # who may touch a mapping at all
    mm = sorted(F.direct_callers_of('re:memmap2::MmapMut as std::ops::Deref>::deref$'))
    allowed = {'file::TableFile::grow', 'file::TableFile::flush', 'file::TableFile::read_at', 'file::TableFile::slice_at::{closure#0}', 'file::TableFile::write_at', 'file::madvise_random',
               'index::IndexTable::chunk_at', 'index::IndexTable::chunk_entries_at', 'index::IndexTable::enact_plan', 'index::IndexTable::flush', 'index::IndexTable::load_stats',
               'ref_count::RefCountTable::chunk_at', 'ref_count::RefCountTable::enact_plan', 'ref_count::RefCountTable::flush'}
    ctx.ob(p + 'd mapping-access-confined', 'K4-confinement', ','.join(mm), 'a memory mapping is dereferenced only in the raw reader / applier / flush primitives', all(lib.confined_through(F, x, allowed) for x in mm), 'unexpected: %s' % sorted(x for x in mm if not lib.confined_through(F, x, allowed)))
    # the startup-only unshadowed readers are called only from startup code
    lib.callers_confined(ctx, p + 'e table_entries-startup-only', F, ['ref_count::RefCountTable::table_entries'], {'column::HashColumn::init_table_data'}, 'RefCountTable::table_entries (unshadowed) is used only by init_table_data')
    lib.callers_confined(ctx, p + 'f refresh_metadata-startup-only', F, ['column::Column::refresh_metadata'], {'db::DbInner::replay_all_logs'}, 'refresh_metadata (unshadowed header read) is used only at the end of replay', required=['db::DbInner::replay_all_logs'])


def sync_before_handover(ctx, p):
    F = ctx.F
    PUSH_BACK = 'std::collections::VecDeque::<T, A>::push_back'
    POP_FRONT = 'std::collections::VecDeque::<T, A>::pop_front'
    SYNC_DATA = 'std::fs::File::sync_data'
    SYNC_ALL = 'std::fs::File::sync_all'
    # ---------------------------------------------------------------- 1. log synced before hand-over
    pushers = lib.calls_on_field(F, [PUSH_BACK, 're:VecDeque.*::(push_front|extend|append|insert)$'], '.Log.read_queue')
    pb = sorted(set(b.path for b, _ in pushers))
    ctx.ob(p + 'a read_queue-producers', 'K4-confinement', ','.join(pb) or '-',
           'only Log::flush_one (or a helper called only by it) hands a log file over to the applier (pushes onto Log.read_queue)',
           bool(pb) and all(reachable_only_through(F, x, 'log::Log::flush_one') for x in pb), 'bodies pushing onto Log.read_queue: %s' % pb)
    fo = ctx.body('log::Log::flush_one')
    if fo:
        sync_true = lib.prune_bool_field(fo, '.Log.sync', True)
        push_sites = [bi for b, bi in pushers if b is fo]
        syncs = lib.must_sites(fo, [SYNC_DATA, SYNC_ALL])
        # the write-out (buffer flush, then fdatasync) may sit in a private helper of flush_one that is handed Log.sync as a flag: the
        # helper then stands for the sync at its call site if, with the flag on, each of its success returns has passed sync_data
        helper = None
        if not syncs:
            fam = set(x.path for x in lib.family(F, fo.path))
            for bi, t in fo.calls():
                if bi not in fo.normal_blocks():
                    continue
                for nm in call_names(t):
                    hb = F.bodies.get(nm)
                    if hb is None or hb.path not in fam or hb is fo or not hb.call_sites(SYNC_DATA, SYNC_ALL):
                        continue
                    for i, a in enumerate(t['a']):
                        if op_place(a) is None or i + 1 >= len(hb.locals) or str(hb.locals[i + 1]) != 'bool' or '.Log.sync' not in backward_slice(fo, [op_place(a)], through_calls=False).fields:
                            continue
                        pe = lib.prune_bool_param(hb, i + 1, True)
                        if pe and lib.ok_return_unreachable_avoiding(hb, hb.call_sites(SYNC_DATA, SYNC_ALL), removed_edges=frozenset(pe)) is None:
                            helper = (hb, frozenset(pe))
                            syncs.append(bi)
        ctx.ob(p + 'b sync-assumption-anchored', 'anchor', fo.path, 'a branch on Log.sync exists to prune (assumption sync_wal=true is meaningful)',
               bool(sync_true) or helper is not None, 'no switch on a copy of Log.sync found in flush_one (or on a flag parameter of its write-out helper that is handed Log.sync)')
        lib.precedes(ctx, p + 'c sync-before-handover', fo, syncs, push_sites,
                     'with sync_wal on, every path to the hand-over push passes File::sync_data', removed_edges=sync_true)
        for ps in push_sites:
            lib.result_guards(ctx, p + 'd handover-only-if-sync-ok', fo, syncs, ps,
                              'the hand-over runs only on the Ok outcome of sync_data (error -> no hand-over)') if syncs else None
        INNER = ['std::io::BufWriter::<W>::into_inner', 're:BufWriter.*::flush$', 're:Write>::flush$']
        if helper is not None:
            hb, pe = helper
            hs = hb.call_sites(SYNC_DATA, SYNC_ALL)
            unchecked = [x for x in hs if not lib.result_err_targets(hb, x)]
            ctx.ob(p + 'd2 helper-reports-a-failed-sync', 'K3-result-checked', hb.path,
                   'in the write-out helper the result of sync_data is looked at: its error outcome leaves through an error exit (the hand-over in flush_one depends on the helper\'s result)',
                   bool(hs) and not unchecked and all(hb.find_path([e], set(core.ok_exit_blocks(hb)), removed=core.error_exit_blocks(hb)) is None for x in hs for e in lib.result_err_targets(hb, x)),
                   'the result of sync_data is dropped' if unchecked else '', hb.loc(hs[0]) if hs else hb.loc())
            lib.precedes(ctx, p + 'e bufwriter-flushed-before-sync', hb, lib.must_sites(hb, INNER), hb.call_sites(SYNC_DATA, SYNC_ALL),
                         'buffered log bytes are written (BufWriter::into_inner/flush) before sync_data', removed_edges=pe)
        else:
            inner = lib.must_sites(fo, INNER)
            lib.precedes(ctx, p + 'e bufwriter-flushed-before-sync', fo, inner, syncs,
                         'buffered log bytes are written (BufWriter::into_inner/flush) before sync_data', removed_edges=sync_true)
    if fo:
        # the sync and the removal of the file from the appending slot form one critical section of the slot's lock: a record appended
        # in between (Log::end_record writes under the same lock) would reach the applier unsynced
        takes = [bi for bi, t in fo.calls() if bi in fo.normal_blocks() and call_matches(t, ['re:Option::<T>::take$', 're:^std::mem::(take|replace)$']) and t['a'] and '.Log.appending' in lib.receiver_fields(fo, t, 0)]
        if syncs and takes:
            lib.same_guard_at(ctx, p + 'h sync-and-takeout-under-one-guard', fo, list(syncs) + takes, '.Log.appending',
                              'one write guard of Log.appending is held from the fdatasync of the appending file to its removal from the slot (no record can be appended between the sync and the hand-over)', mode='write')
        else:
            ctx.ob(p + 'h sync-and-takeout-under-one-guard', 'anchor', fo.path, 'flush_one syncs the appending file and takes it out of its slot', False, 'sync sites %s take sites %s' % (syncs, takes))
    # the same for log files found at open: their bytes may sit only in the page cache (the previous process died, or stopped on an
    # I/O error, before flush_one synced them); replay applies them to the tables, so they are synced first
    rpn = F.body('log::Log::replay_next')
    if rpn is not None:
        pops = [bi for b2, bi in lib.calls_on_field(F, [POP_FRONT, 're:VecDeque.*::(pop_back|remove)$'], '.Log.replay_queue', bodies=[rpn])]
        inst = [x[0] for x in core.stmt_sites_assigning_field(rpn, '.Log.reading')] + [bi for bi in rpn.normal_blocks() for st in rpn.blocks[bi]['s'] if st['k'] == 'assign' and st['r']['k'] == 'agg' and str(st['r']['ak']).endswith('log::Reading')]
        syncs = lib.must_sites(rpn, [SYNC_DATA, SYNC_ALL])
        sync_true = lib.prune_bool_field(rpn, '.Log.sync', True)
        ctx.ob(p + 'g0 replay-handover-anchors', 'anchor', rpn.path, 'replay_next takes a file from the replay queue and installs it as the reader', bool(pops) and bool(inst), '%s %s' % (pops, inst))
        after = [x for x in inst if any(x in rpn.reaches(q) for q in pops)]
        w = rpn.find_path([y for q in pops for y in rpn.succ(q)], set(after), removed=set(syncs), removed_edges=sync_true) if after else ['?']
        ctx.ob(p + 'g replayed-log-synced-first', 'K2-order', rpn.path,
               'with sync_wal on, a log file found at open is fdatasynced before it is handed to the applier (replay writes its records into the tables)',
               bool(syncs) and w is None, 'no sync_data in replay_next' if not syncs else 'the reader can be installed without the sync')
    poppers = lib.calls_on_field(F, [POP_FRONT, 're:VecDeque.*::(pop_back|drain|remove|swap_remove_.*|split_off|clear|truncate)$', 'std::mem::take', 'std::mem::replace'], '.Log.read_queue')
    pp = sorted(set(b.path for b, _ in poppers))
    ctx.ob(p + 'f read_queue-consumers', 'K4-confinement', ','.join(pp) or '-',
           'only Log::read_next (or a helper called only by it) takes files from Log.read_queue', bool(pp) and all(reachable_only_through(F, x, 'log::Log::read_next') for x in pp), 'consumers: %s' % pp)
    # a reader is installed only to be used at once: read_next never reports "nothing to read" (Ok(None)) while leaving a
    # freshly installed, unread file in Log.reading (Log::kill_logs unlinks whatever is in `reading`)
    rn = F.body('log::Log::read_next')
    if rn is not None:
        installs = [bi for bi, t in rn.calls() if bi in rn.normal_blocks() and (call_matches(t, [POP_FRONT]) and '.Log.read_queue' in lib.receiver_fields(rn, t, 0)
                                                                                 or any(x in F.bodies and F.bodies[x].path != rn.path and any(call_matches(t2, [POP_FRONT]) and '.Log.read_queue' in lib.receiver_fields(F.bodies[x], t2, 0) for _, t2 in F.bodies[x].all_calls()) for x in call_names(t)))]
        nones = []
        for bi in rn.normal_blocks():
            for st in rn.blocks[bi]['s']:
                if st['k'] == 'assign' and st['p'] == [0] and st['r']['k'] == 'agg' and st['r']['ak'] == 'Adt:std::result::Result::Ok':
                    sl = backward_slice(rn, [op_place(st['r']['a'][0])], through_calls=False) if op_place(st['r']['a'][0]) else None
                    if sl and any(x[2] == 'assign' and x[3]['r']['k'] == 'agg' and x[3]['r']['ak'] == 'Adt:std::option::Option::None' for l in sl.locals for x in rn.defs().get(l, [])):
                        nones.append(bi)
        takes = [bi for bi, t in rn.calls() if call_matches(t, ['re:Option.*::take$'])]
        w = None
        for i in installs:
            # on the Some(file) outcome of the pop
            w = w or rn.find_path(list(rn.succ(i)), set(nones), removed=set(takes))
        # paths where the pop returned None are fine: refine by requiring the path to pass a `Reading` aggregate
        mk = [bi for bi in rn.normal_blocks() for st in rn.blocks[bi]['s'] if st['k'] == 'assign' and st['r']['k'] == 'agg' and st['r']['ak'] == 'Adt:log::Reading']
        w2 = None
        for m2 in mk:
            w2 = w2 or rn.find_path(list(rn.succ(m2)), set(nones), removed=set(takes))
        helper_installs = [i for i in installs if not call_matches(rn.term(i), [POP_FRONT])]
        w3 = None
        for i in helper_installs:
            # installation inside a helper: after the helper returned, Ok(None) must not be reachable without a take ... unless the helper reported "nothing installed"
            if any(i in rn.reaches(tk) for tk in takes):
                w3 = 'a reader can be installed (via %s at %s) after the exhausted one was taken, on a path that then reports Ok(None)' % (rn.term(i).get('r'), rn.loc(i))
        ctx.ob(p + 'f2 no-unread-reader-left-behind', 'K2-order', rn.path,
               'whenever read_next installs a log file as the current reader, it returns that reader (or an error); it never returns Ok(None) with an unread file left in Log.reading',
               bool(installs) and w2 is None and w3 is None, w3 or ('' if w2 is None else 'path from installing the reader to Ok(None): ' + lib.short_path(rn, w2)))


def reachable_only_through(F, fn, gate):
    """fn is `gate` itself or a helper that is (transitively) called only from `gate`."""
    if fn == gate:
        return True
    seen = {fn}
    stack = [fn]
    while stack:
        x = stack.pop()
        cs = F.callers(x)
        if not cs:
            return False          # a root other than the gate
        for c in cs:
            if c == gate or c in seen:
                continue
            seen.add(c)
            stack.append(c)
    return True


def more_work_signal(ctx, p):
    """process_commits reports `true` whenever it took a commit off the queue - also when it put it back (deferral): the log
    worker and the drain loop of kill_logs stop as soon as it reports `false`, and whatever is queued then is never logged."""
    pc = ctx.body('db::DbInner::process_commits')
    if not pc:
        return
    src = pc.call_sites('db::DbInner::defer_commit') + pc.call_sites('log::Log::end_record')
    ctx.ob(p + 'a more-work-anchors', 'anchor', pc.path, 'process_commits has a deferral site and a logging site', len(src) >= 2, str(src))
    errs = core.error_exit_blocks(pc)
    bad = []
    n = 0
    for s in src:
        reach = pc.reachable_from([s])
        for bi in sorted(reach):
            if bi in errs or bi not in pc.normal_blocks():
                continue
            for st in pc.blocks[bi]['s']:
                if st['k'] == 'assign' and st['p'] == [0] and st['r']['k'] == 'agg' and st['r']['ak'] == 'Adt:std::result::Result::Ok':
                    n += 1
                    a = st['r']['a'][0]
                    if a.get('i') != 1:
                        bad.append('Ok(%s) at %s after the site at %s' % (core.op_str(a), pc.loc(bi), pc.loc(s)))
            t = pc.term(bi)
            if t['k'] == 'call' and t['d'] == [0] and not core.call_matches(t, ['std::ops::FromResidual::from_residual']):
                n += 1
                bad.append('result of %s returned as is at %s' % ((t.get('r') or t.get('f')), pc.loc(bi)))
    ctx.ob(p + 'b took-a-commit-means-more-work', 'K8-const', pc.path,
           'every success return after a commit was logged or re-queued is the constant Ok(true) (the drain loops of log_worker and kill_logs run until Ok(false))', not bad and n >= 2, '; '.join(sorted(set(bad))[:3]) or '%d exits' % n)


def drop_table_idempotent(ctx, p):
    """a logged DropTable names the table it drops; replaying it when that table is already gone must do nothing (the front of the
    reindex queue is then the NEXT table): the pop/unlink is decided by comparing the front entry's id with the id from the record."""
    F = ctx.F
    for fn, idf in (('column::HashColumn::drop_index', '.IndexTable.id'), ('column::HashColumn::drop_ref_count', '.RefCountTable.id')):
        b = ctx.body(fn)
        if not b:
            continue
        pops = [bi for bi, t in b.calls() if bi in b.normal_blocks() and call_matches(t, ['re:VecDeque.*::(pop_front|pop_back|remove|drain|clear|truncate)$']) and '.Reindex.queue' in lib.receiver_fields(b, t, 0)]
        unl = lib.sites_reaching(b, ['index::IndexTable::drop_file', 'ref_count::RefCountTable::drop_file', 're:std::fs::remove_file$'], lift=False)
        ctx.ob(p + 'a drop-anchors %s' % fn, 'anchor', fn, 'the function dequeues the table and unlinks its file', len(pops) >= 1 and len(unl) >= 1, '%s %s' % (pops, unl))
        for s in pops + unl:
            calls, fields, binops = lib.guard_influences(b, s)
            ok = False
            det = 'no comparison of the queued table id with the id argument decides this effect'
            cands = [b] + [F.body(c) for c in lib.deep_calls(F, calls) if F.body(c) is not None and (c.startswith(fn + '::{closure') or c in calls)]
            for cb in cands:
                for bi, t in cb.calls():
                    if not call_matches(t, ['re:PartialEq>::(eq|ne)$', 'std::cmp::PartialEq::eq', 'std::cmp::PartialEq::ne']) or len(t['a']) < 2:
                        continue
                    sl = [backward_slice(cb, [op_place(a)]) if op_place(a) else None for a in t['a'][:2]]
                    if any(x is None for x in sl):
                        continue
                    for x, y in ((sl[0], sl[1]), (sl[1], sl[0])):
                        from_queue = idf in x.fields
                        # the other side: the `id` argument of the function (param 2) or a closure capture of it
                        from_arg = (cb is b and 2 in y.params) or (cb is not b and any(f.startswith('.^') for f in y.fields) and idf not in y.fields)
                        if from_queue and from_arg:
                            ok = True
            ctx.ob(p + 'b drop-decided-by-table-id %s #%s' % (fn, 'dequeue' if s in pops else 'unlink'), 'K3-guard', fn,
                   'the table is dequeued / unlinked only when the id of the queue front equals the id named by the log record (replay of a DropTable whose table is already gone is a no-op)', ok, det, b.loc(s))


def index_insert_retried(ctx, p):
    """IndexTable/RefCountTable::write_insert_plan inserts nothing when it answers NeedReindex (chunk full / address too large).
    Every call that can be a fresh insert (position argument not a literal Some) therefore either sits in a retry loop that
    grows the index (trigger_reindex), or inspects the outcome and returns to a caller that does."""
    F = ctx.F
    n = 0
    for callee, grow in (('index::IndexTable::write_insert_plan', 're:HashColumn::trigger_reindex$'), ('ref_count::RefCountTable::write_insert_plan', 're:HashColumn::trigger_ref_count_reindex$')):
        for b in sorted(F.bodies.values(), key=lambda x: x.path):
            if '::test' in b.path or '::tests::' in b.path:
                continue
            for s in b.call_sites(callee):
                if s not in b.normal_blocks():
                    continue
                t = b.term(s)
                pos = t['a'][3] if len(t['a']) > 3 else None
                always_some = False
                if pos is not None and op_place(pos) is not None:
                    ds = [d for d in b.defs().get(op_place(pos)[0], []) if d[2] == 'assign']
                    always_some = bool(ds) and all(d[3]['r']['k'] == 'agg' and d[3]['r']['ak'] == 'Adt:std::option::Option::Some' for d in ds)
                if always_some:
                    continue
                n += 1
                gs = b.call_sites(grow)
                in_retry_loop = any(g in b.reaches(s) and s in b.reaches(g) for g in gs)
                lifted = False
                why = 'not in a retry loop with the index-growing call, and no caller retries'
                if not in_retry_loop:
                    # the outcome is looked at here (not just passed on) ...
                    res = {t['d'][0]}
                    for bi in b.normal_blocks():
                        tm = b.term(bi)
                        if tm['k'] == 'call' and call_matches(tm, ['std::ops::Try::branch']) and tm['a'] and op_local(tm['a'][0]) in res:
                            res.add(tm['d'][0])
                        for st in b.blocks[bi]['s']:
                            if st['k'] == 'assign' and st['r']['k'] == 'use' and op_place(st['r']['a'][0]) is not None and op_place(st['r']['a'][0])[0] in res and len(st['p']) == 1:
                                res.add(st['p'][0])
                    inspected = any(st['k'] == 'assign' and st['r']['k'] == 'discr' and st['r']['p'][0] in res and 'PlanOutcome' in str(b.locals[st['r']['p'][0]])
                                    for bi in b.normal_blocks() for st in b.blocks[bi]['s'])
                    # ... and every caller grows the index after the call and inserts again - or hands the outcome on to its own
                    # caller, which does (`write_plan_existing` -> `write_plan_moved`: the arm of a match extracted into a helper)
                    def retried_by_callers(hp, depth=3):
                        callers = [F.body(c) for c in sorted(set(F.callers(hp))) if F.body(c) is not None and c != hp]
                        if not callers:
                            return False, 'no caller of %s' % hp
                        for cb in callers:
                            for cs in cb.call_sites(hp):
                                if cs not in cb.normal_blocks():
                                    continue
                                g2 = [g for g in cb.call_sites(grow) if g in cb.reaches(cs)]
                                again = [x for x in cb.call_sites(callee) if any(x in cb.reaches(g) for g in g2)]
                                # or the grow-and-insert-again loop was extracted into a helper that is called after this call
                                lg, lc = set(lib.sites_reaching(cb, [grow])), set(lib.sites_reaching(cb, [callee]))
                                helper = [x for x in lg & lc if x in cb.reaches(cs) and x != cs and x not in cb.call_sites(callee)]
                                if helper or (g2 and again):
                                    continue
                                # handed on: the call's result is what the caller returns on that path
                                d_ = cb.term(cs)['d']
                                hands_on = d_ == [0] or (len(d_) == 1 and d_[0] in backward_slice(cb, [[0]]).locals)
                                # (only through a private function: the planner entry points themselves have to retry)
                                if hands_on and depth > 0 and '{closure' not in cb.path and str(cb.d.get('vis')) != 'Public':
                                    r_ = retried_by_callers(cb.path, depth - 1)
                                    if r_[0]:
                                        continue
                                    return r_
                                return False, 'caller %s does not grow the index and insert again after the call' % cb.path
                        return True, ''
                    ok_callers, why2 = retried_by_callers(b.path)
                    if not ok_callers:
                        why = why2
                    if not inspected:
                        why = 'the outcome of the insert is passed on without being looked at'
                    lifted = inspected and ok_callers
                ctx.ob(p + 'a need-reindex-retried %s' % b.path, 'K9-agreement', b.path,
                       'a fresh index insert that answers NeedReindex (nothing was inserted) is repeated after growing the index - in a retry loop at the call, or by the caller',
                       in_retry_loop or lifted, why, b.loc(s))
    ctx.ob(p + 'b fresh-insert-sites', 'anchor', '-', 'at least five fresh-insert call sites exist (new key, reindex batch, moved value; ref-count new, ref-count reindex)', n >= 5, 'found %d' % n)


def old_table_records_skipped(ctx, p):
    F = ctx.F
    # a record may name an index / ref-count table that was dropped since it was written (the log is cleaned later than tables are
    # dropped): the applier skips such a record (skip_plan); the validator has to skip it too - if it rejects it, replay throws the
    # WHOLE log away, including later records that are already half applied
    hv, he = F.body('column::HashColumn::validate_plan'), F.body('column::HashColumn::enact_plan')
    if hv and he:
        for callee in ('index::IndexTable::skip_plan', 'ref_count::RefCountTable::skip_plan'):
            ae = lib.sites_reaching(he, [callee])
            av = lib.sites_reaching(hv, [callee])
            if ae:
                ctx.ob(p + 'j old-table-records-skipped-by-validator %s' % callee.split('::')[-2], 'K9-agreement', hv.path,
                       'the applier skips records that name a table which no longer exists (%s); the validator skips them as well instead of failing the replay' % callee,
                       bool(av), 'HashColumn::validate_plan never calls %s (applier: %d site(s))' % (callee, len(ae)))
        # and no "too old" branch of the validator ends in Corruption
        bad = []
        for bi in hv.normal_blocks():
            for st in hv.blocks[bi]['s']:
                if st['k'] == 'assign' and st['r']['k'] == 'agg' and st['r']['ak'] == 'Adt:error::Error::Corruption':
                    calls, fields, binops = lib.guard_influences(hv, bi)
                    if 'Lt' in binops and sum(1 for c in calls if c.endswith('::index_bits')) >= 1 and ('.IndexTable.id' in fields or '.RefCountTable.id' in fields or any('TableId' in f for f in fields)):
                        # distinguish from the bounds checks: the comparison is between two table ids (index_bits of both sides)
                        for (sw, yes, no) in hv.control_deps(bi):
                            d = lib.switch_def(hv, sw)
                            if d and d[2] == 'assign' and d[3]['r']['k'] == 'bin' and d[3]['r']['op'] == 'Lt':
                                sls = [backward_slice(hv, [op_place(a)]) for a in d[3]['r']['a'] if op_place(a) is not None]
                                if len(sls) == 2 and all(any(c.endswith('::index_bits') for c in sl.calls) for sl in sls):
                                    bad.append(hv.loc(bi))
        ctx.ob(p + 'j2 older-table-is-not-corruption', 'K9-agreement', hv.path,
               'no branch that recognises a record for an older (dropped) table by comparing index_bits reports Corruption', not bad, 'Corruption built at %s' % sorted(set(bad)))


def allocation_state_belongs_to_a_record(ctx, p):
    """the fill mark / free-list head of a value table (what complete_plan writes into the NEXT record's header) changes only while
    a record is being planned (functions that are handed the LogWriter) or when it is re-read from the file at startup. A change made
    at commit time by a client thread is logged with whatever record the log worker completes next - an EARLIER commit's record -
    and a crash after that record leaves slots that are neither live nor free."""
    F = ctx.F
    STARTUP = {'table::ValueTable::refresh_metadata', 'table::ValueTable::open', 'table::ValueTable::init_table_data'}
    n = 0
    seen = set()
    for b in sorted(F.bodies.values(), key=lambda x: x.path):
        hit = False
        for bi, t in b.calls():
            if call_matches(t, lib.ATOMIC_STORE + lib.ATOMIC_RMW) and t['a']:
                fl = lib.receiver_fields(b, t, 0)
                if '.ValueTable.filled' in fl or '.ValueTable.last_removed' in fl:
                    hit = True
        # (a closure counts as the function it is written in: `(0..n).map(|_| ..).collect()` instead of a loop)
        if hit and '{closure' in b.path and F.body(lib.strip_closures(b.path)) is not None:
            b = F.body(lib.strip_closures(b.path))
        if hit:
            # (a private helper that only one of the allocating functions reaches counts as that function)
            own = lib.entry_point_of(F, b.path, {'table::ValueTable::next_free', 'table::ValueTable::claim_entries', 'table::ValueTable::clear_slot'} | STARTUP)
            if own != b.path and F.body(own) is not None:
                b = F.body(own)
        if not hit or b.path in seen:
            continue
        seen.add(b.path)
        n += 1
        has_writer = any('LogWriter' in str(x) for x in b.locals[1:b.argc + 1])
        ok = has_writer or any(lib.site_in(F, k, b.path) for k in STARTUP)
        ctx.ob(p + 'a allocation-state-changes-belong-to-a-record %s' % b.path, 'K4-confinement', b.path,
               'ValueTable.filled / last_removed are changed only by functions that plan into a LogWriter (the change and the header that records it travel in the same record) or that re-read the header at startup',
               ok, 'changes the allocation state without a LogWriter: its effect is logged by whichever record completes next', b.loc())
    ctx.ob(p + 'b allocation-mutators', 'anchor', '-', 'the functions that advance the fill mark / free-list head were found', n >= 3, 'found %d' % n)


def deferral_keeps_commit_order(ctx, p):
    """the x-part of deferral_is_surgical, for the properties that promise commit order of plain writes (C01, C05)"""
    F = ctx.F
    pc = ctx.body('db::DbInner::process_commits')
    if not pc:
        return
    for s2 in pc.call_sites('db::DbInner::defer_commit'):
        whole = False
        for a in pc.term(s2)['a'][1:]:
            if op_place(a) is None:
                continue
            sl = backward_slice(pc, [op_place(a)])
            if '.Commit.changeset' in sl.fields and not any(F.body(c) is not None for c in sl.calls):
                whole = True
        ctx.ob(p + 'x deferral-requeues-only-the-dereference', 'K4-provenance', pc.path,
               'what a deferral puts back at the end of the queue is not the whole commit: its key-value / btree / other-column operations keep their place in commit order (they are logged under the original id, or the commit is split)',
               not whole, 'defer_commit is handed commit.changeset as it is: every operation of the transaction moves behind the commits made after it', pc.loc(s2))


def deferral_is_surgical(ctx, p):
    """C11, second sentence: postponing a removal does not change the outcome of any other write."""
    F = ctx.F
    pc = ctx.body('db::DbInner::process_commits')
    if not pc:
        return
    for s2 in pc.call_sites('db::DbInner::defer_commit'):
        whole = False
        for a in pc.term(s2)['a'][1:]:
            if op_place(a) is None:
                continue
            sl = backward_slice(pc, [op_place(a)])
            if '.Commit.changeset' in sl.fields and not any(F.body(c) is not None for c in sl.calls):
                whole = True
        ctx.ob(p + 'x deferral-requeues-only-the-dereference', 'K4-provenance', pc.path,
               'what a deferral puts back at the end of the queue is not the whole commit: its key-value / btree / other-column operations keep their place in commit order (they are logged under the original id, or the commit is split)',
               not whole, 'defer_commit is handed commit.changeset as it is: every operation of the transaction moves behind the commits made after it', pc.loc(s2))
    tree_lock_decision(ctx, p)


def tree_lock_decision(ctx, p):
    """F21: the log worker's check-then-lock on the tree reader."""
    F = ctx.F
    pc = ctx.body('db::DbInner::process_commits')
    if not pc:
        return
    # the decision "nobody uses the tree" is a test (is_locked) of a lock that is taken only later, by the walk, and released before
    # the removal is published: a reader can lock in between
    dec = False
    for b in [pc] + [x for x in lib.family(F, pc.path) if x is not pc]:
        if any(call_matches(t, ['re:RwLock.*::is_locked$']) for _, t in b.calls()):
            dec = True
    acq = any(call_matches(t, ['re:RwLock.*::try_write(_for|_until)?$', 're:RwLock.*::try_upgradable_read$']) for b in [pc] + lib.family(F, pc.path) for _, t in b.calls())
    ctx.ob(p + 'y tree-lock-held-from-decision-to-publication', 'K5-held-at', pc.path,
           'the log worker decides that a tree can be removed by ACQUIRING its lock (try_write) and keeps it until Log::end_record published the removal; testing is_locked and locking later leaves a window in which a reader locks a tree that is then removed under its lock',
           acq and not dec if dec or acq else False, 'the decision tests RwLock::is_locked; the write lock is taken later inside write_plan and dropped before end_record')


def metadata_replaced_atomically(ctx, p):
    """the metadata file (format version, salt, column options) is never truncated in place: the new content goes to a temporary
    name and is renamed over the old file, so that a failed or interrupted write leaves the old metadata - without the salt every
    hashed key of the database is unreachable."""
    F = ctx.F
    wf = ctx.body('options::Options::write_metadata_file_with_version')
    if not wf:
        return
    ws = lib.fam_sites(F, wf.path, ['std::fs::write', 're:std::fs::File::create$', 're:OpenOptions::open$'])
    rn = lib.fam_sites(F, wf.path, ['std::fs::rename'])
    ctx.ob(p + 'a metadata-write-site', 'anchor', wf.path, 'the metadata writer writes a file', len(ws) >= 1, str([(b.path, x) for b, x in ws]))
    for fb, w in ws:
        a = fb.term(w)['a']
        direct = False
        if a and op_place(a[0]) is not None:
            sl = backward_slice(fb, [op_place(a[0])])
            # the target is the `path` parameter itself (possibly re-borrowed / converted), not a name derived from it
            direct = bool(sl.params) and not any(re.search(r'(with_extension|with_file_name|::join|::push|set_extension|set_file_name)$', c) for c in sl.calls)
        after = [x for b2, x in rn if b2 is fb]
        wpath = lib.ok_return_unreachable_avoiding(fb, after, [w]) if after else ['?']
        ctx.ob(p + 'b metadata-written-aside-then-renamed', 'K2-order', fb.path,
               'the metadata is written under a temporary name and every success path then renames it over the live file (std::fs::write on the live file truncates it first: a failed write would leave it empty)',
               not direct and wpath is None, 'the live metadata path is written in place' if direct else 'no rename after the write', fb.loc(w))


def no_mutual_deferral(ctx, p):
    """a commit is deferred because a queued commit marked its tree as used. If that queued commit is itself a dereference of the same
    tree (so it will be deferred because of THIS commit once it reaches the front), the two defer each other forever: neither is ever
    logged and dropping the handle never returns. The queue scan therefore has to look at whether the scanned commit is itself
    waiting on the tree (its own node changes / deferral flag), not only at its used_trees."""
    F = ctx.F
    pc = ctx.body('db::DbInner::process_commits')
    if not pc:
        return
    bodies = [pc] + [x for x in lib.family(F, pc.path) if x is not pc and x.kind != 'Closure']
    found = False
    looks = False
    for b in bodies:
        for lp in lib.for_loops_over(b, '.CommitQueue.commits'):
            # the scan over the commits still QUEUED (not a loop over parts of the commit that was popped off the queue)
            th = b.term(lp['head'])
            if not th['a'] or op_place(th['a'][0]) is None or any(re.search(r'::(pop_front|pop_back|remove)$', c) for c in backward_slice(b, [op_place(th['a'][0])]).calls):
                continue
            found = True
            region = b.reachable_from([lp['some']], removed={lp['head']})
            elem = set()
            # locals derived from the loop element (the scanned commit)
            t = b.term(lp['head'])
            elem.add(t['d'][0])
            elem = lib.forward_taint(b, elem)
            for bi in region:
                for st in b.blocks[bi]['s']:
                    if st['k'] != 'assign':
                        continue
                    pls = ([st['r'].get('p')] if st['r'].get('p') else []) + [op_place(a) for a in st['r'].get('a', []) if op_place(a)]
                    for pl in pls:
                        if pl[0] in elem and any(isinstance(e, str) and e in ('.CommitChangeSet.check_for_deferral', '.IndexedChangeSet.node_changes') for e in pl[1:]):
                            looks = True
    if not found:
        # iterator form of the scan: `queue.commits.iter().any(|queued| ..)`
        for b in bodies:
            for bi, t in b.calls():
                if bi in b.normal_blocks() and call_matches(t, ['re:Iterator::(any|all|find|find_map|position|for_each|try_for_each|filter)$']) and t['a'] and '.CommitQueue.commits' in lib.receiver_fields(b, t, 0):
                    found = True
                    cf = lib.closure_fields(F, lib.closure_operands(b, t))
                    if '.CommitChangeSet.check_for_deferral' in cf or '.IndexedChangeSet.node_changes' in cf:
                        looks = True
    ctx.ob(p + 'a queue-scan-anchor', 'anchor', pc.path, 'the deferral decision scans the queued commits', found, '')
    # alternative that makes the cycle impossible: what waits on the queue after a deferral is a changeset built for the purpose that
    # holds the removals only - it carries no used_trees marks, so a waiting commit never makes another one wait
    requeued = []
    for x in pc.call_sites('db::DbInner::defer_commit'):
        requeued += [(x, a) for a in pc.term(x)['a'][1:] if op_place(a) is not None and 'CommitChangeSet' in str(pc.locals[op_place(a)[0]])]
    for x in lib.field_effect_sites(pc, ['re:VecDeque.*::push_back$'], '.CommitQueue.commits'):
        t = pc.term(x)
        if call_matches(t, ['re:VecDeque.*::push_back$']) and len(t['a']) > 1 and op_place(t['a'][1]) is not None:
            requeued.append((x, t['a'][1]))
    fresh = bool(requeued)
    for x, a in requeued:
        sl = backward_slice(pc, [op_place(a)])
        whole = '.Commit.changeset' in sl.fields and not any(F.body(c) is not None for c in sl.calls)
        if whole or '.IndexedChangeSet.used_trees' in sl.fields:
            fresh = False
    ctx.ob(p + 'b queue-scan-ignores-commits-waiting-on-the-same-tree', 'K3-guard', pc.path,
           'while scanning the queue for users of a tree, the log worker looks at whether the scanned commit is itself a (deferrable) dereference of that tree - or a commit that waits carries no used_trees marks at all (it is re-queued as a fresh changeset holding the removals only); two commits that each dereference the tree and each mark it as used would otherwise defer each other forever',
           looks or fresh, 'the scan reads only used_trees of the queued commits, and a deferred commit goes back onto the queue with its used_trees')


def lookup_sees_one_queue_state(ctx, p):
    """A lookup that searches the current index and then the index tables of the reindex queue decides 'absent' from two looks.
    Entries move from a queued table into the current index and the queued table is then dropped (drop_index needs only the
    reindex write lock): a lookup that takes the reindex guard AFTER its search of the current index can be overtaken by the
    whole move-and-drop and miss a key that was present throughout (F42). The guard has to be live at the first search."""
    F = ctx.F
    import lockorder
    n = 0
    for b in list(F.bodies.values()):
        if 'HashColumn' not in b.path or b.path.endswith('}'):
            continue
        acq = [bi for bi, t in b.calls() if any(lockorder.ACQ_RX.search(nm) for nm in call_names(t)) and t['a'] and '.HashColumn.reindex' in lib.receiver_fields(b, t, 0)]
        if not acq:
            continue
        srch = [bi for bi, t in b.calls() if bi in b.normal_blocks() and call_matches(t, ['column::HashColumn::get_in_index', 'column::HashColumn::search_index', 'index::IndexTable::get', 're:column::HashColumn::search_all_'])
                and any({'.Tables.index', '.HashColumn.tables'} & lib.receiver_fields(b, t, i) for i in range(len(t['a'])))]
        qs = [bi for bi, t in b.calls() if t['a'] and '.Reindex.queue' in lib.receiver_fields(b, t, 0)] or \
             [bi for bi in b.normal_blocks() for s in b.blocks[bi]['s'] if s['k'] == 'assign' and '.Reindex.queue' in str(s['r'])]
        if not srch or not (qs or any(call_matches(b.term(x), ['re:column::HashColumn::search_all_']) for x in srch)):
            continue
        for i, s in enumerate(srch):
            n += 1
            lib.held_at(ctx, p + 'a lookup-holds-queue-guard-from-first-search %s #%d' % (b.path, i), b, s, '.HashColumn.reindex',
                        'the reindex-queue guard is taken before the current index is searched: the lookup sees one state of (current index, queue), a concurrent move-and-drop of the old table cannot fall between its two searches')
    ctx.ob(p + 'a0 two-table-lookups', 'anchor', 'column::HashColumn', 'the lookups that search the current index and the reindex queue under a guard they take themselves were found (HashColumn::get)', n >= 1, 'found %d' % n)


OVERLAY_VECS = ['.LogOverlays.index', '.LogOverlays.value', '.LogOverlays.ref_count']


def overlay_slot_addressed_by_log_index(ctx, p):
    """LogOverlays keeps one overlay per table in three vectors; the slot of a table is `TableId::log_index()` (column * N + kind
    within the column). Every positional access to those vectors takes its position from log_index() of a table id - a slot computed
    any other way (size tier or index bits alone) is another table's overlay for every column but the first, and clearing or filling
    it un-shadows / mis-shadows that table's bytes while the applier rewrites them."""
    F = ctx.F
    n = 0
    for b in sorted(F.bodies.values(), key=lambda x: x.path):
        for bi, t in b.calls():
            if bi not in b.normal_blocks() or len(t['a']) != 2:
                continue
            if not call_matches(t, ['re:::get$', 're:::get_mut$', 're:Index<.*>>::index$', 're:IndexMut<.*>>::index_mut$', 're:::get_unchecked(_mut)?$', 're:::remove$', 're:::swap_remove$']):
                continue
            fl = lib.receiver_fields(b, t, 0)
            hit = [v for v in OVERLAY_VECS if v in fl]
            # the per-table map inside an overlay is keyed by chunk / entry number, not by table: only accesses to the vector itself count
            if not hit or any(m in fl for m in ('.IndexLogOverlay.map', '.ValueLogOverlay.map', '.RefCountLogOverlay.map')):
                continue
            a = t['a'][1]
            ok = False
            det = 'position is a constant'
            if op_place(a) is not None:
                sl = backward_slice(b, [op_place(a)])
                ok = any(c.endswith('::log_index') for c in sl.calls)
                det = 'position derives from %s' % (sorted(c.split('::')[-1] for c in sl.calls)[:4] or sorted(sl.fields)[:4] or 'nothing recognisable')
            n += 1
            ctx.ob(p + 'a overlay-slot-is-log_index %s %s #%s' % (b.path, hit[0], (t.get('r') or t.get('f') or '').split('::')[-1]), 'K4-provenance', b.path,
                   'the overlay of a table is found at TableId::log_index() in the per-kind overlay vector', ok, '' if ok else det, b.loc(bi))
    ctx.ob(p + 'a0 overlay-slot-accesses', 'anchor', 'log::LogOverlays', 'the positional accesses to the three overlay vectors were found (queries, merge at end_record, cleanup at end_read)', n >= 8, 'found %d' % n)


def index_hit_verified_against_key(ctx, p):
    """An index entry carries ~54 bits of the hashed key; queued older index tables keep copies of entries already carried over.
    A planned write (set / reference / dereference / remove) may treat an entry as 'this key is present at that address' only after
    the key tail stored with the value was compared with the key - else the operation is applied to whichever key now owns the slot."""
    F = ctx.F
    si = ctx.body('column::HashColumn::search_index')
    if not si:
        return
    VER = ['table::ValueTable::has_key_at', 're:^table::ValueTable::query$', 'column::Column::get_value']
    ver = lib.sites_reaching(si, VER)
    somes = [bi for bi in si.normal_blocks() for s in si.blocks[bi]['s']
             if s['k'] == 'assign' and s['r']['k'] == 'agg' and s['r']['ak'] == 'Adt:std::option::Option::Some'
             and any(op_place(a) is not None and 2 in backward_slice(si, [op_place(a)]).params for a in s['r']['a'])]
    ctx.ob(p + 'a0 writer-search-anchors', 'anchor', si.path, 'search_index compares the stored key and has one "found" result', len(ver) >= 1 and len(somes) >= 1, 'verify sites %s found-sites %s' % (ver, somes))
    for s in somes:
        if ver:
            lib.result_guards(ctx, p + 'a found-only-after-key-comparison', si, ver, s, 'search_index reports an entry as the key\'s only depending on the outcome of the stored-key comparison')
        else:
            ctx.ob(p + 'a found-only-after-key-comparison', 'K3-result-checked', si.path, 'search_index reports an entry as the key\'s only depending on the outcome of the stored-key comparison', False,
                   'no comparison with the key stored in the value slot precedes the "found" result', si.loc(s))
    for v in ver:
        t = si.term(v)
        ok = any(op_place(a) is not None and 1 in backward_slice(si, [op_place(a)]).params for a in t['a'])
        ctx.ob(p + 'b comparison-uses-the-searched-key', 'K4-provenance', si.path, 'the comparison is made with the key that is being searched', ok, '', si.loc(v))
    hk = ctx.body('table::ValueTable::has_key_at')
    if hk:
        pk = lib.sites_reaching(hk, ['table::ValueTable::partial_key_at', 're:^table::ValueTable::for_parts'])
        eq = [bi for bi, t in hk.calls() if bi in hk.normal_blocks() and call_matches(t, ['re:PartialEq.*>::(eq|ne)$'])]
        ctx.ob(p + 'c has_key_at-compares-the-stored-tail', 'K1-must-pass', hk.path, 'has_key_at fetches the key tail stored in the slot and compares it for equality (not merely "slot is occupied")',
               bool(pk) and bool(eq) and all(any(e in hk.reaches(x) for e in eq) for x in pk), 'fetch sites %s equality sites %s' % (pk, eq))


def record_goes_to_the_table_it_names(ctx, p):
    """A log action names its index / ref-count table. Validation and application hand the action's bytes to a table object; that
    object has to be the table the action names: either it was looked up BY the id (queue search), or it is the current table and
    the call is reached only on the equal edge of `current.id == record.table`. Parsing an action against another table (another
    number of index bits) validates garbage, and the applier then skips or misplaces it (a record applied in part)."""
    F = ctx.F
    n = 0
    for fn in ('column::HashColumn::validate_plan', 'column::HashColumn::enact_plan'):
        b = ctx.body(fn)
        if not b:
            continue
        eqs = [bi for bi, t in b.calls() if call_matches(t, ['re:(index::TableId|ref_count::RefCountTableId) as .*PartialEq.*::(eq|ne)$'])
               and any(op_place(a) is not None and any(f.endswith('Action.table') for f in backward_slice(b, [op_place(a)]).fields) for a in t['a'])]
        same = set()
        for x in eqs:
            ne = call_matches(b.term(x), ['re:::ne$'])
            for (sb, tr, fa) in lib.bool_outcome_edges(b, [x]):
                same.add(fa if ne else tr)
        for bi, t in b.calls():
            if bi not in b.normal_blocks() or not call_matches(t, ['re:^index::IndexTable::(validate_plan|enact_plan)$', 're:^ref_count::RefCountTable::(validate_plan|enact_plan)$']):
                continue
            n += 1
            fl = lib.receiver_fields(b, t, 0)
            by_id = any(f.endswith('Action.table') for f in fl)
            only_equal = bool(same) and b.find_path([0], {bi}, removed_edges=frozenset(same)) is None
            ok = by_id or only_equal
            kind = 'index' if 'IndexTable' in (t.get('r') or t.get('f') or '') else 'ref-count'
            ctx.ob(p + 'a action-handed-to-the-table-it-names %s %s %s' % (fn.split('::')[-1], kind, 'looked-up' if by_id else 'current'), 'K3-guard', fn,
                   'the table object an index / ref-count action is validated against or applied to was looked up by the action\'s table id, or is the current table reached only when its id equals the action\'s',
                   ok, '' if ok else 'reached without comparing the table id with the one the action names (receiver derives from %s)' % sorted(f for f in fl if 'Tables' in f or 'Reindex' in f)[:3], b.loc(bi))
    ctx.ob(p + 'a0 action-dispatch-sites', 'anchor', 'column::HashColumn', 'the validate / apply dispatch sites for index and ref-count actions were found (2 kinds x current/queued x validate/apply)', n >= 8, 'found %d' % n)


def eof_is_the_only_end_of_data(ctx, p):
    """which read outcome may be taken for "this log file has no (more) records": only io::ErrorKind::UnexpectedEof from a read
    that asked for a complete header; and a first record id is produced only from a completely read header."""
    F = ctx.F
    def eof_guarded(fn, site, label, desc):
        b = F.body(fn)
        kinds = lib.errkind_guarded(b, site)
        ctx.ob(label, 'K3-guard', fn, desc, kinds == {'UnexpectedEof'}, 'guarded by error kinds: %s' % (sorted(kinds) or 'none'), b.loc(site))
    rn = ctx.body('log::Log::read_next')
    if rn:
        pushes = lib.field_effect_sites(rn, ['re:VecDeque.*::push_back$'], '.Log.cleanup_queue')
        ctx.ob(p + 'g0 end-of-log-anchor', 'anchor', rn.path, 'read_next retires a finished log file onto the cleanup queue', len(pushes) >= 1, str(pushes))
        for s in pushes:
            eof_guarded(rn.path, s, p + 'g log-retired-only-on-eof', 'a log file is declared fully read (queued for truncation) only on the equal edge of io::Error::kind() == UnexpectedEof; any other read error is returned')
    ol = ctx.body('log::Log::open_log_file')
    if ol:
        nones = [bi for bi in ol.normal_blocks() for st in ol.blocks[bi]['s'] if st['k'] == 'assign' and st['r']['k'] == 'agg' and st['r']['ak'] == 'Adt:std::option::Option::None']
        kd = ol.call_sites('std::io::Error::kind')
        ctx.ob(p + 'h0 headerless-log-anchor', 'anchor', ol.path, 'open_log_file reports "no first record" (file deleted at open) in two places and inspects the error kind', len(nones) == 2 and len(kd) == 1, '%s %s' % (nones, kd))
        rd = ol.call_sites('log::Log::read_first_record_id')
        for s in nones:
            if rd and s in ol.reaches(rd[0]):
                eof_guarded(ol.path, s, p + 'h headerless-only-on-eof', 'a log file is treated as header-less (and deleted by Log::open) after a failed header read only when the error kind is UnexpectedEof')
        # a first record id comes only from a header that was read completely: the bytes are obtained with read_exact (a short file
        # gives UnexpectedEof), never with a plain read() whose short count would leave part of the buffer as it was initialised
        fam = lib.family(F, ol.path)
        exact = [(x.path, bi) for x in fam for bi, t in x.calls() if bi in x.normal_blocks() and call_matches(t, ['re:std::io::Read>?::read_exact$', 're:Read for .*>::read_exact$', 're:::read_exact$'])]
        plain = [(x.path, bi) for x in fam for bi, t in x.calls() if bi in x.normal_blocks() and call_matches(t, ['re:as std::io::Read>::read(_to_end|_vectored|_to_string|_buf)?$', 're:FileExt>::read_at$', 're:^std::io::Read::read(_to_end|_vectored|_to_string|_buf)?$'])]
        ctx.ob(p + 'i first-record-id-from-a-complete-header', 'K4-confinement', ol.path,
               'open_log_file and its helpers obtain the header bytes with read_exact only (a file shorter than a header is reported as UnexpectedEof, not decoded from a partly filled buffer)',
               bool(exact) and not plain, 'read_exact sites %s, other read calls %s' % (exact, plain))


def loop_iterates_ordered(b, lp):
    """the sequence a `for` loop walks has an order fixed by the program: an ordered map, or a collection that was sorted (in place
    or by an adaptor) on every path to the loop"""
    th = b.term(lp['head'])
    return sequence_is_ordered(b, th['a'][0] if th['a'] else None, lp['head'])


def sequence_is_ordered(b, operand, site):
    """the sequence behind `operand` (the iterator a loop head or an adaptor such as try_for_each consumes at block `site`) has an
    order fixed by the program"""
    lp = {'head': site}
    sl = backward_slice(b, [op_place(operand)]) if operand is not None and op_place(operand) is not None else None
    if sl is None:
        return False
    if any(re.search(r'::sort(_by|_by_key|_unstable|_unstable_by|_unstable_by_key|_by_cached_key)?$|BTreeMap|BTreeSet|BinaryHeap', c) for c in sl.calls):
        return True
    tys = ' '.join(str(b.locals[l]) for l in sl.locals if l < len(b.locals))
    if 'BTreeMap' in tys:
        return True
    SORT = ['re:::sort(_by|_by_key|_unstable|_unstable_by|_unstable_by_key|_by_cached_key)?$']
    srt = [bi for bi, t in b.calls() if bi in b.normal_blocks() and call_matches(t, SORT) and t['a'] and op_place(t['a'][0]) is not None
           and (set(backward_slice(b, [op_place(t['a'][0])]).locals) & set(sl.locals))]
    return bool(srt) and b.find_path([0], {lp['head']}, removed=set(srt)) is None


def header_slot_written_last(ctx, p):
    """ValueTable::init_with_entry creates the first entry of a btree column (slot 1, the tree header) together with the table
    header (slot 0, fill mark 2). The fill mark is what is_init looks at: slot 0 has to reach the file LAST, so the slots are written
    in an order the program fixes (descending), not in hash-map order - a stop between the two writes otherwise leaves a table that
    counts as initialised with an all-zero tree header ('Invalid header length' on every access, for good) (F54)"""
    F = ctx.F
    b = ctx.body('table::ValueTable::do_init_with_entry')
    if not b:
        return
    wr = b.call_sites('file::TableFile::write_at')
    loops = [lp for lp in lib.for_loops_over(b) if any(x in b.reachable_from([lp['some']], removed={lp['head']}) for x in wr)]
    # the loop may be an iterator adaptor that is handed a closure with the write (`slots.into_iter().try_for_each(|..| write_at(..))`)
    adaptors = []
    if not loops:
        for cl in lib.bodies_of(F, b.path)[1:]:
            if cl.call_sites('file::TableFile::write_at'):
                for pb, bi in lib.closure_use_sites(F, cl):
                    if pb is b and call_matches(b.term(bi), ['re:Iterator::(try_for_each|for_each|try_fold|fold|map|all|any)$']):
                        adaptors.append(bi)
                        wr = wr + cl.call_sites('file::TableFile::write_at')
    ctx.ob(p + 'h0 init-write-loop', 'anchor', b.path, 'do_init_with_entry writes the planned slots to the file in a loop', len(wr) >= 1 and len(loops) + len(adaptors) >= 1, 'write sites %s loops %d' % (wr, len(loops) + len(adaptors)))
    for bi in adaptors[:1]:
        ok = sequence_is_ordered(b, b.term(bi)['a'][0], bi)
        ctx.ob(p + 'h init-slots-written-in-a-fixed-order', 'K2-loop-order', b.path,
               'the slots of a freshly initialised table are written in an order fixed by the program (the table header, whose fill mark makes the table count as initialised, last), not in hash-map order',
               ok, '' if ok else 'the adaptor walks the hash map of planned slots directly: the header slot may be written first', b.loc(bi))
    for lp in loops[:1]:
        ok = loop_iterates_ordered(b, lp)
        ctx.ob(p + 'h init-slots-written-in-a-fixed-order', 'K2-loop-order', b.path,
               'the slots of a freshly initialised table are written in an order fixed by the program (the table header, whose fill mark makes the table count as initialised, last), not in hash-map order',
               ok, '' if ok else 'the loop walks the hash map of planned slots directly: the header slot may be written first', b.loc(lp['head']))


def record_sections_in_table_order(ctx, p):
    """Index and ref-count table files are created by the first action enacted into them, and at open a table that is older than
    the current one and has no file is taken for a table that was dropped (its actions are skipped). That reading is only right if
    files come into existence oldest first: the sections of ONE record that touch several generations of a table (a record that
    grows the index) must be written - hence enacted - in ascending table order, not in hash-map order. Otherwise a stop between
    the newer and the older section leaves only the newer file, and replay drops the older section of the record (F43)."""
    F = ctx.F
    b = ctx.body('log::LogChange::flush_to_file')
    if not b:
        return
    n = 0
    for fld, what in (('.LogChange.local_index', 'index'), ('.LogChange.local_ref_count', 'ref-count')):
        loops = lib.for_loops_over(b, fld)
        outer = [lp for lp in loops if not any(l2 is not lp and lp['head'] in b.reachable_from([l2['some']], removed={l2['head']}) for l2 in loops)]
        ctx.ob(p + 'k0 %s-section-loop' % what, 'anchor', b.path, 'flush_to_file writes the %s sections of a record in a loop over LogChange%s' % (what, fld[len('.LogChange'):]), len(outer) >= 1, str([l['head'] for l in loops]))
        for lp in outer[:1]:
            n += 1
            sl = backward_slice(b, [op_place(b.term(lp['head'])['a'][0])]) if op_place(b.term(lp['head'])['a'][0]) is not None else None
            calls = sorted(sl.calls) if sl else []
            ordered = [c for c in calls if re.search(r'::sort(_by|_by_key|_unstable|_unstable_by|_unstable_by_key|_by_cached_key)?$|BTreeMap|BTreeSet|BinaryHeap', c)]
            tys = ' '.join(str(b.locals[l]) for l in (sl.locals if sl else []) if l < len(b.locals))
            # `v.sort_by_key(..)` mutates through a reference: it is not in the data slice of `v`; look for a sort applied to a
            # local of the slice on every path to the loop
            SORT = ['re:::sort(_by|_by_key|_unstable|_unstable_by|_unstable_by_key|_by_cached_key)?$']
            srt = [bi for bi, t in b.calls() if bi in b.normal_blocks() and call_matches(t, SORT) and t['a'] and op_place(t['a'][0]) is not None
                   and sl is not None and (set(backward_slice(b, [op_place(t['a'][0])]).locals) & set(sl.locals))]
            in_place = bool(srt) and b.find_path([0], {lp['head']}, removed=set(srt)) is None
            ok = bool(ordered) or 'BTreeMap' in tys or in_place
            ctx.ob(p + 'k %s-sections-in-table-order' % what, 'K2-loop-order', b.path,
                   'the %s sections of a record are written in an order fixed by the table id (sorted sequence / ordered map), so that table files are created oldest first' % what,
                   ok, '' if ok else 'the loop iterates the hash map directly: section order is arbitrary', b.loc(lp['head']))
    ctx.ob(p + 'k1 section-loops', 'anchor', b.path, 'both multi-generation section loops were found', n == 2, 'found %d' % n)


def index_entry_purged_from_all_generations(ctx, p):
    """While an index is being re-indexed a key has an entry in every generation its chunk was copied to (batches copy, they never
    remove from the source). When a planned write removes the key's entry or re-points it (value moved to another tier), the copies
    in the OTHER generations must be removed in the same plan - the ref-count sibling (write_ref_count_plan_existing) does exactly
    that. A copy left behind points at a freed slot: it is carried over by the next batch, and a later tenant of the slot with the
    same stored key tail is served (and overwritten) under the removed key."""
    F = ctx.F
    we = ctx.body('column::HashColumn::write_plan_existing')
    if not we:
        return
    def purges(b):
        """b walks the reindex queue and removes index entries inside that walk (loop form or iterator chain feeding a loop)"""
        rm = b.call_sites('index::IndexTable::write_remove_plan')
        if not rm:
            return []
        reads_q = any({'.Reindex.queue'} & lib.receiver_fields(b, t, i) for _bi, t in b.calls() for i in range(min(len(t['a']), 2)))
        if not reads_q:
            return []
        heads = []
        for lp in lib.for_loops_over(b):
            if any(x in b.reachable_from([lp['some']], removed={lp['head']}) for x in rm) and \
               ('.Reindex.queue' in lib.receiver_fields(b, b.term(lp['head']), 0)):
                heads.append(lp['head'])
        return heads
    helpers = [b.path for b in F.bodies.values() if 'HashColumn' in b.path and b is not we and purges(b)]
    inline = purges(we)
    sites = list(inline) + (lib.sites_reaching(we, helpers) if helpers else [])
    none0 = None
    for bi in we.normal_blocks():
        t = we.term(bi)
        d = lib.switch_def(we, bi)
        if t['k'] == 'switch' and d and d[2] == 'assign' and d[3]['r']['k'] == 'discr' and '.#0' in d[3]['r']['p'][1:]:
            for v, tg in zip(t['vals'], t['ts']):
                if v == 0:
                    none0 = tg
    ctx.ob(p + 'a0 entry-change-anchor', 'anchor', we.path, 'write_plan_existing branches on "the value plan settled the operation" / "the index entry has to change"', none0 is not None, '')
    if none0 is None:
        return
    w = we.find_path([none0], we.return_blocks(), removed=set(sites) | core.error_exit_blocks(we)) if sites else ['?']
    ctx.ob(p + 'a entry-purged-from-all-generations', 'K9-agreement', we.path,
           'whenever the index entry of a key is removed or re-pointed, the plan also walks the other index generations (current index and reindex queue) and removes the copies of that entry, as the ref-count sibling does',
           w is None, 'no walk over Reindex.queue that removes index entries is reachable from write_plan_existing' if not sites else 'success path that changes the entry without the purge: ' + lib.short_path(we, w))


def value_read_one_guard(ctx, p, callers=None):
    """a chained (multi-part) value is fetched part by part, each part lookup going to the log overlay first. Handing the reader the
    RwLock flavour of LogQuery takes and releases the overlay read lock PER PART, so Log::end_record can publish a whole record
    between two parts of one value: parts of two different values are concatenated (only the head part carries a key check).
    Readers of values that may be chained therefore need one locked view (LogOverlays behind a read guard) for the whole value.
    `callers`: restrict to call sites in these functions (and their closures)."""
    F = ctx.F
    SINGLE_PART = {'btree::btree::BTree::open': 'reads the 12-byte tree header entry, which is never chained'}
    reach = F.may_reach('table::ValueTable::for_parts')
    import engine
    recorded = set(m.group(1) for k in engine.load_known_findings() for m in [re.search(r'value-read-under-one-overlay-guard (\S+(?: as [^>]+>\S*)?) -> ', k)] if m)
    n = 0
    for b in sorted(F.bodies.values(), key=lambda x: x.path):
        if b.path.startswith('log::'):
            continue
        if callers is not None and lib.strip_closures(b.path) not in callers:
            continue
        for bi, t in b.calls():
            fa = t.get('fa') or ''
            if 'RwLock<parking_lot::RawRwLock, log::LogOverlays>' not in fa or '::<' not in fa:
                continue
            callee = [x for x in call_names(t) if x in F.bodies]
            if not callee or not (callee[0] in reach or callee[0] == 'table::ValueTable::for_parts'):
                continue
            n += 1
            why = SINGLE_PART.get(callee[0])
            ctx.ob(p + 'a value-read-under-one-overlay-guard %s -> %s' % (lib.entry_point_of(F, b.path, recorded), callee[0].split('::', 1)[-1]), 'K5-held-at', b.path,
                   'a value that may be chained is read through ONE locked view of the log overlay, not through the RwLock flavour that locks per part' + (' [single-part: %s]' % why if why else ''),
                   why is not None, 'reads parts under separate acquisitions of Log.overlays: a record published in between tears the value', b.loc(bi))
    ctx.ob(p + 'b value-read-sites', 'anchor', '-', 'the value read call sites that are handed the log overlay were found', n >= 1, 'found %d' % n)


def no_log_handle_destroyed_in_cleanup(ctx, p):
    """Every log file taken off the cleanup queue ends up in the pool (truncated) or back on the queue (not truncated). A handle that is
    simply dropped leaves its file on disk - full of enacted records - outside every queue: later cleanups truncate the newer logs and
    the next open replays the stale one. Structurally: in Log::clean_logs and its helpers no value of type File / (id, File) is
    destroyed by an (implicit) drop on a normal path; the explicit drop of pool surplus is followed by the unlink of that log."""
    F = ctx.F
    b = ctx.body('log::Log::clean_logs')
    if not b:
        return
    bad = []
    n = 0
    for fb in lib.family(F, b.path):
        for bi in fb.normal_blocks():
            t = fb.term(bi)
            if t['k'] == 'drop':
                ty = str(t.get('ty', ''))
                n += 1
                if re.fullmatch(r'(std::fs::File|\(u32, std::fs::File\))', ty):
                    # drop flags: a drop of a local that was moved out on every path is dead; keep only drops the value can reach -
                    # i.e. the local is not moved into a call / aggregate on all paths from its definition
                    l = t['p'][0] if t.get('p') else None
                    moves = [x for x in fb.normal_blocks() if (fb.term(x)['k'] == 'call' and any(a.get('o') == 'm' and op_place(a) == [l] for a in fb.term(x)['a']))
                             or any(st['k'] == 'assign' and any(a.get('o') == 'm' and op_place(a) == [l] for a in st['r'].get('a', [])) for st in fb.blocks[x]['s'])]
                    defs = [d[0] for d in fb.defs().get(l, [])]
                    live = any(fb.find_path([d], {bi}, removed=set(moves)) is not None for d in defs) if defs else True
                    if live:
                        bad.append('%s: %s dropped at %s' % (fb.path, ty, fb.loc(bi)))
    ctx.ob(p + 'r no-log-handle-destroyed-in-cleanup', 'K4-confinement', b.path,
           'no log file handle (or queue entry) is destroyed by an implicit drop in clean_logs: what was taken off the cleanup queue goes to the pool or back onto the queue',
           not bad, '; '.join(bad[:3]))


def torn_record_not_handed_over(ctx, p):
    """Log::end_record appends a record to the log file being written. If the write fails part-way the file ends in a torn record.
    The stage that applies records during a session does not validate them (no CRC check: that is done at open only), so the file
    must never reach the read queue: on the error arm of the append the appending writer is given up (the file stays on disk and
    the next open stops at the torn record). Keeping it lets the next flush hand it over, and half of a transaction - the index
    sections come first - is applied (F45)."""
    F = ctx.F
    b = ctx.body('log::Log::end_record')
    if not b:
        return
    ft = b.call_sites('log::LogChange::flush_to_file')
    errs = [x for s in ft for x in lib.result_err_targets(b, s)]
    clears = []
    for bi in b.normal_blocks():
        for s in b.blocks[bi]['s']:
            if s['k'] == 'assign' and s['r']['k'] == 'agg' and s['r']['ak'] == 'Adt:std::option::Option::None' and 'log::Appending' in str(b.locals[s['p'][0]]):
                # `*appending = None` through the guard (or a reference to the slot)
                clears.append(bi)
    for bi, t in b.calls():
        if bi in b.normal_blocks() and call_matches(t, ['re:Option::<T>::take$', 're:^std::mem::(take|replace)$']) and t['a'] and '.Log.appending' in lib.receiver_fields(b, t, 0):
            clears.append(bi)
    ctx.ob(p + 'k0 append-error-arm', 'anchor', b.path, 'end_record appends through LogChange::flush_to_file and has an error arm for it', len(ft) == 1 and len(errs) >= 1, 'append sites %s error arms %s' % (ft, errs))
    if not errs:
        return
    # the clearing may sit in a closure that runs on the Err value before the `?` (`.map_err(|e| { *appending = None; e })?`):
    # such a call, applied to the append's result, clears on exactly the error outcome
    def closure_clears(cpath):
        cb = F.body(cpath)
        if cb is None:
            return False
        for bi in cb.normal_blocks():
            for st in cb.blocks[bi]['s']:
                if st['k'] == 'assign' and st['r']['k'] == 'agg' and st['r']['ak'] == 'Adt:std::option::Option::None' and ('*' in st['p'][1:] or 'log::Appending' in str(cb.locals[st['p'][0]])):
                    return True
        return any(call_matches(t, ['re:Option::<T>::take$', 're:^std::mem::(take|replace)$']) for _bi, t in cb.calls())
    on_err = []
    for bi, t in b.calls():
        if bi in b.normal_blocks() and call_matches(t, ['re:Result::<T, E>::(map_err|or_else|inspect_err)$']) and t['a'] and op_local(t['a'][0]) is not None:
            src = backward_slice(b, [op_place(t['a'][0])])
            if any(x in ft for x, _ in src.call_sites) and any(closure_clears(c) for c in lib.closure_operands(b, t)):
                on_err.append(bi)
    if on_err and all(b.find_path(list(b.succ(x)), {e}, removed=set(on_err)) is None for x in ft for e in errs):
        clears = clears + errs      # every way into the error arm has passed the clearing closure
    w = b.find_path(errs, b.return_blocks(), removed=set(clears)) if clears else ['?']
    refills = []
    for bi in b.normal_blocks():
        for st in b.blocks[bi]['s']:
            if st['k'] == 'assign' and 'Option<log::Appending>' in str(b.locals[st['p'][0]]) and ('*' in st['p'][1:] or '.Log.appending' in st['p'][1:]):
                if _stored_aggregate(b, st) != 'Adt:std::option::Option::None':
                    refills.append(bi)
    arm = b.reachable_from(errs, removed=set()) if errs else set()
    back = [x for x in refills if x in arm]
    ctx.ob(p + 'k2 torn-file-not-put-back', 'K1-must-pass', b.path,
           'on the error arm of the append nothing is stored back into Log.appending: the file that ends in a torn record does not stay the appending file (a record larger than the writer\'s buffer has spilled its head into the file)',
           not back, '' if not back else 'the slot is refilled on the error arm', b.loc(back[0]) if back else b.loc(ft[0]))
    ctx.ob(p + 'k torn-record-never-handed-over', 'K1-must-pass', b.path,
           'when appending a record fails, the appending log writer is given up before the error is returned (the torn file cannot be flushed into the read queue and applied without validation)',
           w is None, 'the error arm keeps Log.appending: the next flush hands the torn file to the applier' if not clears else 'error path that keeps the writer: ' + lib.short_path(b, w), b.loc(ft[0]))


def unsynced_log_never_abandoned(ctx, p):
    """While a log file is the appending file (Log.appending) its bytes may be in the page cache only. It leaves the slot in one of two
    ways: synced, into the read queue (Log::flush_one), or - the reviewed exception - given up after a torn append (Log::end_record, which
    makes the log worker stop). If any OTHER exit leaves the slot empty with the file neither handed over nor put back (the error exit of a
    failed fdatasync, F82), the log worker - which keeps going through its queue after another worker failed - starts a NEWER file beside the
    unsynced one; the kernel writes the two back independently, and after a power loss the newer records can be on disk without the
    older ones: recovery then takes its first record id from the newer file and replays a non-prefix."""
    F = ctx.F
    TORN_OK = {'log::Log::end_record': 'the append itself failed: the file ends in a torn record and must never reach the non-validating applier; the failed process_commits ends the log worker, so no newer record is logged by this handle (rule k)'}
    PUSH = ['std::collections::VecDeque::<T, A>::push_back', 're:VecDeque.*::(push_front|extend|append|insert)$']
    n = 0
    for b in sorted(F.bodies.values(), key=lambda x: x.path):
        nb = b.normal_blocks()
        empties = []
        for bi, t in b.calls():
            if bi in nb and call_matches(t, ['re:Option::<T>::take$', 're:^std::mem::(take|replace)$']) and t['a'] and '.Log.appending' in lib.receiver_fields(b, t, 0):
                empties.append(bi)
        refills = set()
        for bi in nb:
            for st in b.blocks[bi]['s']:
                if st['k'] != 'assign' or 'Option<log::Appending>' not in str(b.locals[st['p'][0]]) or not ('*' in st['p'][1:] or '.Log.appending' in st['p'][1:]):
                    continue
                # a store into the slot (through the guard or a reference to it): `*appending = None` / `= Some(..)`, directly or via a temporary
                r = st['r']
                ak = None
                if r['k'] == 'agg':
                    ak = r['ak']
                elif r['k'] == 'use' and op_place(r['a'][0]) is not None and len(op_place(r['a'][0])) == 1:
                    ds = [d for d in b.defs().get(op_place(r['a'][0])[0], []) if d[2] == 'assign']
                    if len(ds) == 1 and ds[0][3]['r']['k'] == 'agg':
                        ak = ds[0][3]['r']['ak']
                if ak == 'Adt:std::option::Option::None':
                    empties.append(bi)
                elif ak == 'Adt:std::option::Option::Some' or ak is None:
                    refills.add(bi)         # (a value of unknown shape stored into the slot counts as a refill)
        if not empties:
            continue
        handover = set(bi for bi, t in b.calls() if bi in nb and call_matches(t, PUSH) and '.Log.read_queue' in lib.receiver_fields(b, t, 0))
        # (the hand-over may sit in a helper that always pushes)
        handover |= set(lib.sites_reaching(b, PUSH, lift=False)) if False else set()
        for i, e in enumerate(sorted(set(empties))):
            n += 1
            exits = set(b.return_blocks())
            starts = list(b.succ(e))
            te = b.term(e)
            if te['k'] == 'call' and te.get('d') and len(te['d']) == 1:
                # `take()` took a file only on the Some edge of the test of its result
                for x in sorted(b.reachable_from(starts, removed=set())):
                    tx = b.term(x)
                    if tx['k'] != 'switch':
                        continue
                    d = lib.switch_def(b, x)
                    if d and d[2] == 'assign' and d[3]['r']['k'] == 'discr' and d[3]['r']['p'][0] == te['d'][0] and all(b.dominates(x, y) or y == x for y in [x]) and b.dominates(e, x):
                        some = [tg for v, tg in zip(tx['vals'], tx['ts']) if v == 1]
                        if some:
                            starts = some
                            break
            w = b.find_path(starts, exits, removed=handover | refills)
            tk = [k for k in TORN_OK if lib.site_in(F, k, b.path)]
            if w is not None and tk:
                ctx.ob(p + 'u unsynced-log-never-abandoned %s #%d' % (b.path, i), 'K1-must-pass', b.path, 'reviewed exception: ' + TORN_OK[tk[0]], True, '', b.loc(e))
                continue
            ctx.ob(p + 'u unsynced-log-never-abandoned %s #%d' % (b.path, i), 'K1-must-pass', b.path,
                   'once the appending log file was taken out of its slot, every exit of the function - the error exits too - has either handed it to the read queue or put it back: no exit leaves an unsynced file abandoned while the slot is free for a newer one',
                   w is None, '' if w is None else 'exit that abandons the file: ' + lib.short_path(b, w), b.loc(e))
    ctx.ob(p + 'u0 appending-slot-anchor', 'anchor', 'log::Log', 'the sites that empty Log.appending were found (flush_one, and the torn-record arm of end_record)', n >= 2, '%d sites' % n)


LOG_SLOTS = ['.Log.appending', '.Log.reading', '.Log.read_queue', '.Log.cleanup_queue', '.Log.log_pool', '.Log.replay_queue']
# error exits that let go of a log file handle they took out of a slot or queue, reviewed: (function, slot) -> why nothing is lost
LOG_HANDLE_DROPPED_ON_ERROR_OK = {
    ('log::Log::read_next', '.Log.read_queue'): 'the rewind of a flushed log failed: the file stays on disk at its place in the id order; the commit worker stops on the error, the error shutdown enacts and deletes nothing, the next open replays the file',
    ('log::Log::replay_next', '.Log.replay_queue'): 'the sync of a log found at open failed: Db::open fails as a whole and the next open reads the directory again',
    ('log::Log::kill_logs', '.Log.reading'): 'the unlink of the last, completely enacted log failed at the end of a clean shutdown: the file stays, its replay is idempotent',
    ('log::Log::kill_logs', '.Log.log_pool'): 'a pool file is empty (truncated and fsynced before it entered the pool): when its unlink fails the file stays and the next open deletes it',
    ('log::Log::clean_logs', '.Log.log_pool'): 'a pool file is empty (truncated and fsynced before it entered the pool): when its unlink fails the file stays and the next open deletes it',
    ('log::Log::end_record', '.Log.appending'): 'the append itself failed: the torn file must never reach the non-validating applier (rule k); the failed process_commits ends the log worker',
}


def log_handles_are_linear(ctx, p):
    """Every log file of a session sits in exactly one place: the appending slot, the read queue, the reader slot, the cleanup queue,
    the pool or the replay queue - what the stages do next is read off these places. A function of `Log` that takes a handle out of
    one place puts it into another (or unlinks the file) before it returns. On SUCCESS exits that is unconditional. On error exits
    it is required too (F82: a file dropped on the error exit of a failed fdatasync left the slot free for a newer file), except for
    the reviewed (function, place) pairs of LOG_HANDLE_DROPPED_ON_ERROR_OK."""
    F = ctx.F
    TAKE1 = ['re:VecDeque.*::(pop_front|pop_back)$', 're:Option::<T>::take$', 're:^std::mem::(take|replace)$']
    DRAIN = ['re:VecDeque.*::(drain|split_off)$', 're:Vec.*::drain$']
    PUT = ['re:VecDeque.*::(push_back|push_front|extend|append|insert)$', 're:Extend<.*>>::extend$']
    n = 0
    logfns = [b for b in sorted(F.bodies.values(), key=lambda x: x.path) if b.path.startswith('log::Log::') and '{closure' not in b.path]
    # helpers: one that PUTS a handle it is given into a slot (`retire_reader(reading)`) stands for the put at its call site; one that
    # takes a handle and RETURNS it (`activate_writer() -> (id, file)`) hands the obligation to its callers
    putters, returners = set(), {}
    for b in logfns:
        if any(call_matches(t, PUT) and t['a'] and any(f in lib.receiver_fields(b, t, 0) for f in LOG_SLOTS) for _bi, t in b.calls()):
            putters.add(b.path)
        ret_sl = backward_slice(b, [[0]])
        for bi, t in b.calls():
            if bi in b.normal_blocks() and call_matches(t, TAKE1) and t['a'] and any(x == bi for x, _ in ret_sl.call_sites) and re.search(r'File|log::Appending|log::Reading', str(b.locals[0])):
                for f in LOG_SLOTS:
                    if f in lib.receiver_fields(b, t, 0):
                        returners[b.path] = f
    for b in logfns:
        nb = b.normal_blocks()
        takes = [(bi, f) for bi, t in b.calls() if bi in nb and call_matches(t, TAKE1) and t['a'] for f in LOG_SLOTS if f in lib.receiver_fields(b, t, 0)]
        if b.path in returners:
            takes = [(bi, f) for bi, f in takes if f != returners[b.path]]
        takes += [(bi, returners[nm]) for bi, t in b.calls() if bi in nb for nm in call_names(t) if nm in returners and nm != b.path]
        # `*slot = None` is a take as well
        for bi in nb:
            for st in b.blocks[bi]['s']:
                if st['k'] == 'assign' and re.search(r'Option<log::(Appending|Reading)>', str(b.locals[st['p'][0]])) and ('*' in st['p'][1:] or any(f in st['p'][1:] for f in LOG_SLOTS)):
                    ak = _stored_aggregate(b, st)
                    if ak == 'Adt:std::option::Option::None':
                        takes.append((bi, '.Log.appending' if 'Appending' in str(b.locals[st['p'][0]]) else '.Log.reading'))
        drains = [(bi, f) for bi, t in b.calls() if bi in nb and call_matches(t, DRAIN) and t['a'] for f in LOG_SLOTS if f in lib.receiver_fields(b, t, 0)]
        if not takes and not drains:
            continue
        puts = set(bi for bi, t in b.calls() if bi in nb and call_matches(t, PUT) and t['a'] and any(f in lib.receiver_fields(b, t, 0) for f in LOG_SLOTS))
        puts |= set(lib.sites_reaching(b, ['re:fs::remove_file$']))
        puts |= set(bi for bi, t in b.calls() if bi in nb and any(nm in putters and nm != b.path for nm in call_names(t)))
        for bi in nb:
            for st in b.blocks[bi]['s']:
                if st['k'] == 'assign' and re.search(r'Option<log::(Appending|Reading)>', str(b.locals[st['p'][0]])) and ('*' in st['p'][1:] or any(f in st['p'][1:] for f in LOG_SLOTS)):
                    if _stored_aggregate(b, st) != 'Adt:std::option::Option::None':
                        puts.add(bi)
        errs = core.error_exit_blocks(b)
        work = []
        for e, f in takes:
            starts = list(b.succ(e))
            te = b.term(e)
            if te['k'] == 'call' and te.get('d') and len(te['d']) == 1:
                for x in sorted(b.reachable_from(starts, removed=set())):
                    tx = b.term(x)
                    d = lib.switch_def(b, x) if tx['k'] == 'switch' else None
                    if d and d[2] == 'assign' and d[3]['r']['k'] == 'discr' and d[3]['r']['p'][0] == te['d'][0] and b.dominates(e, x):
                        some = [tg for v, tg in zip(tx['vals'], tx['ts']) if v == 1]
                        if some:
                            starts = some
                            break
            if te['k'] == 'call' and any(nm in returners for nm in call_names(te)) and str(b.locals[te['d'][0]]).startswith('std::result::Result<'):
                # a helper that answers Result<handle>: a handle was taken only on its Ok outcome
                oks = [tg for _sb, v, tg in lib.result_switch_edges(b, e) if v == 0]
                if oks:
                    starts = oks
            work.append((e, f, starts, None))
        for e, f in drains:
            # the handles leave one by one in the loop over the drained range; a drain handed to `extend` / `collect` as a whole moves them all
            lps = [lp for lp in lib.for_loops_over(b) if e in b.reaches(lp['head']) or lp['head'] in b.reachable_from(list(b.succ(e)))]
            lps = [lp for lp in lps if any(x == e for x, _ in backward_slice(b, [op_place(b.term(lp['head'])['a'][0])]).call_sites)] if lps else []
            for lp in lps:
                work.append((e, f, [lp['some']], lp['head']))
        seen_keys = {}
        for e, f, starts, head in work:
            n += 1
            stop = puts | ({head} if head is not None else set())
            if e in errs:
                # the handle is let go in the block that already holds the error result: an error exit
                w_ok = None
                w_err = b.find_path(starts, set(b.return_blocks()), removed=stop)
            else:
                w_ok = b.find_path(starts, set(b.return_blocks()), removed=stop | errs)
                w_err = None
                for x in errs:
                    w_err = w_err or b.find_path(starts, {x}, removed=stop)
            key = '%s %s' % (b.path, f.split('.')[-1])
            seen_keys[key] = seen_keys.get(key, 0) + 1
            if seen_keys[key] > 1:
                key += ' #%d' % seen_keys[key]
            ctx.ob(p + 'L log-handle-placed-on-success %s' % key, 'K1-must-pass', b.path,
                   'a log file handle taken out of a slot or queue of Log is put into another one (or its file is unlinked) on every success path of the function',
                   w_ok is None, '' if w_ok is None else 'success path that lets go of the handle: ' + lib.short_path(b, w_ok), b.loc(e))
            # (a reviewed pair follows its code into a private helper that only the reviewed function reaches)
            why = next((v for (kf, ks), v in sorted(LOG_HANDLE_DROPPED_ON_ERROR_OK.items()) if ks == f and lib.site_in(F, kf, b.path)), None)
            if w_err is not None and why:
                ctx.ob(p + 'Le log-handle-placed-on-error %s' % key, 'K1-must-pass', b.path, 'reviewed exception: ' + why, True, '', b.loc(e))
            else:
                ctx.ob(p + 'Le log-handle-placed-on-error %s' % key, 'K1-must-pass', b.path,
                       'a log file handle taken out of a slot or queue of Log is put into another one (or put back) on every ERROR exit as well: a handle dropped on an error exit leaves a file that no stage knows about while the others go on',
                       w_err is None, '' if w_err is None else 'error exit that lets go of the handle: ' + lib.short_path(b, w_err), b.loc(e))
    ctx.ob(p + 'L0 log-handle-sites', 'anchor', 'log::Log', 'the places where Log moves file handles between its slots and queues were found', n >= 8, '%d sites' % n)


def _stored_aggregate(b, st):
    r = st['r']
    if r['k'] == 'agg':
        return r['ak']
    if r['k'] == 'use' and op_place(r['a'][0]) is not None and len(op_place(r['a'][0])) == 1:
        ds = [d for d in b.defs().get(op_place(r['a'][0])[0], []) if d[2] == 'assign']
        if len(ds) == 1 and ds[0][3]['r']['k'] == 'agg':
            return ds[0][3]['r']['ak']
    return None


def failed_cleanup_keeps_queue_order(ctx, p):
    """Log::clean_logs takes the oldest logs off the cleanup queue and truncates them. A log may leave the queue for good only once
    it IS truncated: if truncating fails, every log taken off and not yet cleaned goes back to the front of the queue. Forgetting
    them lets a later call (the shutdown path) truncate NEWER logs while these stay on disk; the next open replays the stale log
    over newer table state and discards everything behind the gap (F46)."""
    F = ctx.F
    b = ctx.body('log::Log::clean_logs')
    if not b:
        return
    take = lib.field_effect_sites(b, ['re:VecDeque.*::drain$', 're:VecDeque.*::pop_front$', 're:VecDeque.*::split_off$', 're:^std::mem::take$'], '.Log.cleanup_queue')
    back = lib.field_effect_sites(b, ['re:VecDeque.*::push_front$', 're:VecDeque.*::push_back$', 're:VecDeque.*::extend$', 're:Extend<.*>>::extend$', 're:VecDeque.*::append$', 're:VecDeque.*::insert$'], '.Log.cleanup_queue')
    # a loop that puts entries back one by one counts as a whole (its zero-iteration path has nothing to put back)
    for lp in lib.for_loops_over(b):
        if any(x in b.reachable_from([lp['some']], removed={lp['head']}) for x in back):
            back = list(back) + [lp['head']]
    # direct file calls, or calls to a helper / closure that makes them (the helper's Result stands for theirs)
    io = lib.sites_reaching(b, ['re:File::set_len$', 're:File::sync_all$', 're:File::sync_data$', 're:Seek>?::rewind$', 're:::rewind$'])
    ctx.ob(p + 'q0 cleanup-anchors', 'anchor', b.path, 'clean_logs takes logs off the cleanup queue and truncates + syncs them', len(take) >= 1 and len(io) >= 1, 'take %s io %s' % (take, io))
    if not take or not io:
        return
    bad = None
    for x in io:
        for e in lib.result_err_targets(b, x):
            if not any(x in b.reaches(tk) for tk in take):
                continue          # the queue was not touched yet: nothing to put back
            w = b.find_path([e], b.return_blocks(), removed=set(back))
            if w is not None:
                bad = bad or (x, w)
    # what goes back is "everything from position `done` on": a counter that splits the taken logs into cleaned / not cleaned may
    # move past a log only after that log's truncation succeeded (counting it first sends the log whose truncation FAILED to the pool)
    counters = set()
    for x in back:
        t = b.term(x)
        if t['k'] != 'call':
            continue
        for a in t['a']:
            if op_place(a) is None:
                continue
            sl = backward_slice(b, [op_place(a)])
            for l in sl.locals:
                if l < len(b.locals) and str(b.locals[l]) in ('usize', 'u32', 'u64', 'i32', 'i64', 'isize'):
                    counters.add(l)
    incs = []
    for l in sorted(counters):
        for d in b.defs().get(l, []):
            if d[2] != 'assign':
                continue
            r = d[3]['r']
            src = None
            if r['k'] == 'bin' and r['op'] in ('Add', 'AddWithOverflow', 'AddUnchecked'):
                src = r
            elif r['k'] == 'use' and op_place(r['a'][0]) is not None and len(op_place(r['a'][0])) == 2:
                dd = [y for y in b.defs().get(op_place(r['a'][0])[0], []) if y[2] == 'assign' and y[3]['r']['k'] == 'bin' and y[3]['r']['op'] in ('Add', 'AddWithOverflow')]
                src = dd[0][3]['r'] if len(dd) == 1 else None
            if src and any(op_place(a) == [l] for a in src['a']) and any('i' in a for a in src['a']):
                incs.append((l, d[0]))
    for lp in lib.for_loops_over(b):
        region = b.reachable_from([lp['some']], removed={lp['head']})
        for l, blk in incs:
            if blk not in region:
                continue
            inloop_io = [x for x in io if x in region]
            w = b.find_path([lp['some']], {blk}, removed=set(inloop_io) | {lp['head']})
            if w is None:
                # after the call, only on its success edge
                for x in inloop_io:
                    for e in lib.result_err_targets(b, x):
                        w = w or b.find_path([e], {blk}, removed={lp['head']})
            ctx.ob(p + 'q2 log-counted-as-cleaned-only-after-its-truncation', 'K2-order', b.path,
                   'the position that separates the cleaned logs from those that go back onto the queue moves past a log only after the truncation of that log succeeded',
                   w is None, '' if w is None else 'the log is counted before / without its truncation: ' + lib.short_path(b, w), b.loc(blk))
    ctx.ob(p + 'q failed-cleanup-requeues-uncleaned-logs', 'K1-must-pass', b.path,
           'if truncating / syncing a log fails after logs were taken off the cleanup queue, the logs not cleaned are put back onto the queue before the error is returned',
           bad is None, '' if bad is None else 'error of %s returns with the taken logs forgotten: %s' % (b.term(bad[0]).get('r') or b.term(bad[0]).get('f'), lib.short_path(b, bad[1])), b.loc(take[0]))


def lazily_created_files_dropped_leniently(ctx, p):
    """Index and ref-count table files are created by the first entry enacted into the table (the mapping is None until then).
    A table can therefore be queued, re-indexed (nothing to move) and dropped without ever having had a file - after a restart in
    the middle of a growth that is an ordinary state. Removing its file is attempted only if the table has a mapping; an
    unconditional remove_file fails with NotFound, the worker that enacts the DropTable record stops, and every later commit is
    refused with a background error (F47)."""
    F = ctx.F
    n = 0
    for fn, fld in (('index::IndexTable::drop_file', '.IndexTable.map'), ('ref_count::RefCountTable::drop_file', '.RefCountTable.map')):
        b = ctx.body(fn)
        if not b:
            continue
        for s in lib.sites_reaching(b, ['std::fs::remove_file']):
            n += 1
            lib.cond_guarded(ctx, p + 'a unlink-only-if-file-was-created %s' % fn, b, s, 'the table file is unlinked only depending on the table having a mapping (its file was created)', fields=[fld])
    ctx.ob(p + 'a0 drop_file-sites', 'anchor', '-', 'IndexTable::drop_file and RefCountTable::drop_file unlink the table file', n == 2, 'found %d' % n)


RECURSION_REVIEWED = [
    # (pattern every member of the recursive group matches, why its depth is bounded by something other than stored, client-grown data)
    (r'^btree::node::Node::\w+$', 'descends one btree level per call: depth = height of the btree (logarithmic in the number of keys, fan-out >= 5)'),
    # (the NewNode walk of a commit call - prepare_* / claim_* - was on this list as "depth = nesting of a value the caller built and will
    # drop recursively itself"; the fourth-round hunt C10 measured it: the walk needs 4-8 times the stack of the recursive drop, a chain
    # the client can build and drop aborts the process in commit - F70, now reported)
]


def recursion_audit(ctx, p, prefixes):
    """Every group of mutually recursive crate functions under `prefixes` is either reviewed (its depth is bounded by the height of a
    balanced structure or by a value the caller holds in memory) or reported: a walk over STORED, client-grown structure (a tree
    whose height grew commit by commit) must not recurse on a worker's fixed stack - the process aborts, and aborts again on every
    retry after restart."""
    F = ctx.F
    g = {}
    for b in F.bodies.values():
        outs = set()
        for bi, t in b.calls():
            for n in call_names(t):
                if n in F.bodies:
                    outs.add(n)
        g[b.path] = outs
    index, low, st, on, res, c = {}, {}, [], set(), [], [0]
    import sys
    sys.setrecursionlimit(max(10000, sys.getrecursionlimit()))
    def sc(v):
        index[v] = low[v] = c[0]; c[0] += 1; st.append(v); on.add(v)
        for w in g.get(v, ()):
            if w not in index:
                sc(w); low[v] = min(low[v], low[w])
            elif w in on:
                low[v] = min(low[v], index[w])
        if low[v] == index[v]:
            comp = []
            while True:
                w = st.pop(); on.discard(w); comp.append(w)
                if w == v:
                    break
            if len(comp) > 1 or v in g.get(v, ()):
                res.append(sorted(comp))
    for v in sorted(g):
        if v not in index:
            sc(v)
    n = 0
    for comp in res:
        if not any(m.startswith(pf) for m in comp for pf in prefixes):
            continue
        n += 1
        key = ','.join(comp)
        # the identity of a recorded recursion is its set of functions: the same cycle with a helper extracted into it (a superset
        # of a recorded group) is the recorded finding, any other group is a new one
        try:
            import engine as _engine
            pre_ = '%s %sr recursion-depth-bounded ' % (getattr(ctx, 'prop', ''), p)
            for k_ in _engine.load_known_findings():
                if k_.startswith(pre_):
                    old_ = set(k_[len(pre_):].split(','))
                    if old_ and old_ <= set(comp):
                        key = ','.join(sorted(old_))
        except Exception:
            pass
        why = next((w for rx, w in RECURSION_REVIEWED if all(re.match(rx, m) for m in comp)), None)
        ctx.ob(p + 'r recursion-depth-bounded %s' % key, 'K7-recursion-audit', comp[0],
               'a recursive group of functions has a depth bound that does not depend on stored, client-grown structure' + (' [reviewed: %s]' % why if why else ''),
               why is not None, 'recursion over stored data on a fixed-size stack (depth = height of a tree that clients grow commit by commit)')
    ctx.ob(p + 'r0 recursion-survey', 'anchor', '-', 'the call graph was searched for recursive groups under %s' % list(prefixes), True, 'found %d' % n)


def no_fixed_slice_of_client_key(ctx, p, prefixes):
    """A client key (the root key of a tree, a btree key) has whatever length the client chose. Slicing it with a constant range
    (`&key[0..3]`, typically to shorten a log line) panics for shorter keys; inside a worker that kills the thread without recording
    an error: commits keep returning Ok and are never applied (F51)."""
    F = ctx.F
    n = 0
    for b in sorted(F.bodies.values(), key=lambda x: x.path):
        if not any(b.path.startswith(pf) for pf in prefixes):
            continue
        for bi, t in b.calls():
            if bi not in b.normal_blocks() or not call_matches(t, ['re:ops::Index(Mut)?<I>>::index(_mut)?$', 're:ops::Index(Mut)?<I> for \\[T\\]>::index(_mut)?$']) or len(t['a']) < 2:
                continue
            rl = op_local(t['a'][1])
            aggs = [x for (b2, si, kind, x) in b.defs().get(rl, []) if kind == 'assign' and x['r']['k'] == 'agg' and re.search(r'ops::Range(To|Inclusive|ToInclusive)?$', x['r']['ak'])] if rl is not None else []
            consts = [a.get('i') for x in aggs for a in x['r']['a'] if 'i' in a]
            if not aggs or not any(c for c in consts):
                continue
            fl = lib.receiver_fields(b, t, 0)
            # variable-length client data: Vec<u8> payloads of the change-set enums (field 0 = the key as given by the client)
            client = sorted(f for f in fl if re.search(r'(^|@\w+)\.(NodeChange|Operation)\.0$', f))
            ty = str(b.locals[op_local(t['a'][0])]) if op_local(t['a'][0]) is not None else ''
            if not client or 'Vec<u8>' not in ty and '[u8]' not in ty:
                continue
            n += 1
            ctx.ob(p + 's no-fixed-range-slice-of-a-client-key %s' % b.path, 'K7-panic-audit', b.path,
                   'a key of client-chosen length is not sliced with a constant range', False, 'constant range %s applied to %s' % (consts, client), b.loc(bi))
    ctx.ob(p + 's0 client-key-slices', 'K7-panic-audit', '-', 'no constant-range slice of a variable-length client key under %s' % list(prefixes), n == 0, 'found %d' % n)


def one_salt_per_handle(ctx, p):
    """The columns of a handle hash lookups with the salt stored in the metadata (Column::open is given the Metadata); the commit
    path and the administration calls use DbInner.options.salt. The two must be the same value: DbInner::open stores the metadata
    salt into its copy of the options on EVERY path, not only when the caller passed none - a caller-supplied salt that differs
    from the stored one would otherwise make commits unreadable and be written back over the stored salt by add_column /
    drop_last_column / reset_column (F52)."""
    F = ctx.F
    b = ctx.body('db::DbInner::open')
    if not b:
        return
    stores = []
    for bi in b.normal_blocks():
        for st in b.blocks[bi]['s']:
            if st['k'] == 'assign' and '.Options.salt' in st['p'][1:]:
                pls = [op_place(a) for a in st['r'].get('a', []) if op_place(a) is not None]
                if pls and '.Metadata.salt' in backward_slice(b, pls).fields:
                    stores.append(bi)
    made = [bi for bi in b.normal_blocks() for st in b.blocks[bi]['s'] if st['k'] == 'assign' and st['r']['k'] == 'agg' and st['r']['ak'] == 'Adt:db::DbInner']
    ctx.ob(p + 'a0 salt-store-anchor', 'anchor', b.path, 'DbInner::open copies the stored salt into the options it keeps and builds DbInner', len(stores) >= 1 and len(made) == 1, 'stores %s construction %s' % (stores, made))
    if not stores or not made:
        return
    w = b.find_path([0], set(made), removed=set(stores))
    ctx.ob(p + 'a handle-keeps-the-stored-salt', 'K1-must-pass', b.path,
           'on every path the options kept in DbInner get the salt of the stored metadata (the salt the columns were opened with), whatever salt the caller passed',
           w is None, '' if w is None else 'path that keeps the caller\'s salt: ' + lib.short_path(b, w), b.loc(stores[0]))


def free_list_mirror_in_step(ctx, p):
    """Tables of a multitree column keep the on-disk free list (last_removed + links in tombstones) mirrored in memory
    (FreeEntries.stack) so that commit-time claims need not read tombstones. The mirror is only right while every change of the
    head is accompanied by the matching stack operation under the same guard: clear_slot pushes the slot it freed, next_free and
    claim_entries pop the slot they hand out, and claim_entries takes the new head from the mirror. A head change without its stack
    step hands a slot out twice (two values share storage) or loses freed slots."""
    F = ctx.F
    VT = 'table::ValueTable::'
    n = 0
    for fn, op, mode in ((VT + 'clear_slot', 'push', 'after'), (VT + 'next_free', 'pop', 'either'), (VT + 'claim_entries', 'pop', 'either')):
        b = ctx.body(fn)
        if not b:
            continue
        # (the stores may sit in a closure of the function: analysed in the body they are in)
        for cand in lib.family(F, fn):
            if any(bi in cand.normal_blocks() and call_matches(t, lib.ATOMIC_STORE) and '.ValueTable.last_removed' in lib.receiver_fields(cand, t, 0) for bi, t in cand.calls()):
                b = cand
                break
        stores = [bi for bi, t in b.calls() if bi in b.normal_blocks() and call_matches(t, lib.ATOMIC_STORE) and '.ValueTable.last_removed' in lib.receiver_fields(b, t, 0)]
        ops = [bi for bi, t in b.calls() if bi in b.normal_blocks() and call_matches(t, ['re:^std::vec::Vec::<T(, A)?>::%s$' % op, 're:^alloc::vec::Vec::<T(, A)?>::%s$' % op])
               and '.FreeEntries.stack' in lib.receiver_fields(b, t, 0)]
        ctx.ob(p + '0 mirror-anchor %s' % fn, 'anchor', fn, 'the function changes the free-list head and the in-memory mirror (%s)' % op, len(stores) >= 1 and len(ops) >= 1, 'head stores %s stack %s %s' % (stores, op, ops))
        if not stores or not ops:
            continue
        some = lib.prune_option_field(b, '.ValueTable.free_entries', True)
        for i, s in enumerate(stores):
            n += 1
            before = any(b.dominates(o, s) for o in ops)
            left = lib.ok_return_unreachable_avoiding(b, ops, sources=[s], removed_edges=frozenset(some))
            ok = (left is None) or (mode == 'either' and before)
            ctx.ob(p + ' mirror-steps-with-head %s #%d' % (fn, i), 'K1-must-pass', fn,
                   'with a free-entry mirror present, a store to last_removed is accompanied by the %s of the mirror on every success path' % op, ok,
                   '' if ok else 'path from the head store to Ok without the stack %s: %s' % (op, lib.short_path(b, left)), b.loc(s))
        if op == 'push':
            for o in ops:
                r = lib.root_local(b, b.term(o)['a'][1]) if len(b.term(o)['a']) > 1 else None
                rs = [lib.root_local(b, b.term(s)['a'][1]) for s in stores if len(b.term(s)['a']) > 1]
                ctx.ob(p + '1 mirror-pushes-the-freed-slot %s' % fn, 'K9-provenance', fn, 'the slot pushed onto the mirror is the slot stored as the new head (same parameter)',
                       r is not None and 1 <= r <= b.argc and all(x == r for x in rs), 'push root %s, head-store roots %s' % (r, rs), b.loc(o))
        if fn.endswith('claim_entries'):
            for i, s in enumerate(stores):
                a = b.term(s)['a']
                sl = backward_slice(b, [op_place(a[1])]) if len(a) > 1 and op_place(a[1]) is not None else None
                ok = bool(sl) and '.FreeEntries.stack' in sl.fields and any(re.search(r'::last$', c) for c in sl.calls)
                ctx.ob(p + '2 claimed-head-comes-from-the-mirror #%d' % i, 'K9-provenance', fn, 'claim_entries takes the next free-list head from the top of the mirror after the pop (the only copy of the link it may use: it has no log to read tombstones through)', ok, '', b.loc(s))
    ctx.ob(p + '9 mirror-sites', 'anchor', '-', 'head stores checked against the mirror', n >= 3, 'found %d' % n)

def removal_planned_in_order(ctx, p):
    F = ctx.F
    # 9. inside one commit the keyed changes of a column set (Set / Reference / Dereference of root keys) and its tree removals are
    # planned in the order they were given: a removal decides "last reference gone" from the root's count as the record under
    # construction shows it, so a ReferenceTree given before it has to be in that record already (seed C10-node-changes-planned-
    # before-keyed-changes) and an InsertTree of the same key given AFTER it must not be (F63: remove + insert of one tree in one
    # transaction lost the tree). A removal carries the number of keyed changes given before it (its position).
    wp = ctx.body('db::IndexedChangeSet::write_plan')
    if wp:
        POS = '@DereferenceChildren.NodeChange.3'
        def reads_pos_here(b):
            for blk in b.blocks:
                for st in blk['s']:
                    if st['k'] != 'assign':
                        continue
                    pls = [st['p']] + ([st['r'].get('p')] if st['r'].get('p') else []) + [op_place(a_) for a_ in st['r'].get('a', []) if op_place(a_)]
                    for pl in pls:
                        es = [e for e in pl[1:] if isinstance(e, str)]
                        if any(x == '@DereferenceChildren' and y == '.NodeChange.3' for x, y in zip(es, es[1:])):
                            return pos_value_clean(b)
            return False
        def pos_value_clean(b):
            # the value made from the position is the position itself, at most clamped to the length of the keyed change list: every
            # integer that flows into it is the position field, `changes.len()`, or a min/clamp of those - no constant, no captured number
            bad = []
            roots = [op_place(st['r']['a'][0]) for blk in b.blocks for st in blk['s'] if st['k'] == 'assign' and st['r']['k'] == 'agg'
                     and st['r']['ak'] == 'Adt:std::option::Option::Some' and st['r']['a'] and op_place(st['r']['a'][0]) is not None]
            roots += [[0]] if 'usize' == str(b.locals[0]) else []
            sl = backward_slice(b, roots) if roots else None
            if sl is None or '.NodeChange.3' not in sl.fields:
                return True     # the position is not turned into a bound here (it is only passed on)
            if any(c.get('o') == 'k' or 'v' in c for c in sl.consts if str(c.get('ty', 'usize')) in ('usize', 'u64', 'u32')):
                bad.append('constant')
            for l in sl.locals:
                if str(b.locals[l]).lstrip('&') not in ('usize',):
                    continue
                for d in b.defs().get(l, []):
                    if d[2] == 'assign':
                        r = d[3]['r']
                        pls = ([r.get('p')] if r.get('p') else []) + [op_place(a_) for a_ in r.get('a', []) if op_place(a_)]
                        for pl in pls:
                            es = [e for e in pl[1:] if isinstance(e, str)]
                            if es and es[-1].startswith('.^'):
                                bad.append('captured number %s' % es[-1])
                        if r['k'] == 'use' and r['a'] and op_place(r['a'][0]) is None:
                            bad.append('constant operand')
                    elif d[2] == 'call' and not call_matches(d[3], ['re:::len$', 're:cmp::Ord::(min|clamp)$', 're:::min$', 're:Deref', 're:::clone$']):
                        bad.append('call %s' % call_names(d[3])[:1])
            for bi_, t_ in b.calls():
                if call_matches(t_, ['re:cmp::Ord::(min|clamp|max)$']) and any(op_place(a_) is None for a_ in t_['a']):
                    bad.append('constant clamp')
            return not bad
        def reads_pos(names, depth=3, seen=None):
            seen = set() if seen is None else seen
            for n in names:
                cb = F.body(n)
                # closures of the planner, or a private helper of the change set that computes the bound (`next_removal_position(from)`)
                helper = n.startswith('db::IndexedChangeSet::') and cb is not None and str(cb.locals[0]) in ('usize', 'std::option::Option<usize>')
                if cb is None or n in seen or not (n.startswith(wp.path + '::{closure') or '{closure' in n or helper):
                    continue
                seen.add(n)
                if reads_pos_here(cb):
                    return True
                inner = set(st['r']['ak'][8:] for blk in cb.blocks for st in blk['s'] if st['k'] == 'assign' and st['r']['k'] == 'agg' and str(st['r'].get('ak', '')).startswith('Closure:'))
                inner |= set(x for bi_, t_ in cb.calls() for x in core.call_names(t_))
                if depth > 0 and reads_pos(inner, depth - 1, seen):
                    return True
            return False
        def bounded(sl):
            return '.NodeChange.3' in sl.fields or reads_pos(sl.calls)
        planners = [n for n, pb in F.bodies.items() if n != wp.path and n.startswith('db::IndexedChangeSet::') and '{closure' not in n
                    and lib.for_loops_over(pb, '.IndexedChangeSet.changes') and lib.sites_reaching(pb, ['column::HashColumn::write_plan'])]
        K = {}
        for bi, t in wp.calls():
            if bi in wp.normal_blocks() and any(n in planners for n in call_names(t)):
                sls = [backward_slice(wp, [op_place(a_)]) for a_ in t['a'] if op_place(a_) is not None]
                K[bi] = any(bounded(sl) for sl in sls)
        for l in lib.for_loops_over(wp, '.IndexedChangeSet.changes'):
            t = wp.term(l['head'])
            K[l['head']] = bounded(backward_slice(wp, [op_place(t['a'][0])])) if t['a'] and op_place(t['a'][0]) is not None else False
        D = sorted(lib.sites_reaching(wp, ['column::HashColumn::get']))
        ctx.ob(p + 'a0 plan-sites', 'anchor', wp.path, 'write_plan plans the keyed changes of the set (a loop over .changes, here or in a helper) and decides tree removals from a read of the root (HashColumn::get)',
               len(K) >= 1 and len(D) >= 1, 'keyed planning sites %s (True = bounded by a removal position), removal decisions %s' % (sorted(K.items()), D))
        for n, d in enumerate(D):
            before = [k for k in K if d in wp.reaches(k) and k != d]
            unb = [k for k in before if not K[k]]
            dom = [k for k in before if K[k] and wp.dominates(k, d)]
            ctx.ob(p + 'a removal-planned-where-it-was-given #%d' % n, 'K2-order', wp.path,
                   'the keyed changes planned before a tree removal are those given before it: every keyed planning that can precede the removal is bounded by a removal position, and one such planning dominates it',
                   not unb and bool(dom), 'unbounded planning of ALL keyed changes before the removal at %s' % [wp.loc(k) for k in unb] if unb else ('' if dom else 'no position-bounded planning dominates the removal'), wp.loc(d))
            lib.must_pass(ctx, p + 'b rest-of-keyed-changes-planned-after-removal #%d' % n, wp, sorted(K), 'after a removal every success path plans the keyed changes that follow it', sources=[d])
        ln = lib.for_loops_over(wp, '.IndexedChangeSet.node_changes')
        if K and ln:
            w = wp.find_path([0], set(l['none'] for l in ln), removed=set(K))
            ctx.ob(p + 'b0 keyed-changes-planned', 'K1-must-pass', wp.path, 'the end of the walk over the node changes is reached only through a planning of keyed changes', w is None,
                   '' if w is None else 'path without keyed planning: ' + lib.short_path(wp, w))
    # the position is the number of keyed changes the set holds when the removal is added
    n9 = 0
    for cb_ in sorted(F.bodies.values(), key=lambda x: x.path):
        for bi in cb_.normal_blocks():
            for st in cb_.blocks[bi]['s']:
                if st['k'] == 'assign' and st['r']['k'] == 'agg' and st['r']['ak'] == 'Adt:db::NodeChange::DereferenceChildren':
                    n9 += 1
                    ops_ = st['r']['a']
                    sl = backward_slice(cb_, [op_place(ops_[3])]) if len(ops_) >= 4 and op_place(ops_[3]) is not None else None
                    ok = bool(sl) and '.IndexedChangeSet.changes' in sl.fields and any(re.search(r'::len$', c) for c in sl.calls)
                    ctx.ob(p + 'c removal-position-is-the-count-of-earlier-keyed-changes %s' % cb_.path, 'K9-provenance', cb_.path,
                           'a DereferenceChildren is built with the length of the set\'s keyed change list at that moment', ok, '', cb_.loc(bi))
    ctx.ob(p + 'c0 removal-constructions', 'anchor', '-', 'the places that build NodeChange::DereferenceChildren were found', n9 >= 1, 'found %d' % n9)


def requeued_change_set_is_flagged(ctx, p):
    """C11: a change set that the log worker puts (back) onto the commit queue - the postponed tree removals - is looked at again
    when its turn comes: process_commits runs the reader-lock test and the queue scan only for change sets whose
    `check_for_deferral` is set, so every Commit pushed by the worker's family carries a change set with the flag constant true
    (made so in the aggregate, assigned before the push, or handed in by callers whose argument is)."""
    import symterm
    F = ctx.F
    pc = ctx.body('db::DbInner::process_commits')
    if not pc:
        return
    adt = F.adts.get('db::CommitChangeSet')
    cadt = F.adts.get('db::Commit')
    if not adt or not cadt:
        ctx.ob(p + '0 requeue-anchor', 'anchor', pc.path, 'CommitChangeSet / Commit layouts known', False, '')
        return
    fields = [f['name'] for f in adt['variants'][0]['fields']]
    cfields = [f['name'] for f in cadt['variants'][0]['fields']]
    if 'check_for_deferral' not in fields or 'changeset' not in cfields:
        ctx.ob(p + '0 requeue-anchor', 'anchor', pc.path, 'CommitChangeSet.check_for_deferral and Commit.changeset exist', False, str(fields))
        return
    fi, ci = fields.index('check_for_deferral'), cfields.index('changeset')
    fam = lib.family(F, pc.path)
    fam_paths = set(b.path for b in fam)
    tbs = {}

    def tb_of(b):
        if b.path not in tbs:
            tbs[b.path] = symterm.TermBuilder(F, b, depth=0)
        return tbs[b.path]

    def field_writes(b, l):
        """[(block, value-term)] of assignments to <l>.check_for_deferral, and blocks that overwrite l as a whole"""
        tb = tb_of(b)
        fw, whole = [], []
        for bi, kind, pl in tb.defs.get(l, []):
            if kind == 'partial' and pl.get('k') == 'assign' and any(isinstance(x, str) and x.endswith('.check_for_deferral') for x in pl['p'][1:]):
                fw.append((bi, tb.rvalue(pl['r'])))
            elif kind != 'partial':
                whole.append(bi)
        return fw, whole

    def flagged(b, operand, site, depth=0):
        """(ok, why) - is the flag of the change set in `operand` constant true when control reaches `site`?"""
        tb = tb_of(b)
        pl = op_place(operand)
        if pl is None:
            return False, 'not a place'
        # follow plain moves to the local that holds the value
        l = pl[0]
        for _ in range(6):
            ds = tb.defs.get(l, [])
            whole = [d for d in ds if d[1] == 'rv']
            if len(pl) == 1 and len(whole) == 1 and whole[0][2]['k'] == 'use' and op_place(whole[0][2]['a'][0]) is not None and not (1 <= l <= b.argc):
                pl = op_place(whole[0][2]['a'][0])
                l = pl[0]
            else:
                break
        if len(pl) > 1:
            return False, 'a projection of another value (%s)' % (pl,)
        fw, whole = field_writes(b, l)
        # the last write of the flag before the site
        if fw:
            for bi, v in fw:
                if symterm.strip_casts(v) != symterm.K(1) or not (b.dominates(bi, site) or bi == site):
                    continue
                others = (set(x for x, _ in fw) | set(whole)) - {bi}
                between = [o for o in others if o in b.reaches(bi) and (site in b.reaches(o) or o == site)]
                if not between:
                    return True, 'assigned true at %s' % b.loc(bi)
            return False, 'the flag is assigned, but not constant true on every path to the push'
        ds = [d for d in tb.defs.get(l, []) if d[1] != 'partial']
        if len(ds) == 1 and ds[0][1] == 'rv' and ds[0][2]['k'] == 'agg' and ds[0][2].get('ak') == 'Adt:db::CommitChangeSet':
            v = tb.operand(ds[0][2]['a'][fi])
            return (symterm.strip_casts(v) == symterm.K(1)), 'built with check_for_deferral = %s at %s' % (symterm.show(v), b.loc(ds[0][0]))
        if 1 <= l <= b.argc and not ds:
            if depth > 3:
                return False, 'call chain too deep'
            callers = [(cb, bi) for cb in fam for bi, t in cb.calls() if b.path in call_names(t)]
            if not callers:
                return False, 'a parameter of %s, which has no caller in the log worker family' % b.path
            for cb, bi in callers:
                ok, why = flagged(cb, cb.term(bi)['a'][l - 1], bi, depth + 1)
                if not ok:
                    return False, 'argument of the call at %s: %s' % (cb.loc(bi), why)
            return True, 'every caller hands in a flagged change set'
        # made by a crate helper that returns the change set (`commit.changeset.split_off_tree_removals()`): the flag of what it returns
        cds = [d for d in tb.defs.get(l, []) if d[1] == 'call']
        if len(cds) == 1 and len(ds) == 1 and depth <= 3:
            hn = [n for n in call_names(cds[0][2]) if n in F.bodies and 'CommitChangeSet' in str(F.bodies[n].locals[0])]
            if hn:
                hb = F.bodies[hn[0]]
                rets = [r for r in hb.return_blocks() if r in hb.normal_blocks()]
                if rets:
                    res = [flagged(hb, {'o': 'm', 'p': [0]}, r, depth + 1) for r in rets]
                    if all(o for o, _ in res):
                        return True, 'returned flagged by %s' % hn[0]
                    return False, 'returned by %s: %s' % (hn[0], [w for o, w in res if not o][:1])
        return False, 'made by %s' % ([symterm.show(tb.rvalue(d[2]) if d[1] == 'rv' else tb.call(d[2]))[:80] for d in ds] or 'nothing visible')

    n = 0
    for b in fam:
        for site in queue_push_sites(b):
            t = b.term(site)
            n += 1
            arg = t['a'][1] if len(t['a']) > 1 else None
            ok, why = False, 'pushed value not visible'
            if arg is not None and op_place(arg) is not None:
                tb = tb_of(b)
                l = op_place(arg)[0]
                for _ in range(6):      # follow plain moves back to the local the Commit was built in
                    dd = tb.defs.get(l, [])
                    if len(dd) == 1 and dd[0][1] == 'rv' and dd[0][2]['k'] == 'use' and op_place(dd[0][2]['a'][0]) is not None and len(op_place(dd[0][2]['a'][0])) == 1:
                        l = op_place(dd[0][2]['a'][0])[0]
                    else:
                        break
                ds = [d for d in tb.defs.get(l, []) if d[1] == 'rv' and d[2]['k'] == 'agg' and d[2].get('ak') == 'Adt:db::Commit']
                if len(ds) == 1:
                    ok, why = flagged(b, ds[0][2]['a'][ci], ds[0][0])
                else:
                    why = 'the pushed Commit is not built next to the push'
            ctx.ob(p + ' requeued-change-set-is-checked-again %s' % b.path, 'K4-provenance', b.path,
                   'a change set the log worker pushes onto the commit queue (postponed tree removals) has check_for_deferral constant true: the reader-lock test and the queue scan run again at its next turn',
                   ok, why, b.loc(site))
    ctx.ob(p + '0 requeue-anchor', 'anchor', pc.path, 'the log worker family pushes onto the commit queue in at least two places (whole-commit and split deferral)', n >= 2, 'push sites: %d' % n)


def chain_link_markers_agree(ctx, p):
    """C06 / C14: whether an entry of a value table carries a link to a next part is decided from its two marker bytes. Every
    place that follows such a link (reader of a value, writer that reuses / trims / clears the old chain, validators) must accept
    the same set of markers - a marker the reader follows and the releasing side does not (or the reverse) leaves parts of a chain
    behind or walks into foreign slots. Decided on constants: the set of two-byte markers compared `==` in the guards of each
    `read_next` site (through the predicate helpers of Entry), grouped into link families by overlap; inside a family all sets are
    equal; every marker written by an Entry method is recognised by a family."""
    F = ctx.F
    READ_NEXT = ['re:^table::Entry::<B>::read_next$', 're:^table::Entry.*::read_next$']
    def marker(o):
        if isinstance(o, dict) and o.get('o') == 'k' and 's' in o and o.get('ty', '').replace("'static ", '') in ('&[u8]', '&&[u8]') and len(o['s']) == 2:
            return o['s']
        return None
    def consts_of_body(b):
        out = set()
        for bi in b.normal_blocks():
            for s in b.blocks[bi]['s']:
                if s['k'] == 'assign':
                    for a in s['r'].get('a', []) or []:
                        m = marker(a)
                        if m:
                            out.add(m)
            t = b.term(bi)
            if t['k'] == 'call':
                for a in t['a']:
                    m = marker(a)
                    if m:
                        out.add(m)
        return out
    memo = {}
    def predicate_markers(name, depth=0):
        """markers compared inside a crate predicate (a function returning bool), through the predicates it calls"""
        if name in memo:
            return memo[name]
        memo[name] = set()
        b = F.bodies.get(name)
        if b is None or depth > 4 or str(b.locals[0]) != 'bool':
            return memo[name]
        out = set(consts_of_body(b))
        for _, t in b.calls():
            for n in call_names(t):
                if n in F.bodies and n != name:
                    out |= predicate_markers(n, depth + 1)
        memo[name] = out
        return out
    sites = []
    looked_at = set()
    for path, b in sorted(F.bodies.items()):
        if not path.startswith('table::'):
            continue
        rn = [s for s in b.call_sites(*READ_NEXT) if s in b.normal_blocks()]
        if not rn:
            continue
        # the marker tests of this body: two-way branches whose condition compares markers (directly or through Entry predicates)
        tests = []
        for sw in sorted(b.normal_blocks()):
            t = b.term(sw)
            if t['k'] != 'switch' or op_place(t['a']) is None or t.get('vals') != [0] or len(t['ts']) != 2:
                continue
            sl = backward_slice(b, [op_place(t['a'])])
            ms = set()
            for c in sl.consts:
                m = marker(c)
                if m:
                    ms.add(m)
            for bi, ct in sl.call_sites:
                for a in ct['a']:
                    m = marker(a)
                    if m:
                        ms.add(m)
            for l in sl.locals:
                for d in b.defs().get(l, []):
                    if d[2] == 'assign' and d[3]['r']['k'] == 'use':
                        m = marker(d[3]['r']['a'][0])
                        if m:
                            ms.add(m)
            for c in sl.calls:
                ms |= predicate_markers(c)
            if ms:
                # a branch on a flag local (several definitions: `linked = true / false / a == M`) does not stand in the way of the
                # tests that set the flag; the path search knows the constant the flag was last set to
                root = op_place(t['a'])[0]
                for _ in range(4):
                    dd = b.defs().get(root, [])
                    if len(dd) == 1 and dd[0][2] == 'assign' and dd[0][3]['r']['k'] == 'use' and op_place(dd[0][3]['r']['a'][0]) is not None:
                        root = op_place(dd[0][3]['r']['a'][0])[0]
                    else:
                        break
                flag = len(b.defs().get(root, [])) > 1
                tests.append((sw, t['ts'][1], frozenset(ms), flag))
                looked_at |= ms
        for s in rn:
            acc = set()
            for sw, nz, ms, flag in tests:
                others = set(x[0] for x in tests if not x[3]) - {sw}
                # accepted: the true edge of the test reaches the link read without needing another marker test
                if s == nz or b.find_path([nz], {s}, removed=others | {sw}) is not None:
                    acc |= ms
            sites.append((b, s, frozenset(acc)))
    guarded = [x for x in sites if x[2]]
    ctx.ob(p + '0 link-read-anchor', 'anchor', 'table::', 'at least two places in table.rs read a next-slot link under a marker test (reader and chain writer) and at least four read one at all', len(guarded) >= 2 and len(sites) >= 4,
           '%s' % [(b.path, sorted(m.encode('latin-1').hex() for m in ms)) for b, s, ms in sites])
    # families by overlap
    fams = []
    for x in guarded:
        for f in fams:
            if any(x[2] & y[2] for y in f):
                f.append(x)
                break
        else:
            fams.append([x])
    for f in fams:
        ref = max((x[2] for x in f), key=len)
        for b, s, ms in f:
            ctx.ob(p + ' link-markers-agree %s' % b.path, 'K9-agreement', b.path,
                   'the markers under which this function follows a next-slot link are those under which every other follower of the same kind of link does',
                   ms == ref, 'accepts {%s}, a sibling accepts {%s}' % (', '.join(sorted(m.encode('latin-1').hex() for m in ms)), ', '.join(sorted(m.encode('latin-1').hex() for m in ref))), b.loc(s))
    # written markers are known to a family
    written = set()
    for path, b in sorted(F.bodies.items()):
        if path.startswith('table::Entry') and any(call_matches(t, ['re:write_slice$']) for _, t in b.calls()):
            written |= consts_of_body(b)
    known = looked_at
    ctx.ob(p + 'w written-markers-are-followed', 'K9-agreement', 'table::Entry', 'every marker an Entry method writes is one the link followers test for (accepting or rejecting)',
           bool(written) and written <= known, 'written {%s} recognised {%s}' % (sorted(m.encode('latin-1').hex() for m in written), sorted(m.encode('latin-1').hex() for m in known)))
    ctx.info[p + ' link families'] = [[(b.path, sorted(m.encode('latin-1').hex() for m in ms)) for b, s, ms in f] for f in fams]


def page_search_hands_out_only_compared_entries(ctx, p):
    """F67: the vectorised page search reads the candidate slot a second time from a page that may be a live mapping; the entry it
    hands out must be re-checked against the compare target (decided by the C19 rules on the provenance terms of the routine: the
    obligation is taken over from there, so that the properties whose reads go through the page search report it as well)."""
    from props import C19
    class Sub:
        def __init__(self, ctx):
            self.F, self.info, self.obs, self.cfg, self.prop = ctx.F, {}, [], ctx.cfg, 'C19'
        def ob(self, key, rule, fn, desc, ok, detail='', loc=None):
            self.obs.append((key, rule, fn, desc, bool(ok), detail, loc))
            return bool(ok)
        def body(self, path):
            return self.F.body(path)
        def note(self, s):
            pass
    sub = Sub(ctx)
    C19.run(sub)
    hit = [o for o in sub.obs if o[0].startswith('5b ')]
    if hit:
        key, rule, fn, desc, ok, detail, loc = hit[0]
        ctx.ob(p + ' page-search-hands-out-only-compared-entries', rule, fn, desc, ok, detail, loc)
    else:
        first_bad = [o for o in sub.obs if not o[4]]
        ctx.ob(p + ' page-search-hands-out-only-compared-entries', 'K3-guard', '-', 'the page search re-checks the entry it reads again before handing it out',
               False, 'the page-search analysis stopped before reaching the re-check: %s' % (first_bad[0][0] if first_bad else 'no vector routine found'))


def walk_frees_children_of_the_root_found(ctx, p):
    """F69 (C10, C14): the node walk of a tree removal starts from the child list of the root value that the planning step has
    just read and is removing - not from a list stored in the change set when the transaction was submitted, which belongs to
    another root as soon as an earlier operation of the same transaction (or an earlier commit) replaced the root."""
    F = ctx.F
    WALK = 'db::IndexedChangeSet::write_dereference_children_plan'
    wpl = ctx.body('db::IndexedChangeSet::write_plan')
    if not wpl:
        return
    walk = [(fb, s) for fb, s in lib.fam_sites(F, wpl.path, [WALK]) if fb.path != WALK]
    ctx.ob(p + '0 removal-walk-anchor', 'anchor', wpl.path, 'the planning of a change set starts the node walk of a tree removal somewhere', len(walk) >= 1, str([(b.path, s) for b, s in walk]))
    for fb, s in walk:
        t = fb.term(s)
        cands = [a for a in t['a'] if op_place(a) is not None and re.search(r'Vec<u64>|\[u64\]|Children', str(fb.locals[op_place(a)[0]]))]
        ok, det = False, 'no child-list argument found'

        def prov(b, place, depth=3):
            sl = backward_slice(b, [place])
            from_root = any(re.search(r'unpack_node_data$', c) for c in sl.calls) and any(re.search(r'HashColumn::get$', c) for c in sl.calls)
            stored = [f for f in sl.fields if re.search(r'DereferenceChildren\.NodeChange\.2$|NodeChange\.2$', f)]
            # the payload of the change may be looked at for the key / hash (fields 0, 1), not for the children
            if stored:
                return False, 'the walk is handed the child list stored in the change set (%s)' % stored[0]
            if from_root:
                return True, ''
            # the list is a parameter of a helper that the planning step calls: look at what every caller hands over
            ps = sorted(x for x in sl.params if 1 <= x <= b.argc)
            callers = [(cb, cs) for cb, cs in lib.fam_sites(F, wpl.path, [b.path]) if cb.path != b.path]
            if depth > 0 and len(ps) == 1 and callers and '{closure' not in b.path:
                for cb, cs in callers:
                    a = cb.term(cs)['a']
                    if len(a) < ps[0] or op_place(a[ps[0] - 1]) is None:
                        return False, 'the child list handed over by %s is not a place' % cb.path
                    r = prov(cb, op_place(a[ps[0] - 1]), depth - 1)
                    if not r[0]:
                        return r
                return True, ''
            return False, 'the child list does not come from unpacking the root value returned by HashColumn::get'
        if cands:
            ok, det = prov(fb, op_place(cands[0]))
        ctx.ob(p + ' walk-starts-from-the-root-found %s' % fb.path, 'K4-provenance', fb.path,
               'the children handed to the removal walk are unpacked from the root value that this planning step read (and removes)', ok, det, fb.loc(s))


def column_file_mover(F):
    """def-path of the function of the migration module that copies or renames the files of one column (`deplace_column` on the tree
    the rules were written against): found by what it does - the one function of `migration` that calls both std::fs::copy and
    std::fs::rename - so that a rename or a change of its mode parameter does not lose it."""
    c = [b.path for b in F.bodies.values() if b.path.startswith('migration::') and '{closure' not in b.path
         and b.call_sites('std::fs::copy') and b.call_sites('std::fs::rename')]
    return c[0] if len(c) == 1 else 'migration::deplace_column'


def borrow(ctx, modname, key_start, new_key):
    """take over one obligation decided by another property's module (run on the same facts), under a key of this property"""
    import importlib
    mod = importlib.import_module('props.' + modname)
    class Sub:
        def __init__(self, ctx):
            self.F, self.info, self.obs, self.cfg, self.prop, self.tier = ctx.F, {}, [], ctx.cfg, modname, getattr(ctx, 'tier', 'quick')
            self._ctx = ctx
        def ob(self, key, rule, fn, desc, ok, detail='', loc=None):
            self.obs.append((key, rule, fn, desc, bool(ok), detail, loc))
            return bool(ok)
        def body(self, path):
            return self.F.body(path)
        def note(self, s):
            pass
        def use(self, c):
            pass
    cache = ctx.__dict__.setdefault('_borrow_cache', {})
    k = (modname, ctx.cfg)
    if k not in cache:
        sub = Sub(ctx)
        mod.run(sub)
        cache[k] = sub.obs
    hit = [o for o in cache[k] if o[0].startswith(key_start)]
    if not hit:
        ctx.ob(new_key, 'anchor', '-', 'obligation %s of %s exists' % (key_start, modname), False, 'not produced on this tree')
        return
    # (several instances under one key prefix: the borrowed obligation holds if all of them do; a failing one is shown)
    hit = sorted(hit, key=lambda o: o[4])
    for key, rule, fn, desc, ok, detail, loc in hit[:1]:
        ctx.ob(new_key, rule, fn, desc, ok, detail, loc)


def header_cache_reloaded_after_replay(ctx, p):
    """C02 / C14: replay rewrites table headers on disk; the in-memory copy of the fill mark and of the free-list head is reloaded
    afterwards for every table that has a file - not only when some cheaper indicator suggests that a header was replayed (a
    replayed header can keep the fill mark and move the free-list head: the stale head then points at a live entry)."""
    F = ctx.F
    rm = ctx.body('table::ValueTable::refresh_metadata')
    if not rm:
        return
    fields = ['.ValueTable.filled', '.ValueTable.last_removed']
    stores = {f: [bi for b_, bi in lib.calls_on_field(F, ['re:Atomic.*::store$'], f, bodies=[rm])] for f in fields}
    reads = lib.sites_reaching(rm, ['file::TableFile::read_at', 're:TableFile::(read_at|slice_at)$'])
    ctx.ob(p + '0 refresh-anchor', 'anchor', rm.path, 'refresh_metadata reads the file and stores the fill mark and the free-list head', bool(reads) and all(stores.values()),
           'reads %s stores %s' % (reads, stores))
    if not (reads and all(stores.values())):
        return
    rets = [r for r in rm.return_blocks() if r not in core.error_exit_blocks(rm)] or list(rm.return_blocks())
    # branches that may skip the reload: only "the table has no file" (TableFile.map is None)
    for f in fields:
        bad = None
        w = lib.ok_return_unreachable_avoiding(rm, stores[f])
        if w is not None:
            # every store-free way out must leave through the none-edge of a test of the mapping
            nomap_edges = set()
            for sw in rm.normal_blocks():
                t = rm.term(sw)
                if t['k'] != 'switch' or op_place(t['a']) is None:
                    continue
                sl = backward_slice(rm, [op_place(t['a'])])
                if '.TableFile.map' in sl.fields and any(re.search(r'Option::<.*>::is_(none|some)$', c) for c in sl.calls) and t.get('vals') == [0] and len(t['ts']) == 2:
                    is_none = any(re.search(r'is_none$', c) for c in sl.calls)
                    nomap_edges.add((sw, t['ts'][1] if is_none else t['ts'][0]))
            w2 = lib.ok_return_unreachable_avoiding(rm, stores[f], removed_edges=frozenset(nomap_edges))
            if w2 is not None:
                bad = lib.short_path(rm, w2)
        ctx.ob(p + ' header-cache-reloaded-whenever-the-table-has-a-file %s' % f.split('.')[-1], 'K1-must-pass', rm.path,
               'every successful return of refresh_metadata has stored %s, except when the table has no file' % f.split('.')[-1], bad is None, 'path that keeps the cached value: %s' % bad)
    for f in fields:
        for s in stores[f]:
            ctx.ob(p + 'r reload-follows-the-header-read %s' % f.split('.')[-1], 'K2-order', rm.path, 'the stored value is stored after the header was read from the file',
                   any(rm.dominates(r, s) for r in reads), '', rm.loc(s))


def counted_changes_are_all_applied(ctx, p):
    """C07 (btree columns): the sorted change list of a commit is consumed one change at a time. A change may leave the list without
    having been handed to the planner (Node::insert / Node::on_existing, which end in write_existing_value_plan) only through the
    shortcut "the next change has the same key and overrides this one" - and that shortcut is sound only where a change is an
    overwrite, i.e. when the tree is NOT reference counted. In a counted tree every Set / Reference / Dereference moves the counter."""
    F = ctx.F
    b = ctx.body('btree::node::Node::change')
    if not b:
        return
    params = [l for l in range(1, b.argc + 1) if re.search(r'^&mut &\[db::Operation<', str(b.locals[l]))]
    ctx.ob(p + '0 change-list-anchor', 'anchor', b.path, 'Node::change takes the change list as `&mut &[Operation]`', len(params) == 1, str(params))
    if len(params) != 1:
        return
    cl = params[0]
    adv = sorted(set(bi for bi in b.normal_blocks() for st in b.blocks[bi]['s'] if st['k'] == 'assign' and st['p'][0] == cl and st['p'][1:] == ['*']))
    apply_blocks = set()
    for bi, t in b.calls():
        if bi not in b.normal_blocks() or not any(n in F.bodies for n in call_names(t)):
            continue
        for a in t['a']:
            pl = op_place(a)
            # the callee is handed the LIST (a reborrow of the `&mut &[Operation]` parameter), not one of its elements
            if pl is not None and len(pl) == 1 and re.search(r'^&mut &\[db::Operation<', str(b.locals[pl[0]])) and \
                    cl in backward_slice(b, [pl], through_calls=False).params | ({cl} if pl[0] == cl else set()):
                apply_blocks.add(bi)
    ctx.ob(p + '1 advance-and-apply-anchor', 'anchor', b.path, 'Node::change advances the list in several places and hands it to planner functions', len(adv) >= 2 and len(apply_blocks) >= 2,
           'advance blocks %s apply calls %s' % (adv, sorted(apply_blocks)))
    heads = [h for h, body_, lat in _natural_loops(b)]
    for n, a in enumerate(adv):
        hs = [h for h in heads if b.dominates(h, a)] or [0]
        w = b.find_path(hs, {a}, removed=apply_blocks, sensitive=False)
        ok, det = True, ''
        if w is not None:
            ok = False
            det = 'a change leaves the list unapplied: ' + lib.short_path(b, w)
            for (sw, yes, no) in b.control_deps(a):
                t = b.term(sw)
                if t['k'] != 'switch' or op_place(t['a']) is None or t.get('vals') != [0] or len(t['ts']) != 2:
                    continue
                sl = backward_slice(b, [op_place(t['a'])], through_calls=False)
                if not any(f.endswith('.ref_counted') for f in sl.fields):
                    continue
                # polarity: count negations on the way from the field read to the discriminant
                l, flip = op_place(t['a'])[0], False
                for _ in range(4):
                    ds = [d for d in b.defs().get(l, []) if d[2] == 'assign']
                    if len(ds) == 1 and ds[0][3]['r']['k'] == 'un' and ds[0][3]['r']['op'] == 'Not':
                        flip = not flip
                        l = op_place(ds[0][3]['r']['a'][0])[0]
                    elif len(ds) == 1 and ds[0][3]['r']['k'] == 'use' and op_place(ds[0][3]['r']['a'][0]) is not None and len(op_place(ds[0][3]['r']['a'][0])) == 1:
                        l = op_place(ds[0][3]['r']['a'][0])[0]
                    else:
                        break
                counted_edge = t['ts'][0] if flip else t['ts'][1]
                if counted_edge in no and counted_edge not in yes:
                    ok, det = True, 'only for trees that are not reference counted'
        ctx.ob(p + ' counted-changes-are-all-applied #%d' % n, 'K3-guard', b.path,
               'a change is dropped from the list without being handed to insert / on_existing only on the not-reference-counted edge of a test of TablesRef.ref_counted', ok, det, b.loc(a))


def _natural_loops(b):
    nb = b.normal_blocks()
    by_header = {}
    for u in nb:
        for v in b.succ(u):
            if v in nb and b.dominates(v, u):
                by_header.setdefault(v, []).append(u)
    out = []
    for h, latches in by_header.items():
        body = {h}
        stack = list(latches)
        while stack:
            x = stack.pop()
            if x in body:
                continue
            body.add(x)
            stack.extend(q for q in b.pred(x) if q in nb)
        out.append((h, body, latches))
    return out


def workers_own_tree_lock_is_not_a_reader(ctx, p):
    """F75. Whether a commit may share nodes with a tree that is queued for removal is decided by testing the registered reader's
    lock (RwLock::is_locked). The log worker takes that very lock (write) while it walks a tree it removes: without a way to tell
    the two apart, a commit made during the walk marks the tree as used, and the NEXT queued removal of the same root is postponed
    behind later commits although no client holds a reader - commit order is broken for histories without any reader lock. The
    worker therefore announces its own lock (a field of the tree registry written before `tree.write()` in the removal walk and
    cleared after the guard is gone, on every path), and the marking decision reads that announcement."""
    F = ctx.F
    wpl = ctx.body('db::IndexedChangeSet::write_plan')
    if not wpl:
        return
    fam = lib.family(F, wpl.path)
    announce = {}     # field -> [(body, block)]
    clears = {}
    locks = []
    for b in fam:
        for bi, t in b.calls():
            if bi not in b.normal_blocks() or not t['a']:
                continue
            if call_matches(t, ['re:RwLock.*::write$']) and 'TreeReader' in str(t.get('rty', '')):
                locks.append((b, bi))
            fl = [f for f in lib.receiver_fields(b, t, 0) if f.startswith('.Trees.') and f not in ('.Trees.readers', '.Trees.to_dereference')]
            if fl and call_matches(t, ['re:(HashSet|HashMap|BTreeSet|BTreeMap).*::insert$']):
                announce.setdefault(fl[0], []).append((b, bi))
            if fl and call_matches(t, ['re:(HashSet|HashMap|BTreeSet|BTreeMap).*::remove$']):
                clears.setdefault(fl[0], []).append((b, bi))
    ctx.ob(p + '0 removal-walk-lock-anchor', 'anchor', wpl.path, 'the removal walk takes the write lock of the tree reader', len(locks) >= 1, str([(b.path, s) for b, s in locks]))
    ok_fields = set()
    def no_registry_entry_edges(b):
        # `if let Some(trees) = db.trees.write().get_mut(&col)`: a column without a registry entry has no registered reader either
        out = set()
        for bi in b.normal_blocks():
            t = b.term(bi)
            d = lib.switch_def(b, bi)
            if t['k'] == 'switch' and d and d[2] == 'assign' and d[3]['r']['k'] == 'discr':
                sl = backward_slice(b, [d[3]['r']['p']])
                if '.DbInner.trees' in sl.fields and any(re.search(r'HashMap.*::get(_mut)?$', c) for c in sl.calls):
                    for v, tg in zip(t['vals'], t['ts']):
                        if v == 0:
                            out.add((bi, tg))
                    if t['vals'] == [1]:
                        out.add((bi, t['ts'][-1]))
        return frozenset(out)
    # an announcement / a retraction made through a helper (`db.set_tree_removing(col, hash, true)`): the call is a site of that
    # kind when, with the constant flags it passes, every path through the helper makes the effect (a column without a registry
    # entry aside)
    def lift(kind):
        for f, sites in list(kind.items()):
            for hb in set(bb for bb, _ in sites):
                if '{closure' in hb.path:
                    continue
                inner = [x for bb, x in sites if bb is hb]
                for b in fam:
                    if b is hb:
                        continue
                    for bi, t in b.calls():
                        if bi not in b.normal_blocks() or hb.path not in call_names(t):
                            continue
                        cut = set(no_registry_entry_edges(hb))
                        for ai, a in enumerate(t['a']):
                            v = lib.const_of(b, a)
                            if v is not None and str(hb.locals[ai + 1]) == 'bool':
                                cut |= lib.prune_bool_param(hb, ai + 1, bool(v))
                        if lib.ok_return_unreachable_avoiding(hb, inner, removed_edges=frozenset(cut), cut_errors=False) is None and (b, bi) not in kind[f]:
                            kind[f].append((b, bi))
    lift(announce); lift(clears)
    for (b, lk) in locks:
        cut = no_registry_entry_edges(b)
        for f, sites in announce.items():
            before = [s for bb, s in sites if bb is b and b.find_path([0], {lk}, removed={s}, removed_edges=cut, sensitive=False) is None]
            after = [s for bb, s in clears.get(f, []) if bb is b]
            cleared = bool(after) and lib.ok_return_unreachable_avoiding(b, after, sources=[lk], removed_edges=cut, cut_errors=False) is None
            if before and cleared:
                ok_fields.add(f)
    ctx.ob(p + 'a worker-announces-its-own-tree-lock', 'K2-order', wpl.path,
           'before the removal walk write-locks a tree reader it records the tree in the registry, and removes the record again on every path after the lock (also when the walk fails)',
           bool(ok_fields), 'announcements %s, clears %s' % (sorted(announce), sorted(clears)))
    # the marking decision reads it
    msites = [(b, x) for b in F.bodies.values() for x, t in b.calls() if x in b.normal_blocks() and call_matches(t, ['re:HashSet.*::insert$', 're:HashSet.*::extend$'])
              and t['a'] and '.IndexedChangeSet.used_trees' in lib.receiver_fields(b, t, 0)]
    for b, x in msites:
        calls, fields, binops = lib.guard_influences(b, x)
        fields = set(fields) | lib.closure_fields(F, lib.shallow_calls(F, calls, owner=b.path))
        ctx.ob(p + 'b marking-tells-the-workers-lock-from-a-reader %s' % lib.strip_closures(b.path), 'K3-guard', b.path,
               'the decision to mark a tree as used (a test of the reader\'s lock) also reads the worker\'s announcement: a lock held by the removal walk itself does not count as a reader',
               bool(ok_fields & fields), 'the decision reads %s' % sorted(f for f in fields if f.startswith('.Trees.')), b.loc(x))


def lock_kept_while_the_database_is_shared(ctx, p):
    """F76 (C11, C18). A tree reader handed out by `Db::get_tree` owns a reference to the database (Arc<DbInner>) and is not tied to
    the lifetime of the handle: a client can keep its guard, drop the handle and open the directory again. If the dropped handle
    gives the directory lock back on its own authority, the second open succeeds, its reader registry is empty, and a removal of
    the tree is applied at once - under a held guard that still reads through the first instance's mappings. The explicit unlock
    in the drop path is therefore made only by the last owner of the DbInner (Arc::strong_count == 1); otherwise the lock goes
    with the lock file when the last reader is dropped."""
    F = ctx.F
    UNLOCK = ['fs2::FileExt::unlock', 'std::fs::File::unlock']
    holders = sorted(a['path'] for a in F.raw['adts'] if a['path'] != 'db::Db' and any('Arc<db::DbInner>' in str(f['ty']) for v in a['variants'] for f in v['fields']))
    ctx.ob(p + '0 other-owners-of-the-database', 'anchor', 'db::DbInner', 'the types besides Db that own a reference to DbInner were found (the tree reader)', len(holders) >= 1, str(holders))
    n = 0
    for b in sorted(F.bodies.values(), key=lambda x: x.path):
        # (the unlock itself, or the call of a helper of the lock object that unlocks: `self.inner.lock_file.release()`)
        for s_ in lib.sites_reaching(b, UNLOCK):
            if s_ not in b.normal_blocks() or not b.term(s_)['a'] or '.DbInner.lock_file' not in lib.receiver_fields(b, b.term(s_), 0):
                continue
            n += 1
            ok = False
            for (sw, yes, no) in b.control_deps(s_):
                pol = lib.eq_polarity(b, sw)
                if not pol:
                    continue
                eq_t, ne_t, ops = pol
                sl = backward_slice(b, [op_place(o) for o in ops if op_place(o)])
                one = any(o.get('i') == 1 for o in ops) or any(c.get('i') == 1 for c in sl.consts)
                if any(re.search(r'Arc::<.*>::strong_count$|Arc::strong_count$', c) for c in sl.calls) and '.Db.inner' in sl.fields and one and eq_t in yes and ne_t in no:
                    ok = True
            ctx.ob(p + 'a lock-released-only-by-the-last-owner %s' % b.path, 'K3-guard', b.path,
                   'the directory lock is given back explicitly only when the handle is the sole owner of the DbInner (Arc::strong_count(&self.inner) == 1): while a tree reader still holds the database a second open is refused',
                   ok, 'the unlock does not depend on the number of owners of the DbInner (other owners: %s)' % holders, b.loc(s_))
    ctx.ob(p + '1 explicit-unlock-sites', 'anchor', 'db::Db::drop_inner', 'the explicit release of the directory lock was found', n >= 1, 'sites %d' % n)


def index_entries_stored_whole(ctx, p):
    """F77 (C01, C05). A reader that found nothing for an index page in the log overlay goes on to the mapped page; the record that
    changes the page may be logged, flushed and enacted in between (nothing excludes the two). The page search copes with an entry
    that changes as a whole (it re-reads and re-checks its candidate, F67) - not with one that is half written: bytes of the log
    read straight into the mapping (`log.read(&mut chunk[i*8..])`, a BufReader copy that is made in two pieces when the entry
    straddles its buffer) show the old entry's key bits with the new entry's address, and the lookup of a key nobody touches
    follows it into a table that has no file. The applier of index pages therefore reads every entry into a local buffer and puts
    it into the mapping with one 8-byte atomic store."""
    F = ctx.F
    n = 0
    for pth, b in sorted(F.bodies.items()):
        if not pth.startswith('index::') or '{closure' in pth:
            continue
        seeds = [t['d'][0] for bi, t in b.calls() if bi in b.normal_blocks() and call_matches(t, ['re:MmapMut as std::ops::Deref(Mut)?>::deref(_mut)?$', 're:MmapMut::as_(mut_)?ptr$', 're:<\\[u8\\]>::as_(mut_)?ptr$', 're:slice::<impl \\[T\\]>::as_(mut_)?ptr$'])
                 and '.IndexTable.map' in backward_slice(b, [op_place(a) for a in t['a'] if op_place(a) is not None]).fields]
        if not seeds:
            continue
        RD = ["re:^log::LogReader::<'a>::read$", 're:LogReader.*::read$']
        ST = ['re:Atomic.*::store$', 're:ptr::write_volatile$', 're:ptr::mut_ptr::<impl \\*mut T>::write_volatile$']
        CP = ['re:copy_from_slice$', 're:ptr::copy(_nonoverlapping)?$', 're:clone_from_slice$', 're:slice::<impl \\[T\\]>::fill$']

        def survey(body, seeds_, depth=2):
            """(reads anywhere in the body, reads handed the page, stores into the page, byte copies into the page) - through the
            private helpers that are handed (a pointer into) the page"""
            tainted = lib.forward_taint(body, seeds_)
            rd = [(body, bi) for bi, t in body.calls() if bi in body.normal_blocks() and call_matches(t, RD)]
            direct = [(body, bi) for _, bi in rd if any(op_place(a) is not None and op_place(a)[0] in tainted for a in body.term(bi)['a'][1:])]
            st = [(body, bi) for bi, t in body.calls() if bi in body.normal_blocks() and call_matches(t, ST) and any(op_place(a) is not None and op_place(a)[0] in tainted for a in t['a'][:1])]
            cp = [(body, bi) for bi, t in body.calls() if bi in body.normal_blocks() and call_matches(t, CP) and any(op_place(a) is not None and op_place(a)[0] in tainted for a in t['a'][:1])]
            if depth > 0:
                for bi, t in body.calls():
                    hit = [i for i, a in enumerate(t['a']) if op_place(a) is not None and op_place(a)[0] in tainted]
                    hs = [n_ for n_ in sorted(set(call_names(t))) if n_ in F.bodies and n_ != body.path and n_.startswith('index::')]
                    if bi in body.normal_blocks() and hit and hs:
                        r2 = survey(F.bodies[hs[0]], [i + 1 for i in hit], depth - 1)
                        rd, direct, st, cp = rd + r2[0], direct + r2[1], st + r2[2], cp + r2[3]
            return rd, direct, st, cp
        reads, direct, stores, other = survey(b, seeds)
        if not reads:
            continue
        n += 1
        ctx.ob(p + 'a log-bytes-never-read-straight-into-the-page %s' % pth, 'K4-provenance', pth,
               'no destination of LogReader::read in the applier of index pages derives from the mapping (an entry that straddles the reader\'s buffer would be written in two pieces under a concurrent page search)',
               not direct, 'LogReader::read is handed a slice of the mapped page', direct[0][0].loc(direct[0][1]) if direct else b.loc())
        ctx.ob(p + 'b entry-put-into-the-page-with-one-store %s' % pth, 'K4-provenance', pth,
               'the applier writes an index entry into the mapped page with one 8-byte atomic (or volatile) store, and with nothing else',
               bool(stores) and not other, 'atomic stores into the page: %d, byte copies into the page: %d' % (len(stores), len(other)), ((stores or other or [(b, 0)])[0][0]).loc((stores or other or [(b, 0)])[0][1]))
    ctx.ob(p + '0 index-page-applier', 'anchor', 'index::IndexTable', 'the function that applies logged index entries to the mapped page was found', n >= 1, 'found %d' % n)


def absence_is_not_decided_by_a_probe(ctx, p):
    """F78 (C16). `Path::exists` / `is_file` / `is_dir` answer false for "not there" and for every error of the stat call alike.
    A part of the database that is taken for absent is created anew: a failing stat made `open_or_create` take an existing
    database for a new one, draw a fresh salt and rename a new `metadata` over the old one - every key of the database hashes
    elsewhere afterwards. The false answer of such a probe therefore never leads to a success return: it may refuse (the safe
    direction), "absent" is concluded only from the NotFound kind of an operation on the file itself."""
    F = ctx.F
    PROBE = ['re:std::path::Path::(exists|is_file|is_dir|is_symlink)$', 're:std::path::PathBuf::(exists|is_file|is_dir|is_symlink)$']
    n = 0
    for pth, b in sorted(F.bodies.items()):
        k_ = 0
        for s_ in b.call_sites(*PROBE):
            if s_ not in b.normal_blocks():
                continue
            n += 1
            k_ += 1
            edges = lib.bool_outcome_edges(b, [s_])
            ok, det = bool(edges), 'the answer of the probe is not branched on directly'
            exits = core.error_exit_blocks(b)
            for sw, tr, fa in edges:
                if fa[1] in exits:
                    continue
                w = b.find_path([fa[1]], b.return_blocks(), removed=set(exits))
                if w is not None:
                    ok, det = False, 'success return on the "false" answer (which a failing stat gives too): ' + lib.short_path(b, w)
            ctx.ob(p + 'a probe-false-never-means-absent %s #%d' % (pth, k_), 'K3-guard', pth,
                   'the false answer of Path::exists / is_file / is_dir (also given when the stat call fails) leads to an error, never to a success return that treats the object as absent',
                   ok, '' if ok else det, b.loc(s_))
    # the metadata loader says "no database here" only on NotFound
    lm = ctx.body('options::Options::load_metadata_file')
    if lm:
        m = 0
        for bi in lm.normal_blocks():
            for st in lm.blocks[bi]['s']:
                if st['k'] == 'assign' and st['p'] == [0] and st['r']['k'] == 'agg' and st['r']['ak'] == 'Adt:std::result::Result::Ok' and st['r']['a'] and op_place(st['r']['a'][0]) is not None:
                    l = op_place(st['r']['a'][0])[0]
                    ds = [d for d in lm.defs().get(l, []) if d[2] == 'assign']
                    if ds and all(d[3]['r']['k'] == 'agg' and d[3]['r']['ak'] == 'Adt:std::option::Option::None' for d in ds):
                        m += 1
                        kinds = lib.errkind_guarded(lm, bi)
                        ctx.ob(p + 'b no-metadata-only-on-NotFound', 'K3-guard', lm.path,
                               'the metadata loader answers "no metadata" (a new database may be created) only on the NotFound outcome of opening the file',
                               kinds == {'NotFound'}, 'Ok(None) returned %s' % ('on error kinds %s' % sorted(kinds) if kinds else 'without looking at the error kind of File::open'), lm.loc(bi))
        ctx.ob(p + 'c no-metadata-exit', 'anchor', lm.path, 'the metadata loader has one "no metadata" exit', m == 1, 'found %d' % m)
    ctx.ob(p + '0 probes', 'anchor', '-', 'the survey of existence probes ran (the crate has at least the is_dir test of a non-creating open)', n >= 1, 'probes %d' % n)


def session_ended_with_close_before_files_change(ctx, p):
    """F79 (C16, C17). The administration calls and the migration open the database to have the write-ahead logs replayed and
    removed, end that session and then delete, move or rewrite files. The session is not idle (replay, the reindex that the log
    worker starts with), and its shutdown can fail - `Drop` can only log that. A handle that is just dropped hides the failure:
    reset_column returned Ok with a log left behind whose replay, at the next open, put index entries into the emptied column
    (reads of 64 keys panic). Wherever a handle is given up on a success path and the directory is modified afterwards, it is
    given up with `Db::close` (whose error is propagated: error discipline)."""
    F = ctx.F
    PRIM = ['re:^std::fs::(remove_file|remove_dir_all|remove_dir|rename|copy|write|create_dir|create_dir_all)$', 're:^std::fs::File::(create|set_len)$']
    direct = set(F.direct_callers_of(*PRIM))
    writers = set(direct) | set(F.transitive_callers(direct))

    def drop_sites(b):
        dbl = [i for i, t in enumerate(b.locals) if str(t) == 'db::Db']
        out = []
        for bi in sorted(b.normal_blocks()):
            t = b.term(bi)
            if t['k'] == 'drop' and t.get('p') and len(t['p']) == 1 and t['p'][0] in dbl:
                out.append(bi)
            elif t['k'] == 'call' and call_matches(t, ['std::mem::drop']) and re.search(r'drop::<db::Db>$', str(t.get('fa'))):
                out.append(bi)
        exits = core.error_exit_blocks(b)
        return [s for s in out if b.find_path([0], {s}, removed=set(exits)) is not None]

    def modifies_after(b, s):
        exits = core.error_exit_blocks(b)
        for x in sorted(b.reachable_from(list(b.succ(s)), removed=set(exits))):
            t = b.term(x)
            if t['k'] == 'call' and x in b.normal_blocks() and (call_matches(t, PRIM) or any(n in writers and n in F.bodies for n in call_names(t))):
                return x
        return None
    n = 0
    enders = {}
    for pth, b in sorted(F.bodies.items()):
        if '{closure' in pth or pth in ('db::Db::close', '<db::Db as std::ops::Drop>::drop', 'db::Db::drop_inner'):
            continue
        for s in drop_sites(b):
            n += 1
            m = modifies_after(b, s)
            if m is None:
                exits = core.error_exit_blocks(b)
                if b.find_path(list(b.succ(s)), b.return_blocks(), removed=set(exits)) is not None:
                    enders.setdefault(pth, []).append(s)
            ctx.ob(p + 'a session-not-ended-by-drop-before-files-change %s' % pth, 'K2-order', pth,
                   'a database handle is not given up by dropping it (a failed shutdown is only logged then) on a success path that goes on to delete, move or rewrite files of the database: Db::close reports the failure',
                   m is None, 'dropped at %s, then %s' % (b.loc(s), (b.term(m).get('r') or b.term(m).get('f')) if m is not None else ''), b.loc(s))
    # a helper whose job is "open, look, end the session" (precheck_column_operation): its callers are the ones that modify
    for hp in sorted(enders):
        for pth, b in sorted(F.bodies.items()):
            for s in [bi for bi, t in b.calls() if bi in b.normal_blocks() and hp in call_names(t)]:
                n += 1
                m = modifies_after(b, s)
                ctx.ob(p + 'a session-not-ended-by-drop-before-files-change %s via %s' % (pth, hp), 'K2-order', pth,
                       'a database handle is not given up by dropping it (a failed shutdown is only logged then) on a success path that goes on to delete, move or rewrite files of the database: Db::close reports the failure',
                       m is None, '%s drops its handle and returns; then %s' % (hp, (b.term(m).get('r') or b.term(m).get('f')) if m is not None else ''), b.loc(s))
    closes = sorted(set(c for c in F.direct_callers_of('db::Db::close')))
    ctx.ob(p + '0 sessions-ended-with-close', 'anchor', 'db::Db::close', 'the administration and migration code ends its sessions with Db::close', len(closes) >= 1, str(closes))
    ctx.info['sessions.dropped_on_success_paths'] = n


def shutdown_drains_every_flushed_log(ctx, p):
    """F80 (C17, C03). `enact_logs` answers "no more work" at the end of every log FILE (Log::read_next returns None when the file
    it was reading ends; the next call takes the next file off the hand-over queue). A drain written `while enact_logs()? {}`
    therefore enacts one file. The final drain of kill_logs has to go on until the hand-over queue is empty: with more than three
    flushed files waiting (a commit worker that lags behind the flush worker) the rest stayed on disk, `Db::close` reported
    success, and an administration call that closes its session and then deletes a column had those logs replayed into the
    emptied column at the next open."""
    F = ctx.F
    k = ctx.body('db::DbInner::kill_logs')
    if not k:
        return
    none = lib.prune_option_field(k, '.DbInner.bg_err', keep_some=False)
    en = k.call_sites('db::DbInner::enact_logs')
    fl = k.call_sites('db::DbInner::flush_logs')
    ca = [c for c in k.call_sites('db::DbInner::clean_all_logs') if k.find_path([0], {c}, removed_edges=frozenset(none)) is not None]
    # the emptiness test: a call that reads Log.read_queue (Log::has_log_files_to_read or an equivalent helper)
    def reads_queue(n):
        b = F.bodies.get(n)
        return b is not None and '{closure' not in n and str(b.locals[0]) == 'bool' and any('.Log.read_queue' in lib.receiver_fields(b, t, 0) for _, t in b.calls() if t['a'])
    hs = [bi for bi, t in k.calls() if bi in k.normal_blocks() and any(reads_queue(n) for n in call_names(t))]
    last_fl = [f for f in fl if not any(g in k.reaches(f) and g != f for g in fl)] or fl
    ctx.ob(p + '0 final-drain-anchor', 'anchor', k.path, 'kill_logs flushes, enacts and then cleans the logs on its regular branch', bool(en) and bool(last_fl) and len(ca) >= 1, 'enact %s flush %s clean %s' % (en, fl, ca))
    if not (en and last_fl and ca):
        return
    ok, det = False, 'no test of the hand-over queue (Log.read_queue) between the last flush and the cleaning of the logs'
    for h in hs:
        w = k.find_path(list(k.succ(last_fl[-1])), set(ca), removed={h}, removed_edges=frozenset(none))
        if w is not None:
            det = 'the logs are cleaned without looking at the hand-over queue: ' + lib.short_path(k, w)
            continue
        edges = lib.bool_outcome_edges(k, [h])
        if not edges:
            det = 'the answer of the queue test is not branched on'
            continue
        good = True
        for sw, tr, fa in edges:
            # "there are files to read" must lead back to the applier before anything is cleaned
            w2 = k.find_path([tr[1]], set(ca), removed=set(en), removed_edges=frozenset(none))
            if w2 is not None:
                good, det = False, 'with files still queued the logs are cleaned: ' + lib.short_path(k, w2)
        if good:
            ok = True
    ctx.ob(p + 'a final-drain-empties-the-hand-over-queue', 'K3-loop-exit', k.path,
           'after the last flush, kill_logs reaches the cleaning of the logs only through a test of the hand-over queue, and with files still queued it goes back to enact_logs (enact_logs reports the end of every log file, not the end of the work)',
           ok, '' if ok else det, k.loc(ca[0]))


def last_reference_removal_waits_for_readers(ctx, p):
    """seed C11-childless-root-removed-without-lock. The deferral test of the log worker and the removal of a root are not one
    step: a client that locks the reader in between is protected by the worker's own `tree.write()` - it waits there until the
    reader is released, so the record that removes the root is not published under the reader's guard. That wait is for the ROOT,
    not for the walk over its children: whether the lock is taken must not depend on the shape of the tree (an empty child list
    skips nothing but the walk)."""
    F = ctx.F
    wpl = ctx.body('db::IndexedChangeSet::write_plan')
    if not wpl:
        return
    n = 0
    for b in lib.family(F, wpl.path):
        if not b.path.startswith('db::') or b.path == 'db::IndexedChangeSet::write_dereference_children_plan':
            continue
        for lk, t in b.calls():
            if lk not in b.normal_blocks() or not call_matches(t, ['re:RwLock.*::write$']) or 'TreeReader' not in str(t.get('rty', '')):
                continue
            n += 1
            shape = []
            for (sw, yes, no) in b.control_deps(lk):
                tm = b.term(sw)
                pl = op_place(tm['a']) if tm['k'] == 'switch' else None
                if pl is None:
                    continue
                sl = backward_slice(b, [pl])
                kids = any(re.search(r'unpack_node_data$|unpack_node_children$', c) for c in sl.calls) and any(re.search(r'(Vec|slice).*::(is_empty|len)$|<\[T\]>::(is_empty|len)$', c) for c in sl.calls)
                stored = any(re.search(r'NodeChange\.2$', f) for f in sl.fields)
                # a parameter that is the child list (the arm extracted into a helper)
                plist = [l for l in sl.params if re.search(r'Vec<u64>|\[u64\]|Children', str(b.locals[l]))]
                if kids or stored or plist:
                    shape.append(b.loc(sw))
            ctx.ob(p + ' root-removal-locks-the-reader-whatever-the-tree-looks-like %s' % lib.strip_closures(b.path), 'K3-guard', b.path,
                   'the write lock of the tree reader that the removal of a last reference takes does not depend on the child list of the root (the lock makes the worker wait for a reader of the ROOT; a childless tree has a reader too)',
                   not shape, 'the lock is taken only depending on the child list (tested at %s)' % shape, b.loc(lk))
    ctx.ob(p + '0 removal-lock-anchor', 'anchor', wpl.path, 'the planning of a tree removal write-locks the tree reader somewhere', n >= 1, 'sites %d' % n)


def client_callbacks_run_without_column_locks(ctx, p):
    """F81 (C15). The iteration entry points hand every entry to a closure of the CLIENT. While it runs, the column's `tables`
    read lock is still held (HashColumn::iter_values / iter_index_internal keep it for the whole walk). A callback that calls back
    into the database (`Db::get` of the same column) asks for that lock again; if the log worker has meanwhile asked for the write
    side (trigger_reindex: "Index chunk full"), parking_lot admits no new reader, and callback, iteration and log worker wait for
    each other for ever: accepted commits are never logged. Decided here: on the way from a public entry point to the invocation
    of a client callback no guard of a lock that a pipeline stage takes in write mode is live."""
    F = ctx.F
    LOCKS = ('.HashColumn.tables', '.HashColumn.reindex', '.DbInner.commit_overlay', '.Log.overlays', '.BTreeTable.tables')
    roots = [(pth, b) for pth, b in sorted(F.bodies.items()) if pth.startswith('db::Db::') and '{closure' not in pth and str(b.d.get('vis')) == 'Public'
             and any(str(b.locals[l]).startswith('impl FnMut') or str(b.locals[l]).startswith('impl Fn') for l in range(1, b.argc + 1))]
    found = {}
    seen = set()

    def walk(b, params, chain, depth=6):
        if (b.path, tuple(params)) in seen or depth == 0:
            return
        seen.add((b.path, tuple(params)))
        taint = lib.forward_taint(b, params)
        for bi, t in b.calls():
            if bi not in b.normal_blocks():
                continue
            hit = [i for i, a in enumerate(t['a']) if op_place(a) is not None and op_place(a)[0] in taint]
            if not hit:
                continue
            live = set(f for (l, ty, cls) in lib.guards_live_at(b, bi) for f in cls if f in LOCKS)
            is_call = call_matches(t, ['re:ops::FnMut::call_mut$', 're:ops::Fn::call$', 're:ops::FnOnce::call_once$']) and hit[0] == 0
            callee = [n for n in sorted(set(call_names(t))) if n in F.bodies and n != b.path]
            if live and (is_call or callee):
                for f in sorted(live):
                    # (the finding is the pair entry point / lock: where on the way the guard is taken is detail)
                    found.setdefault(((chain + [b.path])[0], f), (b.path, b.loc(bi)))
            for n in callee[:1]:
                walk(F.bodies[n], [i + 1 for i in hit], chain + [b.path], depth - 1)
            # a closure that captures the callback and is handed on: its body invokes the callback under whatever the callee holds
            for c in lib.closure_operands(b, t):
                cb = F.bodies.get(c)
                if cb is not None and callee:
                    pass
    for pth, b in roots:
        walk(b, [l for l in range(1, b.argc + 1) if str(b.locals[l]).startswith('impl Fn')], [])
    ctx.ob(p + '0 callback-entry-points', 'anchor', 'db::Db', 'the public entry points that take a client callback were found and followed to an invocation', len(roots) >= 1 and len(seen) >= 4, 'entry points %s, bodies visited %d' % ([r[0] for r in roots], len(seen)))
    if not found:
        ctx.ob(p + 'a client-callback-runs-without-column-locks', 'K5-held-at', 'db::Db', 'no lock that a pipeline stage takes in write mode is held while a client callback runs (or is handed on towards its invocation)', True, '')
    for (fn, f), (where, loc) in sorted(found.items()):
        ctx.ob(p + 'a client-callback-runs-without-column-locks %s %s' % (fn, f), 'K5-held-at', fn,
               'no lock that a pipeline stage takes in write mode is held while a client callback runs (or is handed on towards its invocation): a callback that reads the database re-acquires it behind a waiting writer',
               False, 'a guard of %s is live in %s where the client callback is invoked or handed on' % (f, where), loc)
