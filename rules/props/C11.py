"""C11 - a locked tree reader is never invalidated, and deferral keeps commit order (structural part)."""
import re
import core, lib
from core import call_matches, call_names, op_place, op_local, backward_slice
from props import shared

WITNESSES = ['TreeReadOnlyUnderLock']      # compile-fail witnesses against the public surface (thorough tier; engine.WITNESSES)
LEVEL = 'other'
FLOOR = 30      # 70% of the 43 obligation instances derived on the tree the rules were last reviewed against
EXPLANATION = ('A commit that dereferences a tree is planned (Log::begin_record) only on the not-deferred edge; deferral is decided from RwLock::is_locked of '
               'the registered reader and from the used_trees of queued commits; the reader registry is only ever extended (under its write lock), never '
               'shrunk, so a client handle and the planner always share one lock per tree; deferral re-publishes under the new id before cleaning the old '
               'id, under one overlay guard, with the queue mutex held, and does not consume the change lists it re-queues; to_dereference counters are '
               'decremented only on the not-deferred path.')
EXPLANATION += ' Added: the registry only grows; every inserted tree is checked against pending removals where the commit is queued, under the queue lock; the queue scan is reached whatever the reader state; a deferral re-queues only the removals and what waits carries no used_trees mark; known findings F21 (check-then-lock) and F49 (later writers of the same root overtake a waiting removal); thorough tier: a tree is read only through the reader lock (compile-fail witness).'
ASSUMPTIONS = ['DECLINED clause: "the final state equals applying all transactions in the order their commit calls returned" - defer_commit re-queues the whole '
               'transaction behind later ones; whether that changes an outcome depends on the history (note N3)', 'unwind edges ignored']
TRUSTED = ['rustc MIR construction (nightly)', 'pdb-facts driver', 'rule engine /verif/rules', 'anchor tables in props/C11.py']


def named_local(b, name):
    ls = [l for l, n in b.names.items() if n == name]
    return ls


# ways to change a counter in the to_dereference map
COUNTER_MUT = ['re:HashMap.*::(remove|insert|get_mut)$', 're:hash_map::.*Entry.*::(insert|or_insert|or_insert_with|or_default|and_modify|insert_entry|remove|remove_entry|get_mut|into_mut)$']


def run(ctx):
    F = ctx.F
    pc = ctx.body('db::DbInner::process_commits')
    if pc:
        # the deferral decision: the bool that sends process_commits to defer_commit. Either a flag local of process_commits
        # assigned constants (decision sites = its `= true` assignments), or the result of a predicate function (decision
        # sites = that function's `return true` assignments).
        dcs = pc.call_sites('db::DbInner::defer_commit')
        # a deferral may also put (part of) the commit back itself: push_back onto the commit queue inside process_commits
        dcs = dcs + [x for x in lib.field_effect_sites(pc, ['re:VecDeque.*::push_back$'], '.CommitQueue.commits') if x not in dcs and call_matches(pc.term(x), ['re:VecDeque.*::push_back$'])]
        dl = []
        for bi in pc.normal_blocks():
            t = pc.term(bi)
            if t['k'] == 'switch' and t['vals'] == [0] and len(t['ts']) == 2 and op_local(t['a']) is not None and pc.locals[op_local(t['a'])] == 'bool':
                if dcs and all(d in pc.reachable_from([t['ts'][1]], removed={bi}) for d in dcs) and not any(d in pc.reachable_from([t['ts'][0]], removed={bi}) for d in dcs):
                    dl.append((bi, lib.root_local(pc, t['a'])))
        # the innermost such branch (an enclosing `if check_for_deferral` also has defer_commit only on its true side)
        dl = [(bi, r) for bi, r in dl if not any(b2 != bi and b2 in pc.reachable_from([pc.term(bi)['ts'][1]], removed={bi}) for b2, _ in dl)]
        dl = sorted(set(r for _, r in dl if r is not None))
        ctx.ob('1a defer-flag-anchor', 'anchor', pc.path, 'process_commits takes the deferral decision from one boolean whose true edge leads to defer_commit', len(dl) == 1, str(dl))
        lock_sets = []
        decision_fields = set()
        dec_body, dec_sites = pc, []
        DB = pc
        if len(dl) == 1:
            D = dl[0]
            ds = pc.defs().get(D, [])
            sets = []
            if ds and all(d[2] == 'assign' and d[3]['r']['k'] == 'use' and 'i' in d[3]['r']['a'][0] for d in ds):
                sets = [(d[0], d[3]) for d in ds if d[3]['r']['a'][0]['i'] == 1]
            elif len(ds) == 1 and ds[0][2] == 'call':
                hb = None
                for n in call_names(ds[0][3]):
                    if F.body(n) is not None:
                        hb = F.body(n)
                if hb is not None:
                    DB = hb
                    sets = [(bi, st) for bi in hb.normal_blocks() for st in hb.blocks[bi]['s'] if st['k'] == 'assign' and st['p'] == [0] and st['r']['k'] == 'use' and st['r']['a'][0].get('i') == 1]
            dec_body, dec_sites = DB, [bi for bi, _st in sets]
            by_lock = by_queue = 0
            for bi, st in sets:
                calls, fields, binops = lib.guard_influences(DB, bi)
                decision_fields.update(fields)
                if any(re.search(r'RwLock.*::is_locked$', c) for c in lib.shallow_calls(F, calls, owner=DB.path)):
                    by_lock += 1
                    lock_sets.append(bi)
                # (the scan may be an iterator chain: then the fields it looks at are read inside its closures)
                fields = set(fields) | lib.closure_fields(F, lib.shallow_calls(F, calls, owner=DB.path))
                if '.IndexedChangeSet.used_trees' in fields and '.CommitQueue.commits' in fields:
                    by_queue += 1
            ctx.ob('1b deferred-when-reader-locked', 'K3-guard', DB.path, 'the deferral decision is true on a path that depends on RwLock::is_locked of the registered reader of the tree', by_lock >= 1, 'decision sites %d by-lock %d' % (len(sets), by_lock))
            ctx.ob('1c deferred-when-queued-commit-uses-tree', 'K3-guard', DB.path, 'the deferral decision is true on a path that depends on the used_trees of commits still queued', by_queue >= 1, 'by-queue %d' % by_queue)
            # switch on D
            sw = [bi for bi in pc.normal_blocks() if pc.term(bi)['k'] == 'switch' and op_local(pc.term(bi)['a']) is not None and
                  lib.root_local(pc, pc.term(bi)['a']) == D and pc.term(bi)['vals'] == [0]]
            ctx.ob('1d defer-branch-anchor', 'anchor', pc.path, 'one branch on `defer`', len(sw) == 1, str(sw))
            if len(sw) == 1:
                zero_t, nz_t = pc.term(sw[0])['ts']
                br = pc.call_sites('log::Log::begin_record')
                dc = pc.call_sites('db::DbInner::defer_commit')
                r_nz = pc.reachable_from([nz_t], removed={sw[0]})
                r_z = pc.reachable_from([zero_t], removed={sw[0]})
                # what waits goes back onto the queue through defer_commit, or - when only the removals wait and the rest of the
                # commit is planned right away - through a push_back in process_commits itself
                requeue = set(dcs)
                w1 = pc.find_path([nz_t], set(br), removed=requeue | {sw[0]}) if br else ['?']
                ctx.ob('1e planning-only-when-not-deferred', 'K3-guard', pc.path, 'from the defer==true edge Log::begin_record (start of planning, which walks and frees tree nodes) is reached only after the removals were put back onto the queue',
                       bool(br) and w1 is None and all(b2 in r_z for b2 in br), '' if w1 is None else lib.short_path(pc, w1))
                ctx.ob('1f deferred-commit-is-requeued', 'K1-must-pass', pc.path, 'on the defer==true edge every path passes defer_commit or the re-queueing push (the removal is not dropped)',
                       bool(requeue) and pc.find_path([nz_t], set(pc.return_blocks()) | set(br), removed=requeue | core.error_exit_blocks(pc) | {sw[0]}) is None, '')
                # counters
                td = [bi for bi, t in pc.calls() if bi in pc.normal_blocks() and call_matches(t, COUNTER_MUT) and '.Trees.to_dereference' in lib.receiver_fields(pc, t, 0)]
                ctx.ob('4a counters-decremented-only-when-planned', 'K3-guard', pc.path, 'to_dereference is decremented only on the not-deferred path (a deferred commit keeps its pending count)',
                       len(td) >= 1 and not any(x in r_nz for x in td), 'sites %s' % td)
        # the deferral check is made for every DereferenceChildren of the commit: in a loop over node_changes
        lk = lock_sets if len(dl) == 1 else []
        loops = lib.for_loops_over(DB, '.IndexedChangeSet.node_changes')
        def in_loop(x):
            return any(x in DB.reachable_from([lp['some']], removed={lp['sw']}) and x not in DB.reachable_from([lp['none']], removed={lp['sw']}) for lp in loops)
        ctx.ob('1g lock-test-in-loop', 'K2-loop-order', DB.path, 'the is_locked-dependent deferral decision sits inside the loop over the node changes of the commit (every DereferenceChildren is examined)',
               len(lk) >= 1 and any(in_loop(x) for x in lk), 'decisions %s loops %s' % (lk, [lp['head'] for lp in loops]))
    # the walk synchronises with clients on the reader registered under hash_key(user key): get_tree hashes its argument, so it
    # must be given the user key (field 0 of DereferenceChildren); the pre-hashed key (field 1) is what the deferral check,
    # the used-tree marks and the counters use
    wpl = ctx.body('db::IndexedChangeSet::write_plan')
    if wpl:
        gts = lib.fam_sites(F, wpl.path, ['db::DbInner::get_tree'])
        ctx.ob('2w0 walk-registry-lookup', 'anchor', wpl.path, 'the dereference walk looks up the tree reader (get_tree)', len(gts) >= 1, str([(fb.path, s2) for fb, s2 in gts]))
        for fb, s2 in gts:
            a = fb.term(s2)['a']
            fl = set()
            if len(a) > 3 and op_place(a[3]):
                sl = backward_slice(fb, [op_place(a[3])])
                fl = set(sl.fields)
                # a helper receives the fields of the change as parameters: follow them to the caller's arguments
                if fb is not wpl and sl.params:
                    for cb in [F.body(c) for c in F.callers(fb.path) if F.body(c) is not None]:
                        for cs in cb.call_sites(fb.path):
                            for pi in sl.params:
                                if pi - 1 < len(cb.term(cs)['a']) and op_place(cb.term(cs)['a'][pi - 1]) is not None:
                                    fl |= backward_slice(cb, [op_place(cb.term(cs)['a'][pi - 1])]).fields
            ctx.ob('2w walk-locks-the-registered-reader', 'K4-provenance', fb.path,
                   'the key handed to get_tree by the dereference walk is the user key of the DereferenceChildren change (get_tree hashes it to the registry key clients lock), not the already hashed key',
                   '.NodeChange.0' in fl and '.NodeChange.1' not in fl, 'key argument derives from %s' % sorted(f for f in fl if 'NodeChange' in f), fb.loc(s2))
    if pc:
        rg = [bi for bi, t in pc.calls() if call_matches(t, ['re:HashMap.*::get$']) and '.Trees.readers' in lib.receiver_fields(pc, t, 0)]
        for s2 in rg:
            a = pc.term(s2)['a']
            fl = backward_slice(pc, [op_place(a[1])]).fields if len(a) > 1 and op_place(a[1]) else set()
            ctx.ob('2w2 deferral-check-uses-hashed-key', 'K4-provenance', pc.path, 'the deferral check looks the reader up under the hashed key of the change (field 1)',
                   '.NodeChange.1' in fl and '.NodeChange.0' not in fl, 'derives from %s' % sorted(f for f in fl if 'NodeChange' in f), pc.loc(s2))
    cc = ctx.body('db::DbInner::commit_changes')
    if cc:
        ct = cc.call_sites('column::HashColumn::claim_tree_values')
        um = [bi for bi, t in cc.calls() if call_matches(t, ['re:HashSet.*::insert$']) and '.IndexedChangeSet.used_trees' in lib.receiver_fields(cc, t, 0)]
        lk = [bi for bi, t in cc.calls() if call_matches(t, ['re:RwLock.*::read$']) and '.DbInner.trees' in lib.receiver_fields(cc, t, 0)]
        if um:
            # shape 1: the InsertTree arm itself scans the registry right after it claimed the nodes
            ctx.ob('1h0 marking-anchors', 'anchor', cc.path, 'the InsertTree arm claims the nodes, then scans the registry (trees.read) and marks used trees', len(ct) == 1 and len(um) == 1 and len(lk) >= 1, '%s %s %s' % (ct, um, lk))
            if ct and lk:
                lib.must_pass(ctx, '1h every-inserted-tree-is-checked-against-pending-dereferences', cc, [l for l in lk if l in cc.reaches(ct[0])],
                              'after the nodes of an InsertTree were claimed, every success path scans the pending dereferences / locked readers (no shortcut based on the shape of the new tree: shared nodes can sit at any depth)',
                              sources=ct)
            mark_bodies = [(cc, um)]
        else:
            # shape 2: the marks are computed where the commit is queued (commit_raw), for every column set of the commit that
            # carries new-tree node changes; commit_changes hands every commit to that function
            mbs = {}
            for b2 in F.bodies.values():
                for x, t in b2.calls():
                    if x in b2.normal_blocks() and call_matches(t, ['re:HashSet.*::insert$']) and t['a'] and '.IndexedChangeSet.used_trees' in lib.receiver_fields(b2, t, 0):
                        mbs.setdefault(b2.path, []).append(x)
            mark_bodies = [(F.body(k), v) for k, v in sorted(mbs.items())]
            ok0 = len(mark_bodies) == 1 and len(ct) == 1
            ctx.ob('1h0 marking-anchors', 'anchor', cc.path, 'the InsertTree arm claims the nodes; the function that queues the commit scans the registry (trees.read) and marks used trees', ok0, '%s %s' % (ct, sorted(mbs)))
            for mb, ums in mark_bodies:
                lk2 = [bi for bi, t in mb.calls() if call_matches(t, ['re:RwLock.*::read$']) and '.DbInner.trees' in lib.receiver_fields(mb, t, 0)]
                loops = [lp for lp in lib.for_loops_over(mb, '.CommitChangeSet.indexed')
                         if any(x in mb.reachable_from([lp['some']], removed={lp['head']}) for x in ums)]      # the loop the marks are made in
                if not loops and lk2 and lib.ok_return_unreachable_avoiding(mb, lk2, cut_errors=False) is None:
                    # the marking of ONE column set was moved into a helper that always scans the registry: the loop over the column
                    # sets is in its caller, a call of the helper stands for the scan
                    for cn in sorted(F.callers(mb.path)):
                        cb = F.body(cn)
                        if cb is None:
                            continue
                        cs = [bi for bi in cb.call_sites(mb.path) if bi in cb.normal_blocks()]
                        lps = [lp for lp in lib.for_loops_over(cb, '.CommitChangeSet.indexed') if any(x in cb.reachable_from([lp['some']], removed={lp['head']}) for x in cs)]
                        if lps:
                            mb, ums, lk2, loops = cb, cs, cs, lps
                            break
                loops = [lp for lp in loops if not any(l2 is not lp and lp['head'] in mb.reachable_from([l2['some']], removed={l2['head']}) for l2 in loops)]   # outermost
                reach = lib.sites_reaching(cc, [mb.path])
                lib.must_pass(ctx, '1h1 every-commit-reaches-the-marking', cc, reach, 'every accepted change set is handed to the function that computes the marks')
                w = ['?']
                for lp in loops:
                    region = mb.reachable_from([lp['some']], removed={lp['head']})
                    # the only allowed way round the scan: a test of whether the set carries new-tree node changes at all
                    skips = set()
                    for bi in region:
                        t = mb.term(bi)
                        if t['k'] == 'switch' and op_place(t['a']) is not None:
                            sl = backward_slice(mb, [op_place(t['a'])])
                            fl = set(sl.fields) | lib.closure_fields(F, lib.shallow_calls(F, sl.calls, owner=mb.path))
                            shape = [f for f in fl if 'NewNode' in f or 'Children' in f or 'NodeRef' in f]
                            if '.IndexedChangeSet.node_changes' in fl and not shape:
                                skips.add(bi)
                    w = mb.find_path([lp['some']], {lp['head']}, removed=set(lk2) | skips)
                ctx.ob('1h every-inserted-tree-is-checked-against-pending-dereferences', 'K2-loop-order', mb.path,
                       'for every column set of the commit that carries new-tree node changes the pending dereferences / locked readers are scanned (the only way round the scan is the test "no such node changes"; no shortcut based on the shape of the new tree)',
                       bool(loops) and bool(lk2) and w is None, '' if w is None else 'iteration that skips the scan: %s' % (lib.short_path(mb, w) if isinstance(w[0], int) else 'no loop over the column sets'))
        for mb, ums in mark_bodies:
            for s2 in ums:
                calls, fields, binops = lib.guard_influences(mb, s2)
                calls = set(calls) | set(c for c in lib.shallow_calls(F, calls, owner=mb.path))
                ctx.ob('1h2 marking-decided-by-reader-lock', 'K3-guard', mb.path, 'a tree is marked as used depending on RwLock::is_locked of its registered reader', any(re.search(r'RwLock.*::is_locked$', c) for c in calls), '')
        # (the DereferenceTree arm may live in a helper of commit_changes: the sites are looked for in its family)
        ninc = 0
        for fb in lib.family(F, cc.path):
            inc = [bi for bi, t in fb.calls() if bi in fb.normal_blocks() and call_matches(t, COUNTER_MUT) and '.Trees.to_dereference' in lib.receiver_fields(fb, t, 0)]
            if not inc:
                continue
            ninc += len(inc)
            for s in inc:
                lib.held_at(ctx, '4c increment-under-trees-write-lock', fb, s, '.DbInner.trees', 'the counter is changed with the trees write lock held', mode='write')
            cf = [bi for bi in fb.normal_blocks() for s in fb.blocks[bi]['s'] if s['k'] == 'assign' and '.CommitChangeSet.check_for_deferral' in s['p'][1:]]
            lib.precedes(ctx, '4d deferral-check-requested', fb, inc, cf, 'a commit that increments the counter also asks for the deferral check')
        ctx.ob('4b one-increment-per-DereferenceTree', 'anchor', cc.path, 'commit_changes (or a helper of it) increments to_dereference', ninc >= 1, str(ninc))
    # 2. the walk holds the tree write lock
    wpl = ctx.body('db::IndexedChangeSet::write_plan')
    if wpl:
        walk = lib.fam_sites(F, wpl.path, ['db::IndexedChangeSet::write_dereference_children_plan'])
        walk = [(fb, s) for fb, s in walk if fb.path != 'db::IndexedChangeSet::write_dereference_children_plan']      # not the recursion
        ctx.ob('2a0 walk-site', 'anchor', wpl.path, 'write_plan (or a helper of it) starts the dereference walk', len(walk) >= 1, str([(fb.path, s) for fb, s in walk]))
        for fb, s in walk:
            live = lib.guards_live_at(fb, s)
            ok = any('RwLockWriteGuard' in ty and 'TreeReader' in ty for l, ty, cls in live)
            ctx.ob('2a walk-under-tree-write-lock', 'K5-held-at', fb.path, 'the dereference walk runs with the write lock of the tree reader held (excludes every client read guard)', ok, '')
        gt = lib.fam_sites(F, wpl.path, ['db::DbInner::get_tree'])
        ctx.ob('2b lock-from-registry', 'K4-provenance', wpl.path, 'the lock taken by the walk comes from DbInner::get_tree (the registry clients use)', len(gt) >= 1, '')
    # 3. deferral
    shared.handover_order(ctx, '3')
    # once the lock is released the postponed removal completes: the log worker keeps going while a deferred commit is queued
    shared.more_work_signal(ctx, '3w')
    shared.deferral_is_surgical(ctx, '3')
    shared.requeued_change_set_is_flagged(ctx, '3r')
    shared.workers_own_tree_lock_is_not_a_reader(ctx, '1w')
    shared.last_reference_removal_waits_for_readers(ctx, '2x')
    shared.lock_kept_while_the_database_is_shared(ctx, '6l')       # F76: a held guard survives drop + reopen of the handle
    # the used_trees mark of a commit is what makes a removal of a tree it shares nodes with wait. It has to be computed where the
    # queue position of the commit is decided - with the commit queue locked: a removal counted in to_dereference by then is seen,
    # a later one is queued behind the commit. Computed earlier (while the transaction is converted), a removal committed in the gap
    # is queued AHEAD of the commit and finds no mark (F53)
    msites = [(b, x) for b in F.bodies.values() for x, t in b.calls() if x in b.normal_blocks() and call_matches(t, ['re:HashSet.*::insert$', 're:HashSet.*::extend$'])
              and t['a'] and '.IndexedChangeSet.used_trees' in lib.receiver_fields(b, t, 0)]
    ctx.ob('1m0 used-trees-mark-sites', 'anchor', 'db::DbInner', 'the site that marks the trees a commit may share nodes with was found', len(msites) >= 1, str([(b.path, x) for b, x in msites]))
    for b, x in msites:
        lib.held_at_lifted(ctx, '1m used-trees-marked-under-the-queue-lock %s' % lib.strip_closures(b.path), F, b, x, '.DbInner.commit_queue',
                           'the used_trees marks of a commit are computed with the commit queue locked (between the look at to_dereference and the push onto the queue no removal can be committed)')
    # whatever the state of the tree's reader (locked, unlocked, no live handle any more), a removal also waits for queued commits that
    # marked the tree: the queue scan is reached for every DereferenceChildren change unless the decision to defer was already taken.
    # The marks were set while a reader was locked; the reader may be long gone when the log worker gets to the removal.
    if pc:
        DBq = dec_body          # process_commits, or the predicate function the decision was moved into
        adt = F.adts.get('db::NodeChange', {})
        dv = next((v['discr'] for v in adt.get('variants', []) if v['name'] == 'DereferenceChildren'), None)
        scans = [bi for bi, t in DBq.calls() if bi in DBq.normal_blocks() and t['a'] and '.CommitQueue.commits' in lib.receiver_fields(DBq, t, 0)
                 and call_matches(t, ['re:IntoIterator>::into_iter$', 're:VecDeque.*::iter$', 're:Iterator::(any|all|find|position)$'])]
        decided = list(dec_sites)
        okq = False
        wq = None
        for lp in lib.for_loops_over(DBq, '.IndexedChangeSet.node_changes'):
            if not any(x in DBq.reachable_from([lp['some']], removed={lp['head']}) for x in scans):
                continue
            found, wq = lib.loop_arm_must_call(DBq, lp, 'NodeChange', dv, list(scans) + decided)
            okq = found and wq is None
            break
        ctx.ob('1c2 queue-scan-reached-whatever-the-reader-state', 'K2-loop-order', DBq.path,
               'for every tree removal of the commit the scan of the queued commits is reached unless the decision to wait was already taken - also when the tree has no live reader handle any more',
               okq, 'no scan of the commit queue inside the loop over the node changes' if wq is None and not okq else ('path that skips the scan: ' + lib.short_path(DBq, wq) if wq else ''))
    shared.no_mutual_deferral(ctx, '3z')
    # a removal that waits can be overtaken by a LATER commit that writes the same root (InsertTree / ReferenceTree / DereferenceTree of
    # the key): the later one is planned first, then the postponed removal is applied to whatever root it finds - the final state is not
    # the one of commit order. The only record of "a removal of this root is waiting" is Trees.to_dereference; a deferral decision that
    # never reads it cannot make later writers of the root wait (nor can it cancel / re-base the removal) (F49)
    if pc:
        infl_fields = set(decision_fields)      # what the `defer = true` sites depend on
        ctx.ob('3x2 later-writes-of-the-root-wait-for-its-pending-removal', 'K3-guard', pc.path,
               'the deferral decision also looks at Trees.to_dereference (is a removal of a root this commit writes still waiting?), so that a postponed removal is not overtaken by a later commit on the same root',
               '.Trees.to_dereference' in infl_fields, 'the decision depends on %s only' % sorted(f for f in infl_fields if 'Trees' in f or 'used_trees' in f or 'CommitQueue' in f))
    dc = ctx.body('db::DbInner::defer_commit')
    if dc:
        sites = lib.sites_reaching(dc, [shared.COPY_IDX, shared.COPY_BT, shared.CLEAN_IDX, shared.CLEAN_BT])
        lib.same_guard_at(ctx, '3m one-overlay-guard-over-retag', dc, sites, '.DbInner.commit_overlay', 'defer_commit re-tags and cleans under one commit_overlay write guard', mode='write')
        push = shared.queue_push_sites(dc)
        drops = [bi for bi in dc.normal_blocks() if dc.term(bi)['k'] == 'drop' and dc.term(bi)['p'] == [2]]
        bad = [d for d in drops if any(x in dc.reaches(d) for x in sites + push)]
        ctx.ob('3n queue-mutex-held-throughout', 'K5-held-at', dc.path, 'the commit-queue guard passed in is not released before the commit is re-queued', not bad and 'MutexGuard' in dc.locals[2] and bool(push), 'early drops %s' % bad)
        lib.must_pass(ctx, '3o deferred-commit-requeued', dc, push, 'every successful return of defer_commit has pushed the commit back onto the queue')
    # change lists are not consumed
    CONSUME = re.compile(r'::(drain|clear|truncate|pop|remove|swap_remove|retain|split_off|dedup.*)$|^std::mem::(take|replace|swap)$')
    bad = []
    for b in F.bodies.values():
        for bi, t in b.all_calls():
            nm = t.get('r') or t.get('f') or ''
            if CONSUME.search(nm) and t['a']:
                fl = lib.receiver_fields(b, t, 0)
                if '.BTreeChangeSet.changes' in fl or '.IndexedChangeSet.changes' in fl or '.IndexedChangeSet.node_changes' in fl:
                    # splitting a list is not consuming it: the log worker may take the node changes of the commit it owns and store
                    # the two halves back (the removals into the changeset that waits, the rest into the commit that goes on)
                    if nm.endswith('mem::take') and lib.site_in(F, 'db::DbInner::process_commits', b.path) and '.IndexedChangeSet.node_changes' in fl:
                        stores = [x for x in b.normal_blocks() for st in b.blocks[x]['s'] if st['k'] == 'assign' and '.IndexedChangeSet.node_changes' in st['p'][1:]]
                        if len([x for x in stores if x in b.reaches(bi)]) >= 2:
                            continue
                    bad.append('%s calls %s at %s' % (b.path, nm, b.loc(bi)))
    ctx.ob('3p change-lists-never-consumed', 'K4-confinement', '-', 'no body drains, clears or takes the change lists of a change set (a deferred commit is cleaned under its old id and then re-queued with the same lists)', not bad, '; '.join(bad[:3]))
    # 5. registry
    gt = ctx.body('db::DbInner::get_tree')
    MUT = re.compile(r'HashMap.*::(insert|remove|clear|retain|drain|extract_if|entry|get_mut|iter_mut|values_mut|remove_entry)$|::(or_insert.*|and_modify)$')
    muts = []
    for b in F.bodies.values():
        for bi, t in b.all_calls():
            nm = t.get('r') or t.get('f') or ''
            if MUT.search(nm) and t['a'] and '.Trees.readers' in lib.receiver_fields(b, t, 0):
                muts.append((b.path, nm.split('::')[-1], bi))
    ok = bool(muts) and all(p == 'db::DbInner::get_tree' and k == 'insert' for p, k, bi in muts)
    ctx.ob('5a registry-only-grows', 'K4-confinement', ','.join(sorted(set(p for p, k, bi in muts))),
           'Trees.readers is only ever extended, by DbInner::get_tree; no entry is removed or replaced elsewhere (removing an entry orphans the lock a client still holds)', ok, str([(p, k) for p, k, bi in muts]))
    if gt:
        for p, k, bi in muts:
            if p == gt.path:
                lib.held_at(ctx, '5b registry-insert-under-write-lock', gt, bi, '.DbInner.trees', 'a reader is registered with the trees lock held')
                lk = lib.field_effect_sites(gt, ['re:HashMap.*::get$'], '.DbInner.trees')
                up = lib.sites_reaching(gt, ['re:Weak.*::upgrade$'])       # directly or inside a combinator closure
                lib.precedes(ctx, '5c registry-consulted-first', gt, lk, [bi], 'a new reader is registered only after the registry was consulted')
                ctx.ob('5d live-reader-returned', 'K1-must-pass', gt.path, 'get_tree upgrades the registered weak handle and returns it when alive (one lock per tree)', len(up) >= 1, '')
