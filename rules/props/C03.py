"""C03 - clean shutdown persists everything; synced log records survive crashes (structural core)."""
import core, lib
from core import call_matches, op_place, backward_slice
from props import shared

LEVEL = 'other'
FLOOR = 34      # 70% of the 49 obligation instances derived on the tree the rules were last reviewed against
EXPLANATION = ('Drop for Db runs shutdown -> join x4 -> kill_logs -> unlock; kill_logs (no background error) drains: enact, flush, process all '
               'commits, enact, flush, enact, flush columns + truncate, delete pool; every drain loop exits only when its callee reports no more work; '
               'worker loops keep running while work remains even after shutdown was requested; queues are FIFO; a log reaches the applier only after sync (C12.1).')
EXPLANATION += ' Added: a log found at open is fdatasynced before replay; a finished reader is never left installed; the log worker keeps going while a commit is (re)queued; known finding F59 (a postponed removal loses its place in the log order).'
ASSUMPTIONS = ['content equality after reopen is not decided', 'the synced lower bound relies on C12 obligation 1 (sync before hand-over)', 'unwind edges ignored']
TRUSTED = ['rustc MIR construction (nightly)', 'pdb-facts driver', 'rule engine /verif/rules', 'anchor tables in props/C03.py']


def run(ctx):
    F = ctx.F
    dr = ctx.body('<db::Db as std::ops::Drop>::drop')
    if dr:
        lib.must_pass(ctx, '1a Drop-calls-drop_inner', dr, dr.call_sites('db::Db::drop_inner'), 'dropping the handle always runs drop_inner', cut_errors=False)
    d = ctx.body('db::Db::drop_inner')
    if d:
        sh = d.call_sites('db::DbInner::shutdown')
        joins = lib.sites_reaching(d, ['re:JoinHandle.*::join$'])        # directly or through a join helper
        kl = d.call_sites('db::DbInner::kill_logs')
        un = d.call_sites('fs2::FileExt::unlock', 'std::fs::File::unlock')
        ctx.ob('1b drop_inner-anchors', 'anchor', d.path, 'drop_inner: shutdown, worker joins, kill_logs', len(sh) >= 1 and len(joins) >= 1 and len(kl) == 1, '%s %s %s' % (sh, joins, kl))
        for j in joins:
            lib.precedes(ctx, '1c shutdown-before-join', d, sh, [j], 'shutdown is requested before any worker is joined (else join blocks forever)')
        lib.must_pass(ctx, '1d kill_logs-always-runs', d, kl, 'every path through drop_inner runs the final drain (kill_logs)', cut_errors=False)
        # kill_logs only after all four joins were attempted (workers no longer touch the pipeline)
        w = None
        for k in kl:
            for j in joins:
                if j in d.reaches(k):
                    w = 'join at %s can run after kill_logs' % d.loc(j)
        ctx.ob('1e joins-before-final-drain', 'K2-order', d.path, 'no worker join follows kill_logs: the final drain runs with all workers stopped', w is None, w or '')
        # each thread handle is taken from its field and joined: 4 distinct fields
        flds = set()
        for j in joins:
            for ai in range(len(d.term(j)['a'])):
                flds |= set(f for f in lib.receiver_fields(d, d.term(j), ai) if f.startswith('.Db.'))
        ctx.ob('1f all-four-threads-joined', 'K9-agreement', d.path, 'the four join calls take their handles from the four thread fields of Db',
               flds >= {'.Db.log_thread', '.Db.flush_thread', '.Db.commit_thread', '.Db.cleanup_thread'}, str(sorted(flds)))
    k = ctx.body('db::DbInner::kill_logs')
    if k:
        none = lib.prune_option_field(k, '.DbInner.bg_err', keep_some=False)
        ctx.ob('2a bg_err-branch-anchored', 'anchor', k.path, 'kill_logs branches on the background-error slot', bool(none), '')
        en = k.call_sites('db::DbInner::enact_logs')
        fl = k.call_sites('db::DbInner::flush_logs')
        pc = k.call_sites('db::DbInner::process_commits')
        ca = k.call_sites('db::DbInner::clean_all_logs')
        lk = k.call_sites('log::Log::kill_logs')
        lib.must_pass_chain(ctx, '2b drain-sequence', k,
                            [('process_commits', pc), ('flush_logs', fl), ('enact_logs', en), ('clean_all_logs', ca), ('Log::kill_logs', lk)],
                            'without a background error: all queued commits are logged, then the log is flushed (handed to the applier), then applied, then tables are flushed and logs truncated, then pool files deleted',
                            removed_edges=none)
        shared.shutdown_drains_every_flushed_log(ctx, '2d')    # F80
        # records logged before the drop are applied too: an enact loop and a flush precede process_commits? (not required)
        for nm, sites in (('process_commits', pc), ('enact_logs', en)):
            for i, s in enumerate(sites):
                inloop = s in k.reaches(s)
                ctx.ob('2c drain-loop %s #%d' % (nm, i), 'K3-loop-exit', k.path, '%s is called in a loop' % nm, inloop, '', k.loc(s))
                lib.result_guards(ctx, '2d loop-exits-on-false %s #%d' % (nm, i), k, [s], s, 'the drain loop repeats %s depending on its result (exits only when it reports no more work)' % nm)
        # flush_logs(0): flush whatever is appended, regardless of size
        for i, s in enumerate(fl):
            a = k.term(s)['a'][1]
            ctx.ob('2e flush-threshold-zero #%d' % i, 'K8-const', k.path, 'the final flushes use min_log_size 0 (everything appended is handed over)', a.get('i') == 0, core.op_str(a))
        # the last enact loop comes after the last flush
        if fl and en:
            last_fl = [f for f in fl if not any(g in k.reaches(f) for g in fl if g != f)]
            ok = all(any(e in k.reaches(f) for e in en) for f in last_fl)
            ctx.ob('2f enact-after-last-flush', 'K2-order', k.path, 'an enact_logs drain follows the last flush_logs', ok, '')
    # workers keep going while there is work
    for fn, callee in (('db::Db::commit_worker', 'db::DbInner::enact_logs'), ('db::Db::log_worker', 'db::DbInner::process_commits'), ('db::Db::cleanup_worker', 'db::DbInner::clean_logs')):
        b = ctx.body(fn)
        if not b:
            continue
        sites = b.call_sites(callee)
        ctx.ob('3a worker-anchor %s' % fn, 'anchor', fn, 'the worker calls %s in its loop' % callee, len(sites) == 1 and sites[0] in b.reaches(sites[0]), str(sites))
        for s in sites:
            lib.exit_requires_flag(ctx, '3b exit-needs-shutdown %s' % fn, b, s, '.DbInner.shutdown', 'the worker returns Ok only after observing the shutdown flag set')
            lib.loop_continues_after_flag(ctx, '3d keeps-going-after-shutdown %s' % fn, b, s, '.DbInner.shutdown', 'with the shutdown flag set the worker loop can still run another iteration (while work remains)')
            lib.result_guards(ctx, '3c continues-while-more-work %s' % fn, b, [s], s, 'the loop condition also depends on the result of %s: a worker does not exit on shutdown while work remains' % callee)
    fw = ctx.body('db::Db::flush_worker')
    if fw:
        ctx.note('flush_worker exits on shutdown alone (reasoned exception: kill_logs calls flush_logs(0) itself)')
    shared.queue_discipline(ctx, '4')
    shared.more_work_signal(ctx, '7')
    shared.sync_before_handover(ctx, '6')
    shared.unsynced_log_never_abandoned(ctx, '6')       # F82: a log that could not be synced is not left behind for a newer one
    shared.replay_order(ctx, '5')
    shared.deferral_keeps_commit_order(ctx, '8')
    # ... and what does wait - the removal of a tree whose reader is locked - keeps its place in the order in which commits reach the
    # log: it is held back at the FRONT of the queue (the log worker backs off), or an intent record marks its place. Re-queued at the
    # back, commits accepted after it are logged and synced first; a crash then keeps the later commit and loses the earlier one (F59)
    pc = ctx.body('db::DbInner::process_commits')
    if pc:
        back = [x for x in lib.field_effect_sites(pc, ['re:VecDeque.*::push_back$'], '.CommitQueue.commits')]
        ctx.ob('8y postponed-removal-keeps-its-place-in-the-log-order', 'K2-order', pc.path,
               'the log worker never puts (part of) a commit it has taken off the queue behind commits that were accepted later', not back,
               'a deferred removal is pushed onto the back of the commit queue (under a new id): later commits reach the log before it')    # 'reopening returns every commit, in order': the log holds them in commit order
