"""C06 - values of every size and compressibility are returned bit-exact.
Round-trip equality is a value property and is NOT decided. Decided: the layout constants the
encoding relies on, marker/size-word disjointness, the narrowing on the encode path, and the
same-size-class condition for in-place replacement."""
import re, struct
import core, lib
from core import call_matches, call_names, op_place, op_local, backward_slice
from props import shared

LEVEL = 'other'
FLOOR = 14
EXPLANATION = ('Const-evaluated relations (read from the compiler, not copied): size tiers strictly increasing and inside [MIN_ENTRY_SIZE, MAX_ENTRY_SIZE], '
               'tier count, buffer size; every size word a writer can emit (with or without the compressed bit) differs from every marker word and markers are '
               'pairwise distinct; the usize->u16 narrowing of the size word in overwrite_chain happens only on the edge where the remainder fits the entry; '
               'an existing value is overwritten in place only when the new value lands in the same size tier (a chained value replaced by a small one must '
               'be removed and re-inserted, else it is written without its MULTIHEAD marker).')
EXPLANATION += ' Added: a value that may be chained is read through one locked overlay view (known finding F32, 8 sites); next-part links carry no order (no ordering test between a link and a slot position).'
ASSUMPTIONS = ['DECLINED: chain reuse/trim logic, compression round trip, release of old storage', 'legacy (db_version <= 4) markers are not part of the disjointness check', 'unwind edges ignored']
TRUSTED = ['rustc const evaluation + MIR construction (nightly)', 'pdb-facts driver', 'rule engine /verif/rules']


def run(ctx):
    F = ctx.F
    C = {k: v for k, v in F.consts.items()}
    def ci(name):
        return C.get(name, {}).get('i')
    sizes_hex = C.get('column::SIZES', {}).get('hex')
    sizes = list(struct.unpack('<%dH' % (len(sizes_hex) // 4), bytes.fromhex(sizes_hex))) if sizes_hex else []
    need = ['table::SIZE_TIERS', 'table::SIZE_TIERS_BITS', 'table::MAX_ENTRY_SIZE', 'table::MIN_ENTRY_SIZE', 'table::SIZE_SIZE', 'table::MAX_ENTRY_BUF_SIZE', 'table::MULTIPART_ENTRY_SIZE', 'table::COMPRESSED_MASK', 'table::INDEX_SIZE']
    missing = [n for n in need if ci(n) is None]
    ctx.ob('0 constants-read', 'anchor', '-', 'the layout constants were const-evaluated by the compiler', not missing and len(sizes) >= 2, 'missing %s, %d size tiers' % (missing, len(sizes)))
    if missing or not sizes:
        return
    T, TB, MAX, MIN, SS, BUF, MP, CM, IS = [ci(n) for n in need]
    ctx.ob('1a tiers-strictly-increasing', 'K8-const', 'column::SIZES', 'SIZES is strictly increasing (each tier is a distinct size class)', all(a < b for a, b in zip(sizes, sizes[1:])),
           'first non-increasing pair (index, a, b): %s' % (next(((i, a, b) for i, (a, b) in enumerate(zip(sizes, sizes[1:])) if not a < b), None),))
    ctx.ob('1b tiers-in-range', 'K8-const', 'column::SIZES', 'MIN_ENTRY_SIZE <= SIZES[0] and SIZES[last] <= MAX_ENTRY_SIZE', MIN <= sizes[0] and sizes[-1] <= MAX, '%d..%d vs [%d,%d]' % (sizes[0], sizes[-1], MIN, MAX))
    ctx.ob('1c tier-count', 'K8-const', 'column::SIZES', 'SIZES.len() + 1 == SIZE_TIERS == 1 << SIZE_TIERS_BITS (the last tier is the multipart table; the tier fits the address bits)', len(sizes) + 1 == T == (1 << TB), '%d %d %d' % (len(sizes), T, TB))
    ctx.ob('1d multipart-entry-in-range', 'K8-const', 'table', 'MIN_ENTRY_SIZE <= MULTIPART_ENTRY_SIZE <= MAX_ENTRY_SIZE', MIN <= MP <= MAX, str(MP))
    ctx.ob('1e entry-fits-buffer', 'K8-const', 'table', 'MAX_ENTRY_SIZE + SIZE_SIZE <= MAX_ENTRY_BUF_SIZE (a full entry fits the stack buffer)', MAX + SS <= BUF, '%d + %d vs %d' % (MAX, SS, BUF))
    ctx.ob('1f part-header-fits', 'K8-const', 'table', 'a multipart part has room for payload: SIZE_SIZE + INDEX_SIZE < MULTIPART_ENTRY_SIZE', SS + IS < MP, '')
    # 2. markers
    def word(name):
        s = C.get(name, {}).get('s')
        return None if s is None or len(s) != 2 else ord(s[0]) | (ord(s[1]) << 8)
    markers = {n: word('table::' + n) for n in ('TOMBSTONE', 'MULTIPART', 'MULTIHEAD', 'MULTIHEAD_COMPRESSED')}
    ctx.ob('2a markers-read', 'anchor', 'table', 'the four marker constants are two-byte strings', None not in markers.values(), str(markers))
    if None not in markers.values():
        ctx.ob('2b compressed-mask-is-top-bit', 'K8-const', 'table', 'COMPRESSED_MASK is the single top bit of the size word', CM == 0x8000, hex(CM))
        maxword = MAX - SS          # largest value write_size can be given: remainder <= entry_size - SIZE_SIZE <= MAX_ENTRY_SIZE - SIZE_SIZE
        clash = [n for n, w in markers.items() if (w & ~CM) <= maxword]
        ctx.ob('2c markers-disjoint-from-sizes', 'K8-const', 'table',
               'every marker word, with the compressed bit masked off, is larger than the largest size word a writer can emit (MAX_ENTRY_SIZE - SIZE_SIZE), so a stored size is never read as a marker',
               not clash, 'clashing markers %s (max size word %#x)' % (clash, maxword))
        ws = list(markers.values())
        ctx.ob('2d markers-pairwise-distinct', 'K8-const', 'table', 'the four markers are pairwise distinct words', len(set(ws)) == 4, str([hex(w) for w in ws]))
        ctx.ob('2e multihead-pair', 'K8-const', 'table', 'MULTIHEAD_COMPRESSED is MULTIHEAD without the compressed bit (same marker, flag in the top bit)', markers['MULTIHEAD_COMPRESSED'] == (markers['MULTIHEAD'] & ~CM), '')
    # 3. narrowing on the encode path
    oc = ctx.body('table::ValueTable::overwrite_chain')
    if oc:
        casts = [(bi, si) for bi in oc.normal_blocks() for si, s in enumerate(oc.blocks[bi]['s']) if s['k'] == 'assign' and s['r']['k'] == 'cast' and s['r']['ck'] == 'IntToInt' and s['r']['from'] == 'usize' and s['r']['to'] == 'u16']
        ctx.ob('3a size-word-narrowing-anchor', 'anchor', oc.path, 'overwrite_chain narrows the remainder to the 16-bit size word in one place', len(casts) == 1, str(casts))
        for bi, si in casts:
            ok = False
            for (sw, yes, no) in oc.control_deps(bi):
                t = oc.term(sw)
                d = lib.switch_def(oc, sw)
                if d and d[2] == 'assign' and d[3]['r']['k'] == 'bin' and d[3]['r']['op'] == 'Gt' and t['vals'] == [0]:
                    a, b2 = d[3]['r']['a']
                    sb = backward_slice(oc, [op_place(b2)]) if op_place(b2) else None
                    if sb and '.ValueTable.entry_size' in sb.fields and t['ts'][0] in yes and t['ts'][1] in no:
                        ok = True
            ctx.ob('3b size-word-fits', 'K7-narrowing-cast', oc.path, '`remainder as u16` is evaluated only on the not-greater edge of `remainder > entry_size - SIZE_SIZE` (entry_size <= MAX_ENTRY_SIZE < 2^15)', ok, '', oc.loc(bi, si))
    vo = ctx.body('table::ValueTable::open')
    if vo:
        asr = [bi for bi in vo.normal_blocks() if vo.term(bi)['k'] == 'call' and call_matches(vo.term(bi), ['re:^core::panicking::'])]
        ctx.ob('3c entry-size-asserted-at-open', 'K1-must-pass', vo.path, 'ValueTable::open asserts MIN_ENTRY_SIZE <= entry_size <= MAX_ENTRY_SIZE (2 assertions)', len(asr) >= 2, '%d panic sites' % len(asr))
    # 4. in-place replacement only in the same size class
    we = ctx.body('column::Column::write_existing_value_plan')
    if we:
        rp = we.call_sites('table::ValueTable::write_replace_plan')
        ctx.ob('4a replace-anchor', 'anchor', we.path, 'one in-place replace site', len(rp) == 1, str(rp))
        for s in rp:
            ok = False
            for (sw, yes, no) in we.control_deps(s):
                pol = lib.eq_polarity(we, sw)
                if pol:
                    eq_t, ne_t, ops = pol
                    sl = [backward_slice(we, [op_place(o)]) for o in ops if op_place(o)]
                    calls = set().union(*[x.calls for x in sl]) if sl else set()
                    if eq_t in yes and ne_t in no and any(c.endswith('Address::size_tier') for c in calls) and any(c.endswith('Column::compress') for c in calls):
                        ok = True
            ctx.ob('4b replace-in-place-only-in-same-tier', 'K3-guard', we.path,
                   'write_replace_plan is reached only on the EQUAL edge of (current tier == tier chosen for the new value); any other relation rewrites a value in a table of the wrong size class', ok, '')


    # a chained (multi-part) value is fetched part by part; each part lookup goes to the log overlay first. Handing the reader the
    # RwLock flavour of LogQuery takes and releases the overlay read lock PER PART, so Log::end_record can publish a whole record
    # between two parts of one value: the parts of two different values are concatenated (only the head part carries a key check).
    # Readers of values that may be chained therefore get one locked view (LogOverlays behind a read guard) for the whole value.
    shared.value_read_one_guard(ctx, '5')
    # 6. the parts of a chain are linked in no particular order: released parts go onto a LIFO free list, so a chain built from
    # recycled slots links backwards. Nothing on the read or release path may compare a next-part link with the slot it was read
    # from for ORDER (equality - a self loop - is a different matter): such a test rejects or truncates validly stored values.
    n6 = 0
    for b in sorted(F.bodies.values(), key=lambda x: x.path):
        if not b.path.startswith('table::ValueTable::') or not b.call_sites('re:^table::Entry::<.*>::read_next$'):
            continue
        n6 += 1
        bad = []
        for bi in b.normal_blocks():
            for st in b.blocks[bi]['s']:
                if st['k'] != 'assign' or st['r']['k'] != 'bin' or st['r']['op'] not in ('Lt', 'Le', 'Gt', 'Ge'):
                    continue
                ops = [a for a in st['r']['a']]
                sls = [backward_slice(b, [op_place(a)]) if op_place(a) is not None else None for a in ops]
                if len(sls) != 2 or None in sls:
                    continue
                def is_link(a):
                    # the operand is a link just read: a copy of the result of Entry::read_next (both operands of a test inside the
                    # walk loop DERIVE from links - the position is the previous link - so the data slice cannot tell them apart)
                    r = lib.root_local(b, a)
                    return r is not None and any(d[2] == 'call' and call_matches(d[3], ['re:Entry::<.*>::read_next$']) for d in b.defs().get(r, []))
                link = [is_link(a) for a in ops]
                # the slot position: the index parameter (2) or a local that is re-assigned from a link (the loop variable)
                def is_pos(a, sl):
                    r = lib.root_local(b, a)
                    if r is None:
                        return False
                    if b.names.get(r) in ('index', 'slot', 'offset', 'position'):
                        return True
                    return 1 <= r <= b.argc and str(b.locals[r]) == 'u64'
                pos = [is_pos(a, sl) for a, sl in zip(ops, sls)]
                if (link[0] and pos[1]) or (link[1] and pos[0]):
                    bad.append(b.loc(bi))
        ctx.ob('6a chain-links-carry-no-order %s' % b.path, 'K3-guard', b.path, 'no ordering comparison between a next-part link and the position of the slot it was read from', not bad, 'ordering test at %s' % bad)
    ctx.ob('6a0 chain-walkers', 'anchor', 'table::ValueTable', 'the functions that follow next-part links were found (reader, release, in-place rewrite)', n6 >= 3, 'found %d' % n6)

