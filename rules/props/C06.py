"""C06 - values of every size and compressibility are returned bit-exact.
Round-trip equality is a value property and is NOT decided. Decided: the layout constants the
encoding relies on, marker/size-word disjointness, the narrowing on the encode path, and the
same-size-class condition for in-place replacement."""
import re, struct
import core, lib
from core import call_matches, call_names, op_place, op_local, backward_slice
from props import shared

LEVEL = 'other'
FLOOR = 14
EXPLANATION = ('Const-evaluated relations (read from the compiler, not copied): size tiers strictly increasing and inside [MIN_ENTRY_SIZE, MAX_ENTRY_SIZE], '
               'tier count, buffer size; every size word a writer can emit (with or without the compressed bit) differs from every marker word and markers are '
               'pairwise distinct; the usize->u16 narrowing of the size word in overwrite_chain happens only on the edge where the remainder fits the entry; '
               'an existing value is overwritten in place only when the new value lands in the same size tier (a chained value replaced by a small one must '
               'be removed and re-inserted, else it is written without its MULTIHEAD marker).')
EXPLANATION += ' Added: a value that may be chained is read through one locked overlay view (known finding F32, 8 sites); next-part links carry no order (no ordering test between a link and a slot position). Release and reuse of storage (7a-7g: old entry released before a value moves to another size class, every walked part freed, a shorter value frees the tail, a freed slot is linked to the previous free-list head and becomes the head, next_free advances the head to the stored link and grows the table only when the list is empty, the in-memory mirror of multitree tables moves in step). The compressed flag is true exactly for bytes from the compressor and decompress runs exactly on its true edge (8a, 8b).'
ASSUMPTIONS = ['not decided: which slot numbers and byte ranges the chain writer uses, the codecs (lz4 / snappy round trip), which tier a length maps to; the release / reuse protocol (7a-7g) and the agreement of the compressed flag with the bytes (8a, 8b) are decided as path and provenance facts', 'legacy (db_version <= 4) markers are not part of the disjointness check', 'unwind edges ignored']
TRUSTED = ['rustc const evaluation + MIR construction (nightly)', 'pdb-facts driver', 'rule engine /verif/rules']


def run(ctx):
    shared.chain_link_markers_agree(ctx, '9m')
    # the allocator the chain writer takes its slots from: a slot popped off the free list changes the header as much as an appended one
    # (a stale free-list head on disk hands a live slot out again after a reopen, and the chain writer overwrites a stored value)
    shared.borrow(ctx, 'C14', '1b header-marked-dirty', '12b slot-claims-mark-the-header-dirty')
    codec_refusal_is_not_a_panic(ctx)
    uncounted_set_is_always_written(ctx)
    F = ctx.F
    C = {k: v for k, v in F.consts.items()}
    def ci(name):
        return C.get(name, {}).get('i')
    sizes_hex = C.get('column::SIZES', {}).get('hex')
    sizes = list(struct.unpack('<%dH' % (len(sizes_hex) // 4), bytes.fromhex(sizes_hex))) if sizes_hex else []
    need = ['table::SIZE_TIERS', 'table::SIZE_TIERS_BITS', 'table::MAX_ENTRY_SIZE', 'table::MIN_ENTRY_SIZE', 'table::SIZE_SIZE', 'table::MAX_ENTRY_BUF_SIZE', 'table::MULTIPART_ENTRY_SIZE', 'table::COMPRESSED_MASK', 'table::INDEX_SIZE']
    missing = [n for n in need if ci(n) is None]
    ctx.ob('0 constants-read', 'anchor', '-', 'the layout constants were const-evaluated by the compiler', not missing and len(sizes) >= 2, 'missing %s, %d size tiers' % (missing, len(sizes)))
    if missing or not sizes:
        return
    T, TB, MAX, MIN, SS, BUF, MP, CM, IS = [ci(n) for n in need]
    ctx.ob('1a tiers-strictly-increasing', 'K8-const', 'column::SIZES', 'SIZES is strictly increasing (each tier is a distinct size class)', all(a < b for a, b in zip(sizes, sizes[1:])),
           'first non-increasing pair (index, a, b): %s' % (next(((i, a, b) for i, (a, b) in enumerate(zip(sizes, sizes[1:])) if not a < b), None),))
    ctx.ob('1b tiers-in-range', 'K8-const', 'column::SIZES', 'MIN_ENTRY_SIZE <= SIZES[0] and SIZES[last] <= MAX_ENTRY_SIZE', MIN <= sizes[0] and sizes[-1] <= MAX, '%d..%d vs [%d,%d]' % (sizes[0], sizes[-1], MIN, MAX))
    ctx.ob('1c tier-count', 'K8-const', 'column::SIZES', 'SIZES.len() + 1 == SIZE_TIERS == 1 << SIZE_TIERS_BITS (the last tier is the multipart table; the tier fits the address bits)', len(sizes) + 1 == T == (1 << TB), '%d %d %d' % (len(sizes), T, TB))
    ctx.ob('1d multipart-entry-in-range', 'K8-const', 'table', 'MIN_ENTRY_SIZE <= MULTIPART_ENTRY_SIZE <= MAX_ENTRY_SIZE', MIN <= MP <= MAX, str(MP))
    ctx.ob('1e entry-fits-buffer', 'K8-const', 'table', 'MAX_ENTRY_SIZE + SIZE_SIZE <= MAX_ENTRY_BUF_SIZE (a full entry fits the stack buffer)', MAX + SS <= BUF, '%d + %d vs %d' % (MAX, SS, BUF))
    ctx.ob('1f part-header-fits', 'K8-const', 'table', 'a multipart part has room for payload: SIZE_SIZE + INDEX_SIZE < MULTIPART_ENTRY_SIZE', SS + IS < MP, '')
    # 2. markers
    def word(name):
        s = C.get(name, {}).get('s')
        return None if s is None or len(s) != 2 else ord(s[0]) | (ord(s[1]) << 8)
    markers = {n: word('table::' + n) for n in ('TOMBSTONE', 'MULTIPART', 'MULTIHEAD', 'MULTIHEAD_COMPRESSED')}
    ctx.ob('2a markers-read', 'anchor', 'table', 'the four marker constants are two-byte strings', None not in markers.values(), str(markers))
    if None not in markers.values():
        ctx.ob('2b compressed-mask-is-top-bit', 'K8-const', 'table', 'COMPRESSED_MASK is the single top bit of the size word', CM == 0x8000, hex(CM))
        maxword = MAX - SS          # largest value write_size can be given: remainder <= entry_size - SIZE_SIZE <= MAX_ENTRY_SIZE - SIZE_SIZE
        clash = [n for n, w in markers.items() if (w & ~CM) <= maxword]
        ctx.ob('2c markers-disjoint-from-sizes', 'K8-const', 'table',
               'every marker word, with the compressed bit masked off, is larger than the largest size word a writer can emit (MAX_ENTRY_SIZE - SIZE_SIZE), so a stored size is never read as a marker',
               not clash, 'clashing markers %s (max size word %#x)' % (clash, maxword))
        ws = list(markers.values())
        ctx.ob('2d markers-pairwise-distinct', 'K8-const', 'table', 'the four markers are pairwise distinct words', len(set(ws)) == 4, str([hex(w) for w in ws]))
        ctx.ob('2e multihead-pair', 'K8-const', 'table', 'MULTIHEAD_COMPRESSED is MULTIHEAD without the compressed bit (same marker, flag in the top bit)', markers['MULTIHEAD_COMPRESSED'] == (markers['MULTIHEAD'] & ~CM), '')
    # 3. narrowing on the encode path
    oc = ctx.body('table::ValueTable::overwrite_chain')
    if oc:
        casts = [(bi, si) for bi in oc.normal_blocks() for si, s in enumerate(oc.blocks[bi]['s']) if s['k'] == 'assign' and s['r']['k'] == 'cast' and s['r']['ck'] == 'IntToInt' and s['r']['from'] == 'usize' and s['r']['to'] == 'u16']
        ctx.ob('3a size-word-narrowing-anchor', 'anchor', oc.path, 'overwrite_chain narrows the remainder to the 16-bit size word in one place', len(casts) == 1, str(casts))
        for bi, si in casts:
            ok = False
            for (sw, yes, no) in oc.control_deps(bi):
                t = oc.term(sw)
                d = lib.switch_def(oc, sw)
                if d and d[2] == 'assign' and d[3]['r']['k'] == 'bin' and d[3]['r']['op'] == 'Gt' and t['vals'] == [0]:
                    a, b2 = d[3]['r']['a']
                    sb = backward_slice(oc, [op_place(b2)]) if op_place(b2) else None
                    if sb and '.ValueTable.entry_size' in sb.fields and t['ts'][0] in yes and t['ts'][1] in no:
                        ok = True
            ctx.ob('3b size-word-fits', 'K7-narrowing-cast', oc.path, '`remainder as u16` is evaluated only on the not-greater edge of `remainder > entry_size - SIZE_SIZE` (entry_size <= MAX_ENTRY_SIZE < 2^15)', ok, '', oc.loc(bi, si))
    vo = ctx.body('table::ValueTable::open')
    if vo:
        asr = [bi for bi in vo.normal_blocks() if vo.term(bi)['k'] == 'call' and call_matches(vo.term(bi), ['re:^core::panicking::'])]
        ctx.ob('3c entry-size-asserted-at-open', 'K1-must-pass', vo.path, 'ValueTable::open asserts MIN_ENTRY_SIZE <= entry_size <= MAX_ENTRY_SIZE (2 assertions)', len(asr) >= 2, '%d panic sites' % len(asr))
    # 4. in-place replacement only in the same size class
    we0 = ctx.body('column::Column::write_existing_value_plan')
    if we0:
        # (the Set arm may live in a helper of the planner: the site is looked for in its family)
        hosts = [(b_, b_.call_sites('table::ValueTable::write_replace_plan')) for b_ in lib.family(F, we0.path) if b_.path.startswith('column::') and '{closure' not in b_.path]
        hosts = [(b_, x) for b_, x in hosts if x]
        ctx.ob('4a replace-anchor', 'anchor', we0.path, 'one in-place replace site', len(hosts) == 1 and len(hosts[0][1]) == 1, str([(b_.path, x) for b_, x in hosts]))
        we, rp = hosts[0] if hosts else (we0, [])
        for s in rp:
            ok = False
            for (sw, yes, no) in we.control_deps(s):
                pol = lib.eq_polarity(we, sw)
                if pol:
                    eq_t, ne_t, ops = pol
                    sl = [backward_slice(we, [op_place(o)]) for o in ops if op_place(o)]
                    calls = set().union(*[x.calls for x in sl]) if sl else set()
                    if eq_t in yes and ne_t in no and any(c.endswith('Address::size_tier') for c in calls) and any(c.endswith('Column::compress') for c in calls):
                        ok = True
            ctx.ob('4b replace-in-place-only-in-same-tier', 'K3-guard', we.path,
                   'write_replace_plan is reached only on the EQUAL edge of (current tier == tier chosen for the new value); any other relation rewrites a value in a table of the wrong size class', ok, '')


    # a chained (multi-part) value is fetched part by part; each part lookup goes to the log overlay first. Handing the reader the
    # RwLock flavour of LogQuery takes and releases the overlay read lock PER PART, so Log::end_record can publish a whole record
    # between two parts of one value: the parts of two different values are concatenated (only the head part carries a key check).
    # Readers of values that may be chained therefore get one locked view (LogOverlays behind a read guard) for the whole value.
    shared.value_read_one_guard(ctx, '5')
    # 6. the parts of a chain are linked in no particular order: released parts go onto a LIFO free list, so a chain built from
    # recycled slots links backwards. Nothing on the read or release path may compare a next-part link with the slot it was read
    # from for ORDER (equality - a self loop - is a different matter): such a test rejects or truncates validly stored values.
    n6 = 0
    for b in sorted(F.bodies.values(), key=lambda x: x.path):
        if not b.path.startswith('table::ValueTable::') or not b.call_sites('re:^table::Entry::<.*>::read_next$'):
            continue
        n6 += 1
        bad = []
        for bi in b.normal_blocks():
            for st in b.blocks[bi]['s']:
                if st['k'] != 'assign' or st['r']['k'] != 'bin' or st['r']['op'] not in ('Lt', 'Le', 'Gt', 'Ge'):
                    continue
                ops = [a for a in st['r']['a']]
                sls = [backward_slice(b, [op_place(a)]) if op_place(a) is not None else None for a in ops]
                if len(sls) != 2 or None in sls:
                    continue
                def is_link(a):
                    # the operand is a link just read: a copy of the result of Entry::read_next (both operands of a test inside the
                    # walk loop DERIVE from links - the position is the previous link - so the data slice cannot tell them apart)
                    r = lib.root_local(b, a)
                    return r is not None and any(d[2] == 'call' and call_matches(d[3], ['re:Entry::<.*>::read_next$']) for d in b.defs().get(r, []))
                link = [is_link(a) for a in ops]
                # the slot position: the index parameter (2) or a local that is re-assigned from a link (the loop variable)
                def is_pos(a, sl):
                    r = lib.root_local(b, a)
                    if r is None:
                        return False
                    if b.names.get(r) in ('index', 'slot', 'offset', 'position'):
                        return True
                    return 1 <= r <= b.argc and str(b.locals[r]) == 'u64'
                pos = [is_pos(a, sl) for a, sl in zip(ops, sls)]
                if (link[0] and pos[1]) or (link[1] and pos[0]):
                    bad.append(b.loc(bi))
        ctx.ob('6a chain-links-carry-no-order %s' % b.path, 'K3-guard', b.path, 'no ordering comparison between a next-part link and the position of the slot it was read from', not bad, 'ordering test at %s' % bad)
    ctx.ob('6a0 chain-walkers', 'anchor', 'table::ValueTable', 'the functions that follow next-part links were found (reader, release, in-place rewrite)', n6 >= 3, 'found %d' % n6)

    # 7. "overwriting or removing a value releases the storage of the old one so that it can be reused": the release protocol as
    # path / provenance facts (which slot numbers flow where is not decided).
    VT = 'table::ValueTable::'
    # 7a a value that moves to another size class: the old entry is released before the new one is inserted
    if we:
        ins = lib.sites_reaching(we, ['table::ValueTable::write_insert_plan'])
        rel = lib.sites_reaching(we, ['table::ValueTable::write_remove_plan', 'table::ValueTable::write_dec_ref'])
        ctx.ob('7a0 move-anchor', 'anchor', we.path, 'write_existing_value_plan has an insert-elsewhere site and release sites', len(ins) >= 1 and len(rel) >= 1, 'insert %s release %s' % (ins, rel))
        for n, s_ in enumerate(sorted(ins)):
            ok = any(we.dominates(r, s_) for r in rel)
            ctx.ob('7a old-entry-released-before-reinsert #%d' % n, 'K2-order', we.path,
                   'the insert of a replaced value into another size class is dominated by the release (write_remove_plan) of the entry it had: otherwise the old entry is never freed', ok, '', we.loc(s_))
    # 7b write_remove_plan releases on every success path; clear_chain frees every part it walks over
    wr = ctx.body(VT + 'write_remove_plan')
    if wr:
        t = lib.sites_reaching(wr, [VT + 'clear_chain', VT + 'clear_slot'])
        lib.must_pass(ctx, '7b remove-plan-frees', wr, t, 'every success path of write_remove_plan frees the entry (clear_slot) or its whole chain (clear_chain)')
    cc = ctx.body(VT + 'clear_chain')
    if cc:
        reads = lib.sites_reaching(cc, [VT + 'read_next_part'])
        frees = lib.sites_reaching(cc, [VT + 'clear_slot'])
        ctx.ob('7c0 clear-chain-anchor', 'anchor', cc.path, 'clear_chain reads links and frees slots', len(reads) >= 1 and len(frees) >= 1, 'reads %s frees %s' % (reads, frees))
        if reads and frees:
            # after a link was read successfully, neither the next read nor the return is reached without a clear_slot
            bad = []
            for r in reads:
                errs = set(lib.result_err_targets(cc, r))
                succ0 = [x for x in cc.succ(r) if x in cc.normal_blocks()]
                seen = set(); st = list(succ0)
                while st:
                    x = st.pop()
                    if x in seen or x in frees or x in errs:
                        continue
                    seen.add(x)
                    if x in reads or (x in cc.return_blocks() and not _err_return(cc, x, errs)):
                        bad.append((r, x)); continue
                    st.extend(y for y in cc.succ(x) if y in cc.normal_blocks())
            ctx.ob('7c every-walked-part-freed', 'K1-must-pass', cc.path,
                   'between reading the link of a part and either following it or returning Ok, the part is freed (clear_slot): a part skipped here is lost for reuse', not bad, 'free-less paths (from read, to) %s' % bad)
    # 7d the in-place chain writer frees what is left of the old chain when the new value is shorter
    if oc:
        ccs = lib.sites_reaching(oc, [VT + 'clear_chain'])
        ctx.ob('7d0 trim-anchor', 'anchor', oc.path, 'overwrite_chain trims through clear_chain', len(ccs) >= 1, str(ccs))
        if ccs:
            # the switch the trim depends on tests the link of the part after the last one written against 0 (no further part)
            zero_edges = set(); found = False
            for c in ccs:
                for (sw, yes, no) in oc.control_deps(c):
                    pol = lib.eq_polarity(oc, sw)
                    if not pol:
                        continue
                    eq_t, ne_t, ops = pol
                    cs = [lib.const_of(oc, o) for o in ops]
                    if 0 in cs and ne_t in yes:
                        zero_edges.add((sw, eq_t)); found = True
            left = lib.ok_return_unreachable_avoiding(oc, ccs, removed_edges=frozenset(zero_edges))
            ctx.ob('7d shorter-value-frees-the-tail', 'K1-must-pass', oc.path,
                   'overwrite_chain returns Ok only through clear_chain of the remaining old parts, or over the edge where the next link is 0 (no old part left)', found and left is None,
                   'zero-link edges %s; path avoiding the trim: %s' % (sorted(zero_edges), lib.short_path(oc, left) if left else None))
    # 7e freeing links the slot into the free list: tombstone + link to the previous head, logged, and the slot becomes the head
    cs_ = ctx.body(VT + 'clear_slot')
    if cs_:
        tomb = lib.sites_reaching(cs_, ['re:^table::Entry::<.*>::write_tombstone$'])
        nxt = lib.sites_reaching(cs_, ['re:^table::Entry::<.*>::write_next$'])
        logw = lib.sites_reaching(cs_, ['re:^log::LogWriter::<.*>::insert_value$'])
        st = [bi for bi, t in cs_.calls() if call_matches(t, lib.ATOMIC_STORE) and '.ValueTable.last_removed' in lib.receiver_fields(cs_, t, 0)]
        have = all(len(x) >= 1 for x in (tomb, nxt, logw)) and len(st) == 1
        ctx.ob('7e0 free-anchor', 'anchor', cs_.path, 'clear_slot writes a tombstone, a link, logs the entry and stores last_removed', have, 'tombstone %s link %s log %s store %s' % (tomb, nxt, logw, st))
        if have:
            lib.must_pass_chain(ctx, '7e free-sequence', cs_, [('tombstone', tomb), ('link', nxt), ('logged', logw), ('head-store', st)], 'every success path of clear_slot: tombstone marker, link, entry logged, slot becomes the free-list head')
            ok = True
            for nx in nxt:
                # (the link is argument 1 of write_next; when the marker is written by a helper, one of the helper's arguments)
                sls = [backward_slice(cs_, [op_place(a)]) for a in cs_.term(nx)['a'][1:] if op_place(a) is not None]
                ok = ok and any('.ValueTable.last_removed' in sl.fields and any(re.search(r'::load$', c) for c in sl.calls) for sl in sls)
            ctx.ob('7e1 freed-slot-links-to-previous-head', 'K9-provenance', cs_.path, 'the link written into the freed slot is the free-list head loaded from last_removed (the list is not cut)', ok, '', cs_.loc(nxt[0]))
            sa = cs_.term(st[0])['a']
            r = lib.root_local(cs_, sa[1]) if len(sa) > 1 else None
            la = cs_.term(logw[0])['a']
            r2s = [lib.root_local(cs_, a) for a in la[1:]]
            r2 = r if r in r2s else None
            ok = r is not None and 1 <= r <= cs_.argc and r == r2
            ctx.ob('7e2 freed-slot-becomes-head', 'K9-provenance', cs_.path, 'the slot number stored into last_removed and the slot the tombstone is logged for are the same parameter (the slot that was freed)', ok, 'store arg root %s, log arg root %s' % (r, r2), cs_.loc(st[0]))
            # the load of the previous head precedes the store of the new one
            ld = [bi for bi, t in cs_.calls() if call_matches(t, lib.ATOMIC_LOAD) and '.ValueTable.last_removed' in lib.receiver_fields(cs_, t, 0)]
            ctx.ob('7e3 head-loaded-before-replaced', 'K2-order', cs_.path, 'last_removed is loaded before it is overwritten', bool(ld) and all(not cs_.reaches(st[0]).__contains__(l) or cs_.dominates(l, st[0]) for l in ld) and any(cs_.dominates(l, st[0]) for l in ld), 'loads %s store %s' % (ld, st))
    # 7f reuse: next_free hands out the free-list head and advances the head to the link stored in it
    nf = ctx.body(VT + 'next_free')
    if nf:
        rd = lib.sites_reaching(nf, [VT + 'read_next_free'])
        st = [bi for bi, t in nf.calls() if call_matches(t, lib.ATOMIC_STORE) and '.ValueTable.last_removed' in lib.receiver_fields(nf, t, 0)]
        ctx.ob('7f0 reuse-anchor', 'anchor', nf.path, 'next_free reads the link of the head slot and stores last_removed', len(rd) >= 1 and len(st) >= 1, 'read %s store %s' % (rd, st))
        for n, s_ in enumerate(st):
            sa = nf.term(s_)['a']
            sl = backward_slice(nf, [op_place(sa[1])]) if len(sa) > 1 and op_place(sa[1]) else None
            ok = bool(sl) and any(c.endswith('ValueTable::read_next_free') for c in sl.calls) and any(nf.dominates(r_, s_) for r_ in rd)
            ctx.ob('7f head-advances-to-stored-link #%d' % n, 'K9-provenance', nf.path, 'the new free-list head is the link read from the slot being handed out (read_next_free), so the rest of the list stays reachable', ok, '', nf.loc(s_))
        # the head is consulted before the table grows: the store to `filled` is on the head == 0 edge
        stf = [bi for bi, t in nf.calls() if call_matches(t, lib.ATOMIC_STORE) and '.ValueTable.filled' in lib.receiver_fields(nf, t, 0)]
        for n, s_ in enumerate(stf):
            ok = False
            for (sw, yes, no) in nf.control_deps(s_):
                pol = lib.eq_polarity(nf, sw)
                if pol:
                    eq_t, ne_t, ops = pol
                    sls = [backward_slice(nf, [op_place(o)]) for o in ops if op_place(o)]
                    if 0 in [lib.const_of(nf, o) for o in ops] and eq_t in yes and any('.ValueTable.last_removed' in x.fields for x in sls):
                        ok = True
            ctx.ob('7f2 table-grows-only-when-free-list-empty #%d' % n, 'K3-guard', nf.path, 'next_free extends the table (stores filled) only on the edge where the free-list head is 0: freed slots are reused first', ok, '', nf.loc(s_))
    # 7g the in-memory mirror of the free list (multitree tables) moves in step with the head
    shared.free_list_mirror_in_step(ctx, '7g')

    # 8. compression round trip, as far as it is in the shape of the code: the flag stored with an entry says what the bytes are
    compression_flag(ctx, F)

def _err_return(body, bi, errs):
    return False



def compression_flag(ctx, F):
    """Writer: the `compressed` flag handed to the table with the bytes of a value is true exactly for bytes that came out of the
    compressor. The (bytes, flag) pairs are built in the planner (`(cval.as_slice(), true)` / `(val, false)`, as tuples, possibly in
    a closure or in match arms): a pair with a true flag holds bytes derived from Column::compress, a pair with a false flag holds
    bytes that are not. Reader: Compress::decompress is applied exactly on the true edge of a test of the flag that the table read
    returned together with the bytes. The codecs themselves (lz4 / snappy round trip) are not decided."""
    WR = ['table::ValueTable::write_insert_plan', 'table::ValueTable::write_replace_plan']
    CMP = 'column::Column::compress'
    npairs = 0
    nsites = 0
    for fn in ('column::Column::write_new_value_plan', 'column::Column::write_existing_value_plan'):
        b = ctx.body(fn)
        if not b:
            continue
        # the table writes of this planner, also those made by a helper that is handed the bytes and the flag as parameters
        # (`move_value(tables, from, tier, key, cval, compressed, log)`): the helper's call site stands for the write
        def write_sites(body, depth=0):
            out = []
            for s0 in sorted(body.call_sites(*WR)):
                out.append((s0, list(body.term(s0)['a'])))
            if depth < 2:
                for s0, t0 in body.calls():
                    if s0 not in body.normal_blocks():
                        continue
                    hs = [n for n in call_names(t0) if n in F.bodies and n not in WR and n != body.path and lib.confined_through(F, n, {fn})]
                    if not hs:
                        continue
                    hb = F.bodies[hs[0]]
                    for hs0, hargs in write_sites(hb, depth + 1):
                        mapped = []
                        for a in hargs:
                            pl = op_place(a)
                            if pl is not None and len(pl) == 1 and 1 <= pl[0] <= hb.argc and not hb.defs().get(pl[0]) and pl[0] - 1 < len(t0['a']):
                                mapped.append(t0['a'][pl[0] - 1])
                            elif pl is None:
                                mapped.append(a)
                        out.append((s0, mapped))
            return out
        for s_, args_ in write_sites(b):
            t = {'a': args_}
            flag = [a for a in t['a'] if op_place(a) is not None and str(b.locals[op_place(a)[0]]) == 'bool' and len(op_place(a)) == 1]
            byts = [a for a in t['a'] if op_place(a) is not None and str(b.locals[op_place(a)[0]]) == '&[u8]' and len(op_place(a)) == 1]
            if not flag or not byts:
                # a constant flag: `false` with raw bytes is fine, `true` never is
                cflag = [lib.const_of(b, a) for a in t['a'] if op_place(a) is None]
                ctx.ob('8a flag-names-the-bytes %s @%s' % (fn, nsites), 'K9-agreement', fn, 'a constant compressed flag is false', 1 not in cflag, str(cflag), b.loc(s_))
                nsites += 1
                continue
            nsites += 1
            slf = backward_slice(b, [op_place(flag[0])])
            slb = backward_slice(b, [op_place(byts[0])])
            pairs = []       # (flag const, bytes come from the compressor)
            # pairs built in this body
            for l in slf.locals:
                for d in b.defs().get(l, []):
                    if d[2] == 'assign' and d[3]['r']['k'] == 'agg' and d[3]['r']['ak'] == 'Tuple' and len(d[3]['r']['a']) == 2:
                        c = lib.const_of(b, d[3]['r']['a'][1])
                        bp = op_place(d[3]['r']['a'][0])
                        if c in (0, 1) and bp is not None:
                            pairs.append((c, CMP in backward_slice(b, [bp]).calls, b.loc(d[0])))
            # pairs built in a closure that maps the compressor's Option
            for (cb_, ct) in slf.call_sites:
                for a in ct['a']:
                    if op_place(a) is None:
                        continue
                    for d in b.defs().get(op_place(a)[0], []):
                        if d[2] == 'assign' and d[3]['r']['k'] == 'agg' and str(d[3]['r'].get('ak', '')).startswith('Closure:'):
                            cl = F.body(d[3]['r']['ak'][8:])
                            recv = backward_slice(b, [op_place(ct['a'][0])]) if op_place(ct['a'][0]) is not None else None
                            fed = bool(recv) and CMP in recv.calls
                            if cl is None:
                                continue
                            for bi2 in cl.normal_blocks():
                                for st2 in cl.blocks[bi2]['s']:
                                    if st2['k'] == 'assign' and st2['r']['k'] == 'agg' and st2['r']['ak'] == 'Tuple' and len(st2['r']['a']) == 2:
                                        c = lib.const_of(cl, st2['r']['a'][1])
                                        bp = op_place(st2['r']['a'][0])
                                        if c in (0, 1) and bp is not None:
                                            from_param = bool(backward_slice(cl, [bp]).params - {1})
                                            pairs.append((c, fed and from_param, cl.loc(bi2)))
            if pairs:
                npairs += len(pairs)
                bad = [(c, fc, loc) for (c, fc, loc) in pairs if bool(c) != bool(fc)]
                ctx.ob('8a flag-names-the-bytes %s @%s' % (fn, nsites - 1), 'K9-agreement', fn,
                       'every (bytes, flag) pair that reaches the table write has flag == true exactly when the bytes derive from Column::compress', not bad and len(pairs) >= 2,
                       'pairs (flag, from compressor, where): %s' % pairs, b.loc(s_))
            else:
                # flag computed from the Option (`cval.is_some()`): accepted when bytes and flag derive from the same compress call
                ok = any(re.search(r'Option::<.*>::is_some$', c) for c in slf.calls) and CMP in slf.calls and CMP in slb.calls
                ctx.ob('8a flag-names-the-bytes %s @%s' % (fn, nsites - 1), 'K9-agreement', fn,
                       'the flag is `is_some()` of the compressor\'s result and the bytes come from the same result', ok, 'no (bytes, flag) pair found; flag calls %s' % sorted(slf.calls)[:6], b.loc(s_))
    ctx.ob('8a0 flagged-writes', 'anchor', '-', 'the table writes of the value planners that pass a compressed flag were found', nsites >= 3, 'sites %d, pairs %d' % (nsites, npairs))
    # reader side
    nd = 0
    for b in sorted(F.bodies.values(), key=lambda x: x.path):
        if b.path.startswith('compress::'):
            continue
        for d_ in b.call_sites('compress::Compress::decompress'):
            if d_ not in b.normal_blocks():
                continue
            nd += 1
            ok = False
            why = 'no test of a compressed flag controls the call'
            for (sw, yes, no) in b.control_deps(d_):
                t = b.term(sw)
                if t['k'] != 'switch' or t['vals'] != [0] or len(t['ts']) != 2:
                    continue
                fl = op_place(t['a'])
                if fl is None or str(b.locals[fl[0]]) != 'bool':
                    continue
                r = lib.root_local(b, t['a'])
                neg = False
                dd = lib.switch_def(b, sw)
                if dd and dd[2] == 'assign' and dd[3]['r']['k'] == 'un' and dd[3]['r']['op'] == 'Not':
                    neg = True
                on_true = (t['ts'][1] in yes and t['ts'][0] in no) != neg
                # where the flag comes from: a parameter (closure of a table walk) or a field of a table read's result
                slf = backward_slice(b, [fl])
                src_ok = (r is not None and 1 <= r <= b.argc) or any(re.search(r'ValueTable::(query|get_with_meta|get|size|iter_while)$|::next$', c) for c in slf.calls)
                if src_ok:
                    ok = on_true
                    why = '' if on_true else 'decompress sits on the FALSE edge of the flag'
            ctx.ob('8b decompress-iff-flag %s #%d' % (b.path, nd), 'K3-guard', b.path, 'Compress::decompress is called on the true edge of the compressed flag returned with the bytes', ok, why, b.loc(d_))
    ctx.ob('8b0 decompress-sites', 'anchor', '-', 'the decompression sites outside the compress module were found', nd >= 4, 'found %d' % nd)


# unwrap/expect inside an encoder: reviewed one by one. (F68: `lz4::block::compress(..).unwrap()` had been reviewed as "cannot fail" in the
# C16 table - the codec refuses inputs above 0x7E000000 bytes, and the refusal panicked the log worker after the commit was accepted.)
ENCODER_UNWRAP_OK = [
    ('compress::snappy::Snappy::compress', r'Write::write_all$', 'the frame encoder writes into a Vec: no I/O, no size limit below the address space'),
]


def codec_refusal_is_not_a_panic(ctx):
    """values of every size: the compression step of planning runs in the log worker, after the commit was accepted; a codec that
    refuses its input must not panic there (the value would be lost). No unwrap / expect on a fallible foreign result in an encoder."""
    import errdisc
    F = ctx.F
    n = 0
    for b, bi, t in errdisc.fallible_sites(F):
        if not (b.path.startswith('compress::') and re.search(r'::compress(::\{closure#\d+\})*$', b.path)):
            continue
        n += 1
        sinks = errdisc.classify(b, bi, t)
        callee = (t.get('r') or t.get('f') or '?')
        if 'unwrap' in sinks:
            hit = [why for fn, rx, why in ENCODER_UNWRAP_OK if b.path.startswith(fn) and re.search(rx, callee)]
            ctx.ob('10a codec-refusal-is-not-a-panic %s <- %s' % (b.path, callee.split('::')[-1]), 'K7-unwrap-audit', b.path,
                   'an encoder does not unwrap the result of the codec: a refused input (size limit) is stored uncompressed' + (' (reviewed: %s)' % hit[0] if hit else ''),
                   bool(hit), 'unwrap of %s' % callee, b.loc(bi))
        else:
            ctx.ob('10a codec-refusal-is-not-a-panic %s <- %s' % (b.path, callee.split('::')[-1]), 'K7-unwrap-audit', b.path,
                   'an encoder does not unwrap the result of the codec: a refused input (size limit) is stored uncompressed', True, '')
    ctx.ob('10a0 encoder-anchor', 'anchor', 'compress::', 'the encoders call at least two fallible foreign functions (lz4, snappy)', n >= 2, 'fallible call sites in compress::*::compress: %d' % n)


def uncounted_set_is_always_written(ctx):
    """A Set of an existing key in a column that is neither reference counted nor preimage-keyed replaces the stored value: every
    success path of that arm of write_existing_value_plan passes a table write (replace in place, or remove + insert in another
    tier). A shortcut that decides "nothing to write" from the stored bytes (same length, same bytes) forgets that what an entry
    means is its bytes AND its compressed flag (seed C06-unchanged-shortcut-ignores-compressed-flag)."""
    F = ctx.F
    we = ctx.body('column::Column::write_existing_value_plan')
    if not we:
        return
    rcs = [l for l, nm in we.names.items() if nm == 'ref_counted' and 1 <= l <= we.argc]
    ctx.ob('11a0 plan-anchor', 'anchor', we.path, 'write_existing_value_plan has a ref_counted parameter', len(rcs) == 1, str(rcs))
    if len(rcs) != 1:
        return
    off = set(lib.prune_bool_param(we, rcs[0], False)) | set(lib.prune_bool_field(we, '.TablesRef.preimage', False))
    opsw = None
    for bi in we.normal_blocks():
        t = we.term(bi)
        d = lib.switch_def(we, bi)
        if t['k'] == 'switch' and d and d[2] == 'assign' and d[3]['r']['k'] == 'discr' and 'db::Operation<' in str(we.locals[d[3]['r']['p'][0]]):
            opsw = bi
            break
    names = {v['discr']: v['name'] for v in F.adts['db::Operation']['variants']}
    arms = dict(zip(we.term(opsw)['vals'], we.term(opsw)['ts'])) if opsw is not None else {}
    setarm = [tg for v, tg in arms.items() if names.get(v) == 'Set']
    writes = lib.sites_reaching(we, ['table::ValueTable::write_replace_plan', 'table::ValueTable::write_insert_plan'])
    ok = bool(setarm) and bool(writes)
    w = None
    if ok:
        w = we.find_path(setarm, we.return_blocks(), removed=set(writes) | core.error_exit_blocks(we) | {opsw}, removed_edges=frozenset(off))
        ok = w is None
    ctx.ob('11a uncounted-set-is-always-written', 'K1-must-pass', we.path,
           'with ref_counted and preimage off, every success path of the Set arm writes the value into a table (write_replace_plan or write_insert_plan): no "unchanged" shortcut',
           ok, 'no Set arm / write sites' if w is None and not ok else ('success path that writes nothing: ' + lib.short_path(we, w) if w else ''))
