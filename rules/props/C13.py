"""C13 - damaged or stale write-ahead logs are rejected, never half-applied.
Decided: validate-then-apply with checksum and sequence guards (shared with C02), validator/applier
agreement on every bound the applier relies on, and an audit of every panic-capable construct in
the code that runs on log bytes before their checksum is known to be good."""
import re
import core, lib
from core import call_matches, op_place, op_local, backward_slice
from props import shared, C02

LEVEL = 'other'
FLOOR = 60
EXPLANATION = ('(1) proof-style path rules: records are applied in replay only after the whole record was validated, its CRC compared equal and its '
               'id equals last_enacted+1; nothing is applied or advanced after a failed validation. (2) validator/applier agreement: every column id, '
               'chunk index, entry mask and value size the applier uses unchecked is bounded by the validator. (3) audit (level other): every '
               'panic-capable construct (unwrap/expect, slice/array indexing, explicit panics; arithmetic overflow checks of debug builds excluded) in '
               'the call closure of the pre-checksum pass is auto-discharged by constant reasoning, discharged by a structural guard obligation, or '
               'listed in a reviewed table with its reason; an unlisted site is reported.')
EXPLANATION += ' Added: end of data is recognised only by UnexpectedEof of a complete-header read; an action is validated against the table it names; first record id arithmetic saturates; known findings F33 (validation has side effects) and F35 (replay baseline not persistent).'
ASSUMPTIONS = ['arithmetic-overflow assertions (debug builds only) are not audited; release builds wrap',
               'the reviewed table entries are justified by reading (each carries its reason)',
               'content of the recovered prefix is not decided', 'unwind edges ignored']
TRUSTED = ['rustc MIR construction (nightly)', 'pdb-facts driver', 'rule engine /verif/rules', 'reviewed panic-site table in props/C13.py']

PRECHECKSUM_ROOTS = ['column::Column::validate_plan', "log::LogReader::<'a>::next", "log::LogReader::<'a>::read", "log::LogReader::<'a>::reset",
                     'log::Log::read_next', 'log::Log::open', 'log::Log::open_log_file', 'log::Log::read_first_record_id', 'log::Log::replay_next',
                     'log::Log::clear_replay_logs', 'log::Log::replay_record_id']

# reviewed table: (function, kind, regex on callee/what) -> (max count, reason)
REVIEWED = [
    ('<table::Entry<B> as std::ops::Index<std::ops::Range<usize>>>::index', 'call:index', r'Index<std::ops::Range<usize>>>::index$', 1,
     'forwarding impl: the range is supplied by the caller; every caller in the closure is audited itself'),
    ('<table::Entry<B> as std::ops::IndexMut<std::ops::Range<usize>>>::index_mut', 'call:index', r'IndexMut<std::ops::Range<usize>>>::index_mut$', 1,
     'forwarding impl: the range is supplied by the caller; every caller in the closure is audited itself'),
    ('btree::BTreeTable::validate_plan', 'call:index', r'Vec<table::ValueTable> as std::ops::Index<usize>>::index$', 1,
     'index is TableId::size_tier() (a u8) into the value-table vector, which Column::open builds with SIZE_TIERS = 256 entries'),
    ('column::HashColumn::validate_plan', 'call:index', r'Vec<table::ValueTable> as std::ops::Index<usize>>::index$', 1,
     'index is TableId::size_tier() (a u8) into the value-table vector, which Column::open builds with SIZE_TIERS = 256 entries'),
    ('column::HashColumn::trigger_ref_count_reindex', 'call:unwrap', r'Option::<ref_count::RefCountTable>::unwrap$', 1,
     'unwraps the table just replaced by mem::replace; reached from validate_plan only after the ref_count presence test (obligation 4a)'),
    ('column::Tables::get_ref_count', 'call:unwrap', r'Option::<&ref_count::RefCountTable>::unwrap$', 1,
     'callers in the pre-checksum closure test ref_count presence first (obligation 4a)'),
    ("log::LogReader::<'a>::next", 'assert:BoundsCheck', r'BoundsCheck', 1, 'buf[0] of a [u8; 8]'),
    ("log::LogReader::<'a>::next", 'call:unwrap', r'Option::<&mut log::Reading>::unwrap$', 1,
     'LogReader is built only by Log::read_next after it made `reading` Some; it is taken only when the reader is given up'),
    ("log::LogReader::<'a>::next::{closure#0}", 'call:unwrap', r'Option::<&mut log::Reading>::unwrap$', 1, 'same invariant as LogReader::next'),
    ("log::LogReader::<'a>::read", 'call:unwrap', r'Option::<&mut log::Reading>::unwrap$', 1, 'same invariant as LogReader::next'),
    ("log::LogReader::<'a>::reset", 'call:unwrap', r'Option::<&mut log::Reading>::unwrap$', 1, 'same invariant as LogReader::next'),
    ("log::LogReader::<'a>::next::{closure#0}", 'call:index', r'\[u8; 8\] as std::ops::Index(Mut)?<std::ops::Range<usize>>>::index(_mut)?$', 2,
     'buf[0..size]: size is a constant <= 8 at every call of the closure (obligation 4c)'),
    ('table::Entry::<B>::read_slice', 'call:index', r'\[u8\] as std::ops::Index<std::ops::Range<usize>>>::index$', 1,
     'in the closure only reached through read_size at offset 0 of the 32768-byte FullEntry (2 bytes)'),
    ('table::Entry::<B>::read_size', 'call:unwrap', r'Result::<\[u8; 2\], std::array::TryFromSliceError>::unwrap$', 1, 'read_slice(SIZE_SIZE) returns exactly 2 bytes'),
    ('table::ValueTable::validate_plan', 'call:index', r'Entry<\[u8; 32768\]> as std::ops::IndexMut<std::ops::Range<usize>>>::index_mut$', 3,
     'buf[2..2+8] (constant sum, not folded in MIR); buf[2..entry_size]: entry_size <= MAX_ENTRY_SIZE (asserted in ValueTable::open); buf[2..2+len]: len bounded by entry_size (obligation 3h)'),
    ('log::Log::open', 'call:index', r'str as std::ops::Index<std::ops::RangeFrom<usize>>>::index$', 1, 'name[3..] after name.starts_with("log") (obligation 4b)'),
]


def _entry_head_range(b, s):
    """a constant range inside the first 10 bytes of the buffer of a table::Entry (every buffer an Entry is instantiated with has
    at least 10 bytes: PartialEntry = [u8; 10], FullEntry = [u8; 32768], a mapped slot of entry_size >= 32)"""
    t = b.term(s['block'])
    cr = lib._const_range(b, t['a'][1]) if len(t['a']) > 1 else None
    if not cr or any(v is None for v in cr[1]):
        return False
    kind, vals = cr
    return (kind == 'Range' and 0 <= vals[0] <= vals[1] <= 10) or (kind == 'RangeTo' and vals[0] <= 10)


# reviewed by a predicate on the site rather than by function: (path prefix, kind, regex on callee/what, predicate, reason)
REVIEWED_IF = [
    ('table::Entry::<B>::', 'call:index', r'\[u8\] as std::ops::Index<std::ops::Range(To)?<usize>>>::index$', _entry_head_range,
     'a constant range within the first 10 bytes of an entry buffer (marker / size word)'),
]


def agreement(ctx, p):
    F = ctx.F
    el = ctx.body('db::DbInner::enact_logs')
    if el:
        rs = el.call_sites("log::LogReader::<'a>::reset")
        # the two matches on LogAction: the apply pass (after reset) in enact_logs, the validation pass before reset - in
        # enact_logs itself or in a helper extracted from it
        def la_switches(b):
            out = []
            for bi in sorted(b.normal_blocks()):
                t = b.term(bi)
                if t['k'] != 'switch':
                    continue
                d = lib.switch_def(b, bi)
                if d and d[2] == 'assign' and d[3]['r']['k'] == 'discr' and len(d[3]['r']['p']) == 1 and b.locals[d[3]['r']['p'][0]] == 'log::LogAction':
                    out.append(bi)
            return out
        sws = la_switches(el)
        app = [s for s in sws if rs and any(s in el.reaches(r) for r in rs)]
        ab = el          # the body that holds the apply match: enact_logs, or a helper it calls after reset
        if not app and rs:
            for hb in lib.family(F, el.path):
                if hb is not el and hb.kind != 'Closure' and lib.sites_reaching(hb, shared.APPLIERS, lift=False):
                    calls_h = [x for x in el.call_sites(hb.path) if any(x in el.reaches(r) for r in rs)]
                    if calls_h and la_switches(hb):
                        ab, app = hb, la_switches(hb)
        val = [(el, s) for s in sws if rs and any(r in el.reaches(s) for r in rs) and not any(s in el.reaches(r) for r in rs)]
        if not val:
            for hb in lib.family(F, el.path):
                if hb is not el and hb.kind != 'Closure' and hb.call_sites("log::LogReader::<'a>::next"):
                    val += [(hb, s) for s in la_switches(hb)]
        ctx.ob(p + 'a two-matches', 'anchor', el.path, 'one match on LogAction in the validation pass and one in the apply pass', len(val) == 1 and len(app) == 1, 'validation %s apply %s' % ([(b.path, s) for b, s in val], app))
        if len(val) == 1 and len(app) == 1:
            vb, vsw = val[0]
            adt = F.adts['log::LogAction']
            names = {v['discr']: v['name'] for v in adt['variants']}
            tv, ta = vb.term(vsw), ab.term(app[0])
            arms_v = dict(zip(tv['vals'], tv['ts']))
            arms_a = dict(zip(ta['vals'], ta['ts']))
            gets = [bi for bi, t in vb.calls() if call_matches(t, ['core::slice::<impl [T]>::get', 're:Vec.*::get$']) and '.DbInner.columns' in lib.receiver_fields(vb, t, 0)]
            # (the bounds check may sit in a helper of the validation pass: its call stands for the check if every success return of the
            # helper has passed `columns.get`)
            for bi, t in vb.calls():
                for nm_ in core.call_names(t):
                    hb_ = F.bodies.get(nm_)
                    if hb_ is None or hb_ is vb or bi in gets:
                        continue
                    hg = [x for x, t2 in hb_.calls() if call_matches(t2, ['core::slice::<impl [T]>::get', 're:Vec.*::get$']) and '.DbInner.columns' in lib.receiver_fields(hb_, t2, 0)]
                    if hg and lib.ok_return_unreachable_avoiding(hb_, hg) is None:
                        gets.append(bi)
            idxs = [bi for bi, t in ab.calls() if call_matches(t, ['re:Index<usize>>::index$', 're:Vec<column::Column> as std::ops::Index']) and '.DbInner.columns' in lib.receiver_fields(ab, t, 0)]
            nx = [s for s in vb.call_sites("log::LogReader::<'a>::next") if s in vb.reaches(vsw) and vsw in vb.reaches(s)]
            goal = set(nx) | (set(rs) if vb is el else set(vb.return_blocks()))
            for v, nm in sorted(names.items()):
                if nm in ('BeginRecord', 'EndRecord'):
                    continue
                # does the applier index self.columns unchecked in this arm?
                tgt_a = arms_a.get(v, ta['ts'][-1])
                other = set(t2 for vv, t2 in arms_a.items() if vv != v) | {ta['ts'][-1]} - {tgt_a}
                reach_a = ab.reachable_from([tgt_a], removed=set(other) | {app[0]})
                uses_index = [i for i in idxs if i in reach_a]
                if not uses_index:
                    continue
                tgt_v = arms_v.get(v, tv['ts'][-1])
                w = vb.find_path([tgt_v], goal, removed=set(gets) | core.error_exit_blocks(vb)) if tgt_v is not None else ['?']
                ctx.ob(p + 'b column-id-validated %s' % nm, 'K9-agreement', vb.path,
                       'the apply pass indexes self.columns with the column id of a %s record without a check, so the validation pass must bounds-check it (columns.get) in its %s arm' % (nm, nm),
                       w is None, '' if w is None else 'validation arm continues without a bounds check of the column id: ' + lib.short_path(vb, w), ab.loc(uses_index[0]))
    shared.old_table_records_skipped(ctx, p)
    # table validators bound what the appliers dereference
    for fn, fld in (('index::IndexTable::validate_plan', None), ('ref_count::RefCountTable::validate_plan', None)):
        b = ctx.body(fn)
        if not b:
            continue
        reads = lib.sites_reaching(b, ["log::LogReader::<'a>::read"])       # directly or through a helper (skip_plan)
        ctx.ob(p + 'c validator-reads %s' % fn, 'anchor', fn, 'the validator consumes the mask and the entries from the log', len(reads) >= 1, str(reads))
        if reads:
            lib.cond_guarded(ctx, p + 'd chunk-index-bounded-by-total_chunks %s' % fn, b, reads[0],
                             'the chunk index is compared with total_chunks() (the applier writes at META_SIZE + index * CHUNK_LEN; the file holds total_chunks chunks)',
                             params=[2], calls=['re:TableId::total_chunks$'])
            mod = fn.split('::')[0]
            ce = F.consts.get(mod + '::CHUNK_ENTRIES', {}).get('i')
            ctx.ob(p + 'e chunk-entries-const %s' % fn, 'anchor', fn, 'CHUNK_ENTRIES is a known constant', ce is not None, str(ce))
            if ce is not None and ce < 64:
                # the reads that consume the entries sit in a loop (one per mask bit), in the validator or a helper of it
                loop_reads = [(fb, s2) for fb in [b] + [x for x in lib.family(F, fn) if x is not b] for s2 in fb.call_sites("log::LogReader::<'a>::read") if s2 in fb.reaches(s2)]
                ctx.ob(p + 'f0 entry-read-loop %s' % fn, 'anchor', fn, 'the entries are consumed in a loop', len(loop_reads) >= 1, '')
                for fb, s2 in loop_reads:
                    lib.cond_guarded(ctx, p + 'f mask-bounded %s' % fn, fb, s2,
                                     'the 64-bit entry mask is bounded by CHUNK_ENTRIES (%d) before entries are consumed: the applier slices the chunk at bit * ENTRY_BYTES' % ce, consts=[ce])
    # value table: validator and applier take the same decisions and consume the same pieces
    vv, ve = ctx.body('table::ValueTable::validate_plan'), ctx.body('table::ValueTable::enact_plan')
    if vv and ve:
        def prof(b):
            # over the function and the private helpers extracted from it (a classifier fn may hold the tests)
            return {k: sum(len(fb.call_sites(*pats)) for fb in lib.family(F, b.path)) for k, pats in (('read', ["log::LogReader::<'a>::read"]), ('tomb', ['table::Entry::<B>::is_tombstone']),
                                                                ('multi', ['table::Entry::<B>::is_multi']), ('size', ['table::Entry::<B>::read_size']))}
        pv, pe = prof(vv), prof(ve)
        ctx.ob(p + 'g value-validator-mirrors-applier', 'K9-agreement', vv.path,
               'ValueTable::validate_plan and enact_plan both decide header / tombstone / multipart / sized entry (each consults is_tombstone, is_multi and read_size and reads from the log)',
               all(pv[k] >= 1 and pe[k] >= 1 for k in pv), 'validator %s applier %s' % (pv, pe))
        # the multipart interpretation applies to multipart tables only - on BOTH sides (a validator that takes a marker-like
        # size word of a fixed-size table for a multipart part accepts a record the applier reads as a 32 KiB entry)
        for nm, b in (('validator', vv), ('applier', ve)):
            ms = lib.fam_sites(F, b.path, ['table::Entry::<B>::is_multi'])
            ctx.ob(p + 'g1 multipart-test-present %s' % nm, 'anchor', b.path, 'the %s (or a helper of it) consults is_multi' % nm, len(ms) >= 1, '')
            for i, (fb, s2) in enumerate(ms):
                lib.cond_guarded(ctx, p + 'g2 multipart-test-only-for-multipart-tables %s #%d' % (nm, i), fb, s2,
                                 'is_multi is consulted only depending on self.multipart (same condition in validator and applier)', fields=['.ValueTable.multipart'])
        reads = vv.call_sites("log::LogReader::<'a>::read")
        last = [r for r in reads if any(s in vv.reaches(x) and r in vv.reaches(s) for x in [0] for s in vv.call_sites('table::Entry::<B>::read_size'))]
        for r in last:
            lib.cond_guarded(ctx, p + 'h value-size-bounded', vv, r, 'the size field read from the log is compared with the table entry size before it is used to slice the entry buffer',
                             fields=['.ValueTable.entry_size'], calls=['table::Entry::<B>::read_size'])


def panic_audit(ctx, p):
    F = ctx.F
    missing = [r for r in PRECHECKSUM_ROOTS if r not in F.bodies]
    ctx.ob(p + 'roots', 'anchor', '-', 'all roots of the pre-checksum closure exist', not missing, str(missing))
    cl = F.transitive_callees([r for r in PRECHECKSUM_ROOTS if r in F.bodies])
    ctx.info['C13.prechecksum_closure'] = sorted(cl)
    # nothing that runs before the checksum of a record is known changes the database: the validation pass only reads. (Today
    # HashColumn::validate_plan answers an unknown index / ref-count table id by STARTING a reindex - creating the table in memory
    # and switching the column to it - for an id that may be a flipped bit of a record that is then rejected.)
    MUT = [c for c in sorted(cl) if re.search(r'::(trigger_reindex|trigger_ref_count_reindex|create_new|drop_index|drop_ref_count|drop_file)$', c)]
    # validate_plan is reachable from the roots only in validation mode; enact_plan legitimately creates/drops tables after the checksum
    pre = set(F.transitive_callees([r for r in ('column::Column::validate_plan', 'column::HashColumn::validate_plan', 'btree::BTreeTable::validate_plan') if r in F.bodies]))
    bad = [c for c in MUT if c in pre]
    ctx.ob(p + '4e validation-pass-has-no-side-effects', 'K4-confinement', 'column::HashColumn::validate_plan',
           'no function reachable from the validation pass (validate_plan) creates, switches or drops a table: the record has not passed its checksum yet',
           not bad, 'reachable before the checksum is known: %s' % bad)
    counts = {}
    nsites = nauto = nover = npred = 0
    for c in sorted(cl):
        b = F.body(c)
        for s in lib.panic_sites(b):
            if 'log::' in s['mx'] or '__log' in s['mx']:
                continue
            nsites += 1
            if s['kind'].startswith('assert:Overflow') or s['kind'] in ('assert:DivisionByZero', 'assert:RemainderByZero') and False:
                nover += 1
                continue
            r = lib.panic_site_autodischarge(b, s)
            if r is None and 'try_io!' in s['mx'] and re.search(r'Result::<usize, usize>::unwrap$', s['what']):
                r = 'fault-injection counter of the instrumentation feature: AtomicUsize::fetch_update with a closure that always returns Some cannot fail'
            if r:
                nauto += 1
                continue
            hit = None
            for exact in (True, False):      # an entry written for this very body first, then entries that cover it as a helper/closure
                for i, (fn, kind, rx, mx, reason) in enumerate(REVIEWED):
                    if (fn == c if exact else lib.site_in(F, fn, c)) and kind == s['kind'] and re.search(rx, s['what']):
                        hit = i
                        break
                if hit is not None:
                    break
            if hit is None and any(c.startswith(pre_) and kind == s['kind'] and re.search(rx, s['what']) and pred(b, s) for pre_, kind, rx, pred, _ in REVIEWED_IF):
                npred += 1
                continue
            if hit is None:
                ctx.ob(p + 'unlisted %s %s %s' % (c, s['kind'], re.sub(r'\s+', ' ', s['what'])[:80]), 'K7-panic-audit', c,
                       'every panic-capable construct reachable while parsing unverified log bytes is discharged or reviewed', False,
                       'unreviewed %s (%s) in the pre-checksum closure' % (s['kind'], s['what'][:100]), s['loc'])
            else:
                counts[hit] = counts.get(hit, 0) + 1
    for i, (fn, kind, rx, mx, reason) in enumerate(REVIEWED):
        n = counts.get(i, 0)
        if n == 0:
            continue
        ctx.ob(p + 'reviewed %s %s #%d' % (fn, kind, i), 'K7-panic-audit', fn, 'reviewed panic-capable site(s): %s' % reason, n <= mx,
               '%d site(s) of this kind, %d reviewed' % (n, mx))
    ctx.info['C13.panic_sites'] = {'total': nsites, 'auto_discharged': nauto, 'overflow_checks_excluded': nover, 'reviewed': sum(counts.values()), 'reviewed_by_predicate': npred}
    ctx.ob(p + 'coverage', 'K7-panic-audit', '-', 'the audit enumerated a plausible number of sites (>= 40 on the pinned tree)', nsites >= 40, 'sites: %d' % nsites)
    # structural guards backing table entries
    hv = ctx.body('column::HashColumn::validate_plan')
    if hv:
        g = hv.call_sites('column::Tables::get_ref_count')
        ctx.ob(p + '4a0 get_ref_count-sites', 'anchor', hv.path, 'validate_plan uses get_ref_count', len(g) >= 1, '')
        for i, s in enumerate(g):
            lib.cond_guarded(ctx, p + '4a ref_count-presence-checked #%d' % i, hv, s, 'Tables::get_ref_count (unwrap) is reached only after the presence test of Tables.ref_count', fields=['.Tables.ref_count'])
        # the presence test must cut the None case: path from entry to get_ref_count with is_none true removed
    lo = ctx.body('log::Log::open')
    if lo:
        for s in [bi for bi, t in lo.calls() if re.search(r'str as std::ops::Index<std::ops::RangeFrom', t.get('fa') or '')]:
            lib.cond_guarded(ctx, p + '4b log-name-prefix-checked', lo, s, 'name[3..] is evaluated only after name.starts_with("log")', calls=['re:str>?::starts_with'])
    # the first record id found in a log file is unverified input too: the arithmetic that turns it into the sequence baseline at
    # open must not be able to trip an overflow check (a zeroed or bit-flipped first id would panic Db::open in checked builds)
    ob_ = ctx.body('db::DbInner::open')
    if ob_:
        bad = []
        for bi in ob_.normal_blocks():
            t = ob_.term(bi)
            if t['k'] == 'assert' and 'verflow' in str(t.get('msg', '')) and isinstance(t.get('a'), dict) and op_place(t['a']) is not None:
                sl = backward_slice(ob_, [[op_place(t['a'])[0]]])
                if any(re.search(r'Log::replay_record_id$|read_first_record_id$', c) for c in sl.calls):
                    bad.append(ob_.loc(bi))
        ctx.ob(p + '4d first-record-id-arithmetic-cannot-overflow', 'K7-panic-audit', ob_.path,
               'the sequence baseline is derived from the first record id of the log with saturating / checked arithmetic (the id is read from the file before any checksum is verified)',
               not bad, 'overflow-checked arithmetic on the unverified id at %s' % bad)
    if ob_:
        # "... leaves a state not older than what the tables already held": how far the tables have got must come from persistent state.
        # Taking it from the first log file PRESENT means that damage to (or loss of) an older, already enacted log that is still on
        # disk (sync_data = false keeps 16 of them) makes replay start over from that point and re-apply old records over newer data
        st = [bi for bi in ob_.normal_blocks() for st_ in ob_.blocks[bi]['s'] if st_['k'] == 'assign' and st_['r']['k'] == 'agg' and str(st_['r']['ak']).endswith('db::DbInner')]
        src = set()
        adt = F.adts.get('db::DbInner')
        if st and adt:
            names = [f['name'] for f in adt['variants'][0]['fields']]
            bi = st[0]
            agg = [st_ for st_ in ob_.blocks[bi]['s'] if st_['k'] == 'assign' and st_['r']['k'] == 'agg' and str(st_['r']['ak']).endswith('db::DbInner')][0]
            o = agg['r']['a'][names.index('last_enacted')]
            if op_place(o) is not None:
                src = backward_slice(ob_, [op_place(o)]).calls
        from_log_only = any(c.endswith('Log::replay_record_id') for c in src) and not any(re.search(r'(Metadata|read_header|load_|last_enacted_from)', c) for c in src)
        ctx.ob(p + '4f replay-baseline-is-persistent', 'K4-provenance', ob_.path,
               'the record id replay starts after is taken from persistent state describing the tables, not from the first log file that happens to be present',
               bool(src) and not from_log_only, 'last_enacted is initialised from Log::replay_record_id() alone')
    nx = ctx.body("log::LogReader::<'a>::next")
    if nx:
        bad = []
        n = 0
        for bi, t in nx.calls():
            if call_matches(t, ['std::ops::FnMut::call_mut', 're:FnMut.*::call_mut$']):
                n += 1
                sl = backward_slice(nx, [op_place(a) for a in t['a'][1:] if op_place(a)], through_calls=False)
                sizes = [c.get('i') for c in sl.consts if c.get('ty') == 'usize']
                if not sizes or max(sizes) > 8:
                    bad.append('%s sizes %s' % (nx.loc(bi), sizes))
        # only meaningful while a closure of `next` slices its buffer by a size parameter (reviewed panic site); without such a
        # closure the slices sit in `next` itself and are handled by the audit above
        slicing = [c for c in F.closures_of(nx.path) if any(re.search(r'ops::Index(Mut)?<std::ops::Range', (t.get('fa') or '') + (t.get('r') or '')) for _, t in c.calls())]
        ctx.ob(p + '4c read_buf-sizes-constant', 'K8-const', nx.path, 'every call of a buffer-slicing closure of LogReader::next passes a constant size <= 8 (it slices an 8-byte buffer)',
               not bad and (n >= 1 or not slicing), '; '.join(bad) or '%d calls, %d slicing closures' % (n, len(slicing)))


def run(ctx):
    C02.validated_before_apply(ctx, '1')
    agreement(ctx, '3')
    panic_audit(ctx, '4')
    shared.replay_order(ctx, '5')
    shared.eof_is_the_only_end_of_data(ctx, '6')            # empty / header-less files are recognised by UnexpectedEof on a complete-header read only
    shared.record_goes_to_the_table_it_names(ctx, '46')      # an action is validated against the table it names
    write_length_validated(ctx, '47')                         # what the applier writes is bounded by what the validator accepted
    free_list_walks_bounded(ctx, '48')                        # links read from a table file are followed only inside the file, for a bounded number of steps
    record_id_arithmetic(ctx, '7')                            # ids read from a file are never fed to overflow-checked / wrapping `+ 1`


def record_id_arithmetic(ctx, p):
    """A record id is 8 bytes of a log file. The replay path computes with it (next id to hand out, id expected next): a checksum-valid
    record with id u64::MAX made `record_id + 1` panic in builds with overflow checks and wrap to 0 in release builds, after which
    the session numbered its records 0, 1, .. and the next replay threw the whole intact chain away (F64). Decided: in the functions
    that compute with ids taken from files no `+` is applied to an id-derived value (saturating_add / checked_add are calls, not
    binops), and the validation pass rejects the largest id (there is no id for the record after it)."""
    F = ctx.F
    fns = ['log::Log::end_read', 'db::DbInner::enact_logs']
    n = 0
    for fn in fns:
        b = ctx.body(fn)
        if not b:
            continue
        bad = []
        for bi in b.normal_blocks():
            for si, st in enumerate(b.blocks[bi]['s']):
                if st['k'] != 'assign' or st['r']['k'] != 'bin' or st['r']['op'] not in ('Add', 'AddWithOverflow', 'AddUnchecked'):
                    continue
                pls = [op_place(a) for a in st['r']['a'] if op_place(a) is not None]
                if not pls:
                    continue
                sl = backward_slice(b, pls)
                idish = any(re.search(r"LogReader::<.*>::record_id$|LogReader::record_id$", c) for c in sl.calls) or '.DbInner.last_enacted' in sl.fields \
                    or (fn.endswith('end_read') and any(b.names.get(l) == 'record_id' for l in sl.params))
                if idish and 'u64' in str(b.locals[st['p'][0]]):
                    bad.append(b.loc(bi, si))
        n += 1
        ctx.ob(p + 'a id-arithmetic-cannot-overflow %s' % fn, 'K7-panic-audit', fn,
               'no `+` on a value derived from a record id read from a log file (the id may be u64::MAX): saturating or checked arithmetic only', not bad, 'plain addition at %s' % bad if bad else '')
    el = ctx.body('db::DbInner::enact_logs')
    if el:
        # the largest id is rejected before anything of the record is applied: a comparison of record_id() with u64::MAX guards the validation walk
        MAXV = (1 << 64) - 1
        found = False
        for bi in el.normal_blocks():
            for st in el.blocks[bi]['s']:
                if st['k'] == 'assign' and st['r']['k'] == 'bin' and st['r']['op'] in ('Eq', 'Ne', 'Ge', 'Lt'):
                    cs = [lib.const_of(el, a) for a in st['r']['a']]
                    pls = [op_place(a) for a in st['r']['a'] if op_place(a) is not None]
                    if any(c is not None and c >= MAXV - 1 for c in cs) and pls and any(re.search(r'LogReader.*::record_id$', c) for c in backward_slice(el, pls).calls):
                        found = True
        ctx.ob(p + 'b largest-id-rejected', 'K3-guard', el.path, 'enact_logs compares the id of a replayed record with u64::MAX (the record is refused: no id is left for its successor)', found, '')
    ctx.ob(p + '0 id-arithmetic-sites', 'anchor', '-', 'the functions that compute with replayed ids were found', n == 2, 'found %d' % n)


def write_length_validated(ctx, p):
    """The value-table applier writes `buf[0..END]` into slot `index` of the file, where END is computed from bytes of the log
    record (the size field). The validation pass must have refused a record whose END exceeds the slot: the validator contains a
    comparison of THE SAME expression END with the entry size of the table whose "greater" edge is an error. Decided on the
    provenance terms of both functions (rules/symterm.py): the compared expression and the written length are equal as terms."""
    import symterm
    from symterm import TermBuilder, norm, strip_casts, show, walk
    F = ctx.F
    ap = ctx.body('table::ValueTable::enact_plan')
    va = ctx.body('table::ValueTable::validate_plan')
    if not ap or not va:
        return
    ta, tv = TermBuilder(F, ap), TermBuilder(F, va)
    def data_dependent(t):
        return any(isinstance(x, tuple) and x and x[0] == 'call' and re.search(r'from_le_bytes|read_slice|read_size|read_u(16|32|64)', x[1]) for x in walk(t))
    ends = []
    for bi, t in ap.calls():
        if bi in ap.normal_blocks() and call_matches(t, ['file::TableFile::write_at']) and len(t['a']) > 1:
            w = norm(ta.operand(t['a'][1], ta.pos.get(id(t))))
            if w[0] == 'slice' and w[3] is not None:
                ends.append((bi, strip_casts(norm(w[3]))))
    dd = [(bi, e) for bi, e in ends if data_dependent(e)]
    ctx.ob(p + 'b0 applier-write-anchor', 'anchor', ap.path, 'the value applier writes slices of its buffer to the file, one of them with a length taken from the record', len(ends) >= 3 and len(dd) >= 1,
           '%s' % [(bi, show(e)[:80]) for bi, e in ends])
    errs = core.error_exit_blocks(va)
    guards = []
    for bi in sorted(va.normal_blocks()):
        t = va.term(bi)
        if t['k'] != 'switch' or t.get('vals') != [0] or len(t['ts']) != 2:
            continue
        d = strip_casts(norm(tv.operand(t['a'])))
        if d[0] == 'bin' and d[1] in ('Gt', 'Ge', 'Lt', 'Le'):
            lhs, rhs, op = strip_casts(d[2]), strip_casts(d[3]), d[1]
            if op in ('Lt', 'Le'):
                lhs, rhs, op = rhs, lhs, {'Lt': 'Gt', 'Le': 'Ge'}[op]
            # true edge (lhs > rhs) must lead to an error return only
            tr = va.reachable_from([t['ts'][1]], removed={bi})
            only_err = not any(r in tr for r in va.return_blocks() if r not in errs) or all(va.find_path([t['ts'][1]], [r], removed=errs, sensitive=False) is None for r in va.return_blocks())
            guards.append((bi, op, lhs, rhs, only_err))
    for bi, e in dd:
        hit = [g for g in guards if g[2] == e and g[1] == 'Gt' and g[4] and any(isinstance(x, tuple) and x[:1] == ('fld',) and str(x[2]).endswith('.entry_size') for x in walk(g[3]))]
        ctx.ob(p + 'b value-write-length-validated', 'K9-agreement', va.path,
               'the validator refuses a record whose written length (the expression the applier uses as the end of the slice it writes) is greater than the entry size of the table',
               bool(hit), 'applier writes buf[0..%s]; validator compares: %s' % (show(e)[:160], [('%s %s %s' % (show(g[2])[:90], g[1], show(g[3])[:60])) for g in guards][:3]), ap.loc(bi))


def free_list_walks_bounded(ctx, p):
    """F73. The head of a value table's free list comes from the table header, the links from tombstones - bytes that replay wrote
    from a log record. Whoever follows them reads the table file at `link * entry_size`: the link has to be checked against the
    size of the FILE (TableFile.capacity; the fill mark is itself a header value) before the read, and a walk over links must
    stop after a number of steps bounded by the table (a tombstone linked to itself otherwise spins for ever). The validator
    refuses a header whose free slot is not below its fill mark."""
    F = ctx.F
    cap_checkers = set(pth for pth, b in F.bodies.items() if pth.startswith('table::') and any(call_matches(t, ['re:Atomic.*::load$']) and '.TableFile.capacity' in lib.receiver_fields(b, t, 0) for _, t in b.calls())
                       and core.error_exit_blocks(b))
    n = 0
    work = []
    for pth, b in sorted(F.bodies.items()):
        if not pth.startswith('table::ValueTable::') or '{closure' in pth:
            continue
        # a follower of free-list links: reads a slot of the file and then the link stored in it, without a marker test of the
        # chained-value kind (those are the value chains, reached from an index entry)
        names = [c for _, t in b.calls() for c in core.call_names(t)]
        if not any(re.search(r'Entry::<.*>::read_next$', c) for c in names) or any(re.search(r'Entry::<.*>::is_multi(head|part)?$', c) for c in names):
            continue
        reads = [bi for bi, t in b.calls() if bi in b.normal_blocks() and call_matches(t, ['file::TableFile::read_at'])]
        if not reads:
            continue
        work.append((pth, b, reads))
    # a straight-line helper that reads the link of the slot it is given (`next = self.read_free_link(next)?`): its callers are the
    # followers, the call is their read
    for pth, b, reads in list(work):
        checks = [bi for bi, t in b.calls() if bi in b.normal_blocks() and any(c in cap_checkers for c in core.call_names(t))]
        if checks or _loops(b) or b.argc < 2:
            continue
        callers = [(cb, [bi for bi, t in cb.calls() if bi in cb.normal_blocks() and pth in core.call_names(t)]) for cp, cb in sorted(F.bodies.items()) if cp != pth]
        callers = [(cb, cs) for cb, cs in callers if cs]
        if callers and all(cb.path.startswith('table::ValueTable::') and '{closure' not in cb.path for cb, _ in callers):
            work.remove((pth, b, reads))
            work.extend((cb.path, cb, cs) for cb, cs in callers)
    for pth, b, reads in work:
        n += 1
        checks = [bi for bi, t in b.calls() if bi in b.normal_blocks() and any(c in cap_checkers for c in core.call_names(t))]
        loops = _loops(b)
        for r in reads:
            heads = [h for h, body_, lat in loops if r in body_]
            start = heads[:1] or [0]
            w = b.find_path(start, {r}, removed=set(checks), sensitive=False)
            ctx.ob(p + 'a link-checked-against-the-file-before-it-is-followed %s' % pth, 'K7-bound', pth,
                   'a slot number taken from the free-list head or from a tombstone link is compared with the capacity of the file (not only with the fill mark, which is a header value too) before the table file is read there',
                   bool(checks) and w is None, 'no capacity check' if not checks else 'read reachable without the check: ' + lib.short_path(b, w), b.loc(r))
            for h, body_, lat in loops:
                if r not in body_:
                    continue
                # a step bound: an error exit inside the loop decided by a count of the steps (Vec::len / a counter) against filled / written
                bounded = False
                for bi in sorted(body_):
                    t = b.term(bi)
                    if t['k'] != 'switch' or op_place(t['a']) is None:
                        continue
                    sl = backward_slice(b, [op_place(t['a'])], through_calls=True)
                    counts = any(re.search(r'Vec::<.*>::len$|VecDeque.*::len$', c) for c in sl.calls) or any(
                        d[2] == 'assign' and d[3]['r']['k'] == 'bin' and d[3]['r']['op'].startswith('Add') and d[0] in body_ and any(a.get('i') == 1 for a in d[3]['r']['a'])
                        for l in sl.locals for d in b.defs().get(l, []))
                    limit = '.ValueTable.filled' in sl.fields or '.ValueTable.written' in sl.fields or any(1 <= l <= b.argc for l in sl.params)
                    leaves = any(x in core.error_exit_blocks(b) or any(e in b.reachable_from([x], removed=body_ - {x}) for e in core.error_exit_blocks(b)) for x in t['ts'] if x not in body_ or True)
                    if counts and limit and leaves and '.TableFile.capacity' not in sl.fields:
                        bounded = True
                ctx.ob(p + 'b free-list-walk-terminates %s' % pth, 'K7-bound', pth,
                       'a loop that follows free-list links counts its steps and gives up with an error when the count reaches the size of the table (links read from a file can form a cycle)',
                       bounded, 'no step bound in the loop at %s' % b.loc(h), b.loc(h))
    ctx.ob(p + '0 free-list-followers', 'anchor', 'table::ValueTable', 'the functions that follow free-list links read from the table file were found (table initialisation, slot reuse, the free-list check)', n >= 3 and len(cap_checkers) >= 1,
           'followers %d, capacity checks %s' % (n, sorted(cap_checkers)))
    va = ctx.body('table::ValueTable::validate_plan')
    if va:
        ok = False
        # (in the validator itself or in a helper of table.rs it calls; that the helper's error is propagated is the error discipline)
        for vb in [b for b in lib.family(F, va.path) if b.path.startswith('table::') and '{closure' not in b.path]:
            for bi in sorted(vb.normal_blocks()):
                t = vb.term(bi)
                if t['k'] == 'switch' and op_place(t['a']) is not None:
                    sl = backward_slice(vb, [op_place(t['a'])])
                    if any(re.search(r'Header::last_removed$', c) for c in sl.calls) and any(re.search(r'Header::filled$', c) for c in sl.calls) and ({'Ge', 'Lt', 'Gt', 'Le'} & set(sl.binops)):
                        if any(e in vb.reachable_from([x], removed={bi}) for x in t['ts'] for e in core.error_exit_blocks(vb)):
                            ok = True
        ctx.ob(p + 'c header-free-slot-below-fill-mark', 'K3-guard', va.path, 'the validator compares the free-list head of a table header with its fill mark and refuses a head that is not below it', ok, '')


def _loops(b):
    from props import shared
    return shared._natural_loops(b)
