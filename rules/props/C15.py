"""C15 - the pipeline always drains: commits return, shutdown terminates.
Liveness over schedules is not decidable statically; decided are necessary conditions whose loss is
exactly how a hang is introduced: every producer wakes its consumer, the wake-up predicate is the
complement of the wait predicate, worker results are observed, shutdown wakes everyone."""
import re
import core, lib, lockorder
from props import shared
from core import call_matches, call_names, op_place, op_local, backward_slice

LEVEL = 'other'
FLOOR = 40
EXPLANATION = ('Wake-up pairing as must-pass obligations on the success paths of every producing function; the throttling predicates of waiter and '
               'waker are complementary comparisons against the same constant; the WaitCondvar flag is only touched under its mutex and waited for '
               'in a loop; every worker result reaches store_err; store_err and shutdown wake every waiter.')
EXPLANATION += " Added: every waker of the log-queue throttle notifies under its mutex and the waiter reads the flag under it; throttle loops re-check shutdown / the error slot; committers are woken under the queue mutex; the deferral scan cannot make two waiting commits wait for each other; known finding F21 (the log worker blocks on a client's tree lock)."
ASSUMPTIONS = ['termination of worker loops, fairness and throttling bounds are not decided', 'a client holding a tree read lock while blocked in a throttled commit is outside static reach (note N4)',
               'lock-order graph: lock classes are struct fields (all instances of a field are one class); bodies taking `&mut self` of the owning struct are excluded (exclusive access); LogQuery dispatch is resolved per call-site instantiation, other generic trait calls by all crate impls', 'unwind edges ignored']
TRUSTED = ['rustc MIR construction (nightly)', 'pdb-facts driver', 'rule engine /verif/rules', 'waiter/notifier table in props/C15.py']

SIGNAL = ['db::WaitCondvar::<bool>::signal']
WAIT = ['db::WaitCondvar::<bool>::wait']
NOTIFY = ['parking_lot::Condvar::notify_one', 'parking_lot::Condvar::notify_all']
CV_WAIT = ['parking_lot::Condvar::wait', 're:Condvar::wait(_for|_until|_while)?$']


def sites_on(b, pats, field, lift=True):
    """call sites of `b` that apply a call matching pats to `field` - directly, or by calling a crate helper every success path
    of which does so (one level: `self.notify_log_queue_waiter()`)"""
    direct = [bi for bi, t in b.calls() if bi in b.normal_blocks() and call_matches(t, pats) and field in lib.receiver_fields(b, t, 0)]
    if not lift:
        return direct
    F = b.facts
    res = list(direct)
    for bi, t in b.calls():
        if bi not in b.normal_blocks() or bi in direct:
            continue
        for n in call_names(t):
            h = F.body(n)
            if h is None or h.path == b.path:
                continue
            hs = sites_on(h, pats, field, lift=False)
            if hs and lib.ok_return_unreachable_avoiding(h, hs, None, frozenset(), cut_errors=False) is None:
                res.append(bi)
                break
    return res


def run(ctx):
    shared.no_mutual_deferral(ctx, '9')
    shared.tree_lock_decision(ctx, '10')   # a worker that blocks on a client's tree lock, taken after its check, stops the pipeline        # ... and shutdown terminates: no pair of commits that defer each other forever
    shared.client_callbacks_run_without_column_locks(ctx, '11')     # F81: a callback that reads the column it iterates
    shared.more_work_signal(ctx, '8')      # every accepted commit is written to the log: the log worker keeps going while a commit is (re)queued
    F = ctx.F
    # ---------------------------------------------------------------- 1. wake-up pairing
    cr = ctx.body('db::DbInner::commit_raw')
    if cr:
        sg = sites_on(cr, SIGNAL, '.DbInner.log_worker_wait')
        lib.must_pass(ctx, '1a commit_raw-wakes-log-worker', cr, sg, 'every successful commit signals log_worker_wait (else the commit sits in the queue until someone else commits)')
        push = [bi for b2, bi in lib.calls_on_field(F, ['std::collections::VecDeque::<T, A>::push_back'], '.CommitQueue.commits', bodies=[cr])]
        lib.precedes(ctx, '1b signal-after-push', cr, push, sg, 'the signal follows the queue push (a signal before the push can be consumed with nothing to do)')
    pc = ctx.body('db::DbInner::process_commits')
    if pc:
        er = pc.call_sites('log::Log::end_record')
        sg = sites_on(pc, SIGNAL, '.DbInner.flush_worker_wait')
        lib.must_pass(ctx, '1c process_commits-wakes-flush-worker', pc, sg, 'after a record was logged, every success path signals flush_worker_wait', sources=er)
    pr = ctx.body('db::DbInner::process_reindex')
    if pr:
        lib.paired_after(ctx, '1e reindex-record-wakes-flush-worker', F, pr.path, ['log::Log::end_record'], SIGNAL, '.DbInner.flush_worker_wait',
                         'after a reindex record was logged, every success path signals flush_worker_wait')
    fl = ctx.body('db::DbInner::flush_logs')
    if fl:
        fo = fl.call_sites('log::Log::flush_one')
        sg = sites_on(fl, SIGNAL, '.DbInner.commit_worker_wait')
        ctx.ob('1f flush_logs-anchors', 'anchor', fl.path, 'flush_logs calls flush_one once and signals commit_worker_wait once', len(fo) == 1 and len(sg) == 1, '%s %s' % (fo, sg))
        if fo and sg:
            lib.result_guards(ctx, '1g wake-commit-worker-if-flushed', fl, fo, sg[0], 'the commit worker is signalled depending on the result of flush_one')
            # on the "flushed" outcome the signal cannot be bypassed: the only guard between flush_one's Ok and the signal is its bool result
            preds = [s for (s, y, n) in fl.control_deps(sg[0])]
            bad = []
            for s in preds:
                t = fl.term(s)
                p = op_place(t['a']) if t['k'] == 'switch' else None
                sl = backward_slice(fl, [p]) if p else None
                if sl is None or not any(bi in fo for bi, _ in sl.call_sites):
                    bad.append(fl.loc(s))
            ctx.ob('1h no-extra-condition-on-wake', 'K3-guard', fl.path, 'the signal depends on nothing but the outcome of flush_one', not bad, 'additional guards at %s' % bad)
    cw = ctx.body('db::Db::commit_worker')
    if cw:
        # (the idle branch of the worker may live in a helper: the rules are applied in whichever body of the worker's family has
        # the direct wait / signal, and at the worker's call of that helper)
        fam = [b for b in lib.family(F, cw.path) if '{closure' not in b.path]
        hosts = [(b, sites_on(b, WAIT, '.DbInner.commit_worker_wait', lift=False)) for b in fam]
        hosts = [(b, w) for b, w in hosts if w]
        if not hosts:
            lib.precedes(ctx, '1i idle-commit-worker-wakes-cleanup', cw, sites_on(cw, SIGNAL, '.DbInner.cleanup_worker_wait'), [], 'before the commit worker goes to sleep it signals the cleanup worker (enacted logs are waiting to be cleaned)')
        for hb, wt in hosts:
            sg = sites_on(hb, SIGNAL, '.DbInner.cleanup_worker_wait')
            if not sg and hb is not cw:
                wt = [bi for bi, t in cw.calls() if bi in cw.normal_blocks() and hb.path in call_names(t)]
                hb, sg = cw, sites_on(cw, SIGNAL, '.DbInner.cleanup_worker_wait')
            lib.precedes(ctx, '1i idle-commit-worker-wakes-cleanup', hb, sg, wt, 'before the commit worker goes to sleep it signals the cleanup worker (enacted logs are waiting to be cleaned)')
        # ... and it does so after EVERY finished log file, not only when it is about to sleep: enact_logs throttles itself on the
        # number of enacted-but-uncleaned logs (cleanup_queue_wait), only the cleanup worker lowers that number and only this
        # signal wakes the cleanup worker. If the signal also depends on the hand-over queue being empty, a commit worker that
        # stays behind the flush worker for MAX_LOG_FILES + 1 files never wakes the cleaner and then waits for it for ever.
        sigs = [(b, x) for b in fam for x in sites_on(b, SIGNAL, '.DbInner.cleanup_worker_wait', lift=False)]
        sigs += [(cw, bi) for b, _ in list(sigs) if b is not cw for bi, t in cw.calls() if bi in cw.normal_blocks() and b.path in call_names(t)]
        for sb, s_ in sigs:
            extra = []
            for (sw, yes, no) in sb.control_deps(s_):
                t = sb.term(sw)
                pl = op_place(t['a']) if t['k'] == 'switch' else None
                if pl is None:
                    continue
                sl = backward_slice(sb, [pl])
                reads_queue = [c for c in sl.calls if c in F.bodies and '.Log.read_queue' in set().union(*[lib.receiver_fields(F.body(c), t2, 0) for _, t2 in F.body(c).all_calls() if t2['a']] or [set()])]
                if reads_queue or '.Log.read_queue' in sl.fields:
                    extra.append('%s at %s' % ((reads_queue or ['Log.read_queue'])[0], sb.loc(sw)))
            ctx.ob('1i2 cleanup-woken-after-every-finished-file', 'K3-guard', sb.path,
                   'whether the cleanup worker is signalled does not depend on the hand-over queue (it is signalled after every finished log file, also while more files are waiting to be enacted)',
                   not extra, 'the signal is also guarded by %s' % extra, sb.loc(s_))
        # enact_logs reports "no more work" at the end of every log FILE, while the wake-up flag is a single boolean:
        # several rotations can coalesce into one signal, so the worker must look at the hand-over queue before it sleeps
        for hb, wt in hosts:
            for w2 in wt:
                calls, fields, binops = lib.guard_influences(hb, w2)
                ok = any(c in F.bodies and '.Log.read_queue' in set().union(*[lib.receiver_fields(F.body(c), t2, 0) for _, t2 in F.body(c).all_calls() if t2['a']] or [set()]) for c in calls)
                ctx.ob('1u commit-worker-sleeps-only-if-no-file-queued', 'K3-guard', hb.path,
                       'the commit worker waits for a signal only depending on a look at Log.read_queue (signals coalesce: one flag, possibly several rotated files)', ok,
                       'the wait does not depend on the state of the hand-over queue', hb.loc(w2))
    cl = ctx.body('db::DbInner::clean_logs')
    if cl:
        sg = sites_on(cl, SIGNAL, '.DbInner.cleanup_queue_wait')
        lib.must_pass(ctx, '1j clean_logs-wakes-throttled-applier', cl, sg, 'every successful clean_logs signals cleanup_queue_wait (enact_logs may be waiting for the dirty-log count to drop)')
    el = ctx.body('db::DbInner::enact_logs')
    if el:
        wt = sites_on(el, WAIT, '.DbInner.cleanup_queue_wait')
        ctx.ob('1k enact_logs-waits-for-cleanup', 'anchor', el.path, 'enact_logs has the cleanup_queue_wait site this pairing is about', len(wt) == 1, str(wt))
        for w in wt:
            ok = w in el.reaches(w)
            ctx.ob('1l cleanup-wait-in-loop', 'K3-loop-exit', el.path, 'the wait for log cleanup re-checks its condition in a loop', ok, '')
            lib.cond_guarded(ctx, '1m cleanup-wait-condition', el, w, 'the wait depends on the number of dirty logs', calls=['log::Log::num_dirty_logs'])
            # only the cleanup worker ends this wait; once shutdown has begun it exits (and kill_logs runs enact_logs after all workers
            # were joined): the loop must look at the shutdown flag on every trip
            shl = [bi for bi, t in el.calls() if call_matches(t, lib.ATOMIC_LOAD) and '.DbInner.shutdown' in lib.receiver_fields(el, t, 0)]
            cyc = el.find_path(list(el.succ(w)), {w}, removed=set(shl)) if w in el.reaches(w) else None
            first = el.find_path([0], {w}, removed=set(shl))
            ctx.ob('1m2 cleanup-wait-gives-up-on-shutdown', 'K3-loop-exit', el.path,
                   'the wait for log cleanup is entered and re-entered only after reading the shutdown flag (nobody cleans logs for a stage that runs during or after shutdown)',
                   bool(shl) and cyc is None and first is None, 'no read of DbInner.shutdown in enact_logs' if not shl else 'the wait can be (re)entered without looking at shutdown', el.loc(w))
    sh = ctx.body('db::DbInner::shutdown')
    if sh:
        st = [bi for bi, t in sh.calls() if call_matches(t, lib.ATOMIC_STORE) and '.DbInner.shutdown' in lib.receiver_fields(sh, t, 0)]
        ctx.ob('1n shutdown-sets-flag', 'anchor', sh.path, 'shutdown stores the flag', len(st) == 1, '')
        # every wake-up flag of DbInner that some stage or worker waits on (discovered from the struct, not listed by hand)
        wflds = ['.DbInner.' + f['name'] for f in F.adts.get('db::DbInner', {'variants': [{'fields': []}]})['variants'][0]['fields']
                 if 'WaitCondvar<bool>' in str(f.get('ty', ''))]
        waited = [fld for fld in wflds if any(sites_on(b2, WAIT, fld) for b2 in F.bodies.values())]
        ctx.ob('1o0 wake-up-flags', 'anchor', sh.path, 'the wake-up flags of DbInner that are waited on were found (four workers + the cleanup throttle)', len(waited) >= 5, str(waited))
        for fld in waited:
            sg = sites_on(sh, SIGNAL, fld)
            lib.must_pass(ctx, '1o shutdown-wakes %s' % fld, sh, sg, 'shutdown signals %s' % fld, cut_errors=False)
            lib.precedes(ctx, '1p flag-before-wake %s' % fld, sh, st, sg, 'the shutdown flag is set before the worker is woken (else it re-sleeps)')
        nq = sites_on(sh, NOTIFY, '.DbInner.log_queue_wait')
        lib.must_pass(ctx, '1q shutdown-wakes-log-queue-waiter', sh, nq, 'shutdown notifies the log-queue throttle', cut_errors=False)
    se = ctx.body('db::DbInner::store_err')
    if se:
        na = sites_on(se, ['parking_lot::Condvar::notify_all'], '.DbInner.commit_queue_full_cv')
        sd = se.call_sites('db::DbInner::shutdown')
        errarm = None
        # the Err arm: switch on discriminant of the parameter
        for bi in se.normal_blocks():
            t = se.term(bi)
            if t['k'] == 'switch':
                d = lib.switch_def(se, bi)
                if d and d[2] == 'assign' and d[3]['r']['k'] == 'discr' and d[3]['r']['p'] == [2]:
                    for v, tg in zip(t['vals'], t['ts']):
                        if v == 1:
                            errarm = tg
                    if errarm is None and t['vals'] == [0]:
                        errarm = t['ts'][-1]
        ctx.ob('1r store_err-anchors', 'anchor', se.path, 'store_err matches on its Result parameter', errarm is not None and len(na) == 1 and len(sd) == 1, 'err arm %s notify %s shutdown %s' % (errarm, na, sd))
        if errarm is not None:
            w = se.find_path([errarm], se.return_blocks(), removed=set(na))
            ctx.ob('1s error-wakes-throttled-committers', 'K1-must-pass', se.path, 'on every path of the Err arm the throttled committers are notified (they would otherwise wait for a queue that is no longer drained)',
                   w is None and bool(na), '' if w is None else lib.short_path(se, w))
            if sd:
                lib.cond_guarded(ctx, '1t first-error-shuts-down', se, sd[0], 'shutdown is requested depending only on the bg_err slot being empty', fields=['.DbInner.bg_err'])
    # ---------------------------------------------------------------- 2. predicate complement
    def throttle(waiter_fn, wait_pats, wait_field, waker_fn, wake_pats, wake_field, value_field, label):
        wb, kb = ctx.body(waiter_fn), ctx.body(waker_fn)
        if not wb or not kb:
            return
        # (the wait with its test, or the wake with its test, may have been moved into a private helper of the function)
        def pick(b0, pats, fld):
            for b1 in [b0] + [x for x in lib.family(F, b0.path) if x is not b0]:
                if sites_on(b1, pats, fld):
                    return b1
            return b0
        wb, kb = pick(wb, wait_pats, wait_field), pick(kb, wake_pats, wake_field)
        ws = sites_on(wb, wait_pats, wait_field)
        ks = sites_on(kb, wake_pats, wake_field)
        ctx.ob('2a throttle-anchors %s' % label, 'anchor', waiter_fn, 'one wait site and one wake site', len(ws) == 1 and len(ks) == 1, 'wait %s wake %s' % (ws, ks))
        if len(ws) != 1 or len(ks) != 1:
            return
        def relevant(b, preds):
            return [p for p in preds if p['const'] is not None and p['const'] > 1000]
        wp = relevant(wb, lib.guard_predicates(wb, ws[0]))
        kp = relevant(kb, lib.guard_predicates(kb, ks[0]))
        ctx.ob('2b wait-predicate %s' % label, 'anchor', waiter_fn, 'the wait is guarded by exactly one comparison with the limit constant', len(wp) == 1, str([(p['rel'], p['const']) for p in wp]))
        if len(wp) != 1:
            return
        w = wp[0]
        comp = lib._NEG[w['rel']]
        # among the waker's guards: one on the value AFTER the change (no arithmetic in its slice) must be the exact complement
        post = [p for p in kp if p['const'] == w['const'] and not (p['binops'] - {'Not'})]
        ok = any(p['rel'] == comp for p in post)
        ctx.ob('2c wake-is-complement-of-wait %s' % label, 'K9-predicate-complement', waker_fn,
               'the waiter sleeps while value %s %d; the waker must notify whenever the new value satisfies the complement (value %s %d)' % (w['rel'], w['const'], comp, w['const']),
               ok, 'waker guards on the new value: %s' % [(p['rel'], p['const']) for p in post] if not ok else '', kb.loc(ks[0]))
        # and the crossing test on the old value uses the wait predicate itself
        pre = [p for p in kp if p['const'] == w['const'] and (p['binops'] & {'Add', 'AddWithOverflow', 'Sub', 'SubWithOverflow'})]
        okp = any(p['rel'] == w['rel'] for p in pre) or not pre
        ctx.ob('2d crossing-test %s' % label, 'K9-predicate-complement', waker_fn, 'if the waker also tests the old value (to notify only when crossing the limit) it uses the wait predicate (old value %s %d)' % (w['rel'], w['const']),
               okp, str([(p['rel'], p['const']) for p in pre]))
    throttle('db::DbInner::commit_raw', CV_WAIT, '.DbInner.commit_queue_full_cv', 'db::DbInner::process_commits', ['parking_lot::Condvar::notify_all', 'parking_lot::Condvar::notify_one'],
             '.DbInner.commit_queue_full_cv', '.CommitQueue.bytes', 'commit-queue')
    throttle('db::DbInner::process_commits', CV_WAIT, '.DbInner.log_queue_wait', 'db::DbInner::enact_logs', NOTIFY, '.DbInner.log_queue_wait', None, 'log-queue')
    # shutdown() wakes the throttled log worker once; if the throttle wait is (re)entered in a loop, every trip around the loop
    # must look at the shutdown flag again, else the worker goes back to sleep on a backlog nobody will reduce and drop never returns
    pcb = ctx.body('db::DbInner::process_commits')
    if pcb:
        for w in sites_on(pcb, CV_WAIT, '.DbInner.log_queue_wait'):
            sh_loads = [bi for bi, t in pcb.calls() if call_matches(t, lib.ATOMIC_LOAD) and '.DbInner.shutdown' in lib.receiver_fields(pcb, t, 0)]
            cyc = pcb.find_path(list(pcb.succ(w)), {w}, removed=set(sh_loads)) if w in pcb.reaches(w) else None
            ctx.ob('2e throttle-wait-rechecks-shutdown', 'K3-loop-exit', pcb.path,
                   'the log-queue throttle never waits again without re-reading the shutdown flag (shutdown notifies it only once)', cyc is None and bool(sh_loads),
                   '' if cyc is None else 'the wait can be re-entered without looking at shutdown: ' + lib.short_path(pcb, cyc), pcb.loc(w))
    # same for throttled committers: store_err wakes them once; a committer that waits again must have looked at the error slot
    crb = ctx.body('db::DbInner::commit_raw')
    if crb:
        for w in sites_on(crb, CV_WAIT, '.DbInner.commit_queue_full_cv'):
            be = [bi for bi, t in crb.calls() if bi in crb.normal_blocks() and t['a'] and '.DbInner.bg_err' in lib.receiver_fields(crb, t, 0)]
            cyc = crb.find_path(list(crb.succ(w)), {w}, removed=set(be)) if w in crb.reaches(w) else None
            ctx.ob('2e throttle-wait-rechecks-background-error', 'K3-loop-exit', crb.path,
                   'the commit-queue throttle never waits again without looking at the background-error slot (store_err notifies the parked committers only once; with a dead log worker the queue never drains)',
                   cyc is None and bool(be), '' if cyc is None else 'the wait can be re-entered without looking at bg_err: ' + lib.short_path(crb, cyc), crb.loc(w))
    if crb:
        # ... and a committer does not park at all once the error slot is set (the workers are gone: nobody drains the queue,
        # nobody notifies again): the slot is looked at on every path to the wait, with the queue mutex held; and store_err
        # notifies with that mutex held, so the look-then-wait of a committer cannot straddle the notification
        for w in sites_on(crb, CV_WAIT, '.DbInner.commit_queue_full_cv'):
            be = [bi for bi, t in crb.calls() if bi in crb.normal_blocks() and t['a'] and '.DbInner.bg_err' in lib.receiver_fields(crb, t, 0)]
            lib.precedes(ctx, '2g error-slot-checked-before-parking', crb, be, [w],
                         'a committer looks at the background-error slot before it waits on the full commit queue (a commit arriving after a worker died would otherwise park forever)')
            for x in [y for y in be if w in crb.reaches(y)][:1]:
                lib.held_at(ctx, '2g2 error-slot-checked-under-queue-mutex', crb, x, '.DbInner.commit_queue', 'the look at the error slot and the wait form one critical section of the commit-queue mutex')
    seb = ctx.body('db::DbInner::store_err')
    if seb:
        for x in sites_on(seb, ['parking_lot::Condvar::notify_all', 'parking_lot::Condvar::notify_one'], '.DbInner.commit_queue_full_cv'):
            lib.held_at(ctx, '2h committers-woken-under-queue-mutex', seb, x, '.DbInner.commit_queue',
                        'store_err notifies the throttled committers with the commit-queue mutex held (a committer between its look at the error slot and its wait cannot miss the wake-up)')
    if pcb:
        sd = ctx.body('db::DbInner::shutdown')
        if sd:
            nt = sites_on(sd, NOTIFY + ['parking_lot::Condvar::notify_all'], '.DbInner.log_queue_wait')
            st = [bi for bi, t in sd.calls() if call_matches(t, lib.ATOMIC_STORE) and '.DbInner.shutdown' in lib.receiver_fields(sd, t, 0)]
            lib.precedes(ctx, '2f shutdown-flag-set-before-throttle-wake', sd, st, nt, 'shutdown stores the flag before it wakes the throttled log worker')
    # the log-queue throttle has no flag of its own: the waiter reads `shutdown` (and the byte count) and parks inside one critical
    # section of log_queue_wait.work, so every waker has to notify with that mutex held, else the notification can fall between
    # the waiter's test and its wait and is lost (F38: shutdown notified without the mutex; drop then joined the log worker forever)
    nsites = [(b, x) for b in F.bodies.values() for x in sites_on(b, NOTIFY + ['parking_lot::Condvar::notify_all'], '.DbInner.log_queue_wait', lift=False)]
    ctx.ob('2i0 log-queue-wakers', 'anchor', 'db::DbInner', 'the wakers of the log-queue throttle were found (enact_logs, shutdown)', len(nsites) >= 2, str([(b.path, x) for b, x in nsites]))
    for b, x in nsites:
        lib.held_at(ctx, '2i log-queue-waiter-woken-under-its-mutex %s' % b.path, b, x, '.DbInner.log_queue_wait',
                    'the log-queue throttle is notified with log_queue_wait.work held (the log worker between its look at the shutdown flag / byte count and its wait cannot miss the wake-up)')
    if pcb:
        for w in sites_on(pcb, CV_WAIT, '.DbInner.log_queue_wait'):
            sh_loads = [bi for bi, t in pcb.calls() if call_matches(t, lib.ATOMIC_LOAD) and '.DbInner.shutdown' in lib.receiver_fields(pcb, t, 0) and w in pcb.reaches(bi)]
            for x in sh_loads[:1]:
                lib.held_at(ctx, '2i2 shutdown-flag-read-under-log-queue-mutex', pcb, x, '.DbInner.log_queue_wait',
                            'the log worker reads the shutdown flag and waits in one critical section of log_queue_wait.work')
    # ---------------------------------------------------------------- 3. flag protocol
    sgb = ctx.body('db::WaitCondvar::<bool>::signal')
    if sgb:
        n1 = sgb.call_sites(*NOTIFY)
        for s in n1:
            lib.held_at(ctx, '3a signal-notifies-under-mutex', sgb, s, '.WaitCondvar.work', 'notify_one is issued with the flag mutex held (no lost wake-up between flag check and wait)')
        st = [bi for bi in sgb.normal_blocks() for s in sgb.blocks[bi]['s'] if s['k'] == 'assign' and s['r']['k'] == 'use' and s['r']['a'][0].get('i') == 1 and s['r']['a'][0].get('ty') == 'bool' and '*' in s['p'][1:]]
        ctx.ob('3b signal-sets-flag', 'K1-must-pass', sgb.path, 'signal sets the work flag to true through the guard', len(st) >= 1 and bool(n1), '')
        lib.precedes(ctx, '3c flag-before-notify', sgb, st, n1, 'the flag is set before notify_one')
    wtb = ctx.body('db::WaitCondvar::<bool>::wait')
    if wtb:
        ws = wtb.call_sites(*CV_WAIT)
        for s in ws:
            lib.held_at(ctx, '3d wait-under-mutex', wtb, s, '.WaitCondvar.work', 'Condvar::wait is called with the flag mutex held')
            ctx.ob('3e wait-in-loop', 'K3-loop-exit', wtb.path, 'the condvar wait sits in a loop that re-checks the flag (spurious wake-ups, coalesced signals)', s in wtb.reaches(s), '')
        clr = [bi for bi in wtb.normal_blocks() for s in wtb.blocks[bi]['s'] if s['k'] == 'assign' and s['r']['k'] == 'use' and s['r']['a'][0].get('i') == 0 and s['r']['a'][0].get('ty') == 'bool' and '*' in s['p'][1:]]
        lib.must_pass(ctx, '3f wait-consumes-flag', wtb, clr, 'wait clears the flag before returning', cut_errors=False)
    # ---------------------------------------------------------------- 4. worker results observed
    oi = ctx.body('db::Db::open_inner')
    if oi:
        # spawn sites in open_inner, its closures (`cond.then(|| thread::spawn(..))`) and helpers extracted from it
        sp = lib.fam_sites(F, oi.path, ['re:^std::thread::spawn', 're:thread::Builder.*::spawn'])
        workers = {'db::Db::commit_worker', 'db::Db::flush_worker', 'db::Db::log_worker', 'db::Db::cleanup_worker'}
        seen = set()
        for i, (sb, s) in enumerate(sp):
            cls = lib.closure_operands(sb, sb.term(s))
            ok = False
            det = 'no closure'
            for c in cls:
                cb = F.body(c)
                se_sites = cb.call_sites('db::DbInner::store_err')
                wk = [bi for bi, t in cb.calls() if any(n in workers for n in call_names(t))]
                if se_sites and wk:
                    sl = backward_slice(cb, [op_place(a) for a in cb.term(se_sites[0])['a'][1:] if op_place(a)])
                    ok = any(bi in wk for bi, _ in sl.call_sites) and lib.ok_return_unreachable_avoiding(cb, se_sites, cut_errors=False) is None
                    seen |= set(n for bi in wk for n in call_names(cb.term(bi)) if n in workers)
                    det = ''
                else:
                    det = 'store_err sites %s worker calls %s' % (se_sites, wk)
            ctx.ob('4a worker-result-stored #%d' % i, 'K6a-result-observed', oi.path, 'the spawned closure passes the worker result to store_err on every path (a worker that dies silently leaves committers throttled forever)', ok, det, oi.loc(s))
        ctx.ob('4b four-workers', 'anchor', oi.path, 'a thread is spawned for each of the four worker functions', len(sp) >= 1 and seen == workers, 'spawns %d workers %s' % (len(sp), sorted(seen)))

    # ---------------------------------------------------------------- 5. lock-order graph
    edges, modes, comps, bad, bad_self = lockorder.analyse(F)
    ctx.info['C15.lock_order_edges'] = sorted('%s -> %s (%d sites)' % (a, b, len(w)) for (a, b), w in edges.items())
    ctx.info['C15.lock_modes'] = {k: sorted(v) for k, v in modes.items()}
    ctx.info['C15.lock_sccs_discharged_by_mode'] = [sorted(c) for c in comps]
    ctx.info['C15.lock_order_excluded_exclusive_bodies'] = getattr(F, '_lockorder_excluded', [])
    need = [('DbInner.commit_queue', 'DbInner.commit_overlay'), ('DbInner.commit_overlay', 'HashColumn.tables'), ('HashColumn.tables', 'HashColumn.reindex'),
            ('HashColumn.tables', 'Log.overlays'), ('Log.appending', 'Log.overlays'), ('Log.reading', 'HashColumn.tables'), ('DbInner.commit_overlay', 'Log.overlays')]
    missing = [e for e in need if e not in edges]
    ctx.ob('5a lock-graph-built', 'anchor', '-', 'the lock-order graph was derived (>= 60 edges, the hand-confirmed backbone edges are present)', len(edges) >= 60 and not missing, '%d edges, missing %s' % (len(edges), missing))
    for comp, sub in bad:
        ctx.ob('5b cycle %s' % '<->'.join(sorted(comp)), 'K5-lock-order', '-', 'the lock-order graph has no cycle all of whose acquisitions can block', False,
               'potential deadlock: ' + '; '.join('%s -> %s at %s' % (a, b, w[0]) for (a, b), w in sorted(sub.items())))
    ctx.ob('5b no-blocking-cycle', 'K5-lock-order', '-', 'every cycle of the lock-order graph contains an acquisition that cannot block (read mode on a lock that is never write-acquired)', not bad,
           '%d strongly connected component(s), all discharged by mode' % len(comps) if not bad else '%d blocking cycle(s)' % len(bad))
    for a, w in bad_self:
        ctx.ob('5c recursive %s' % a, 'K5-lock-order', '-', 'no lock class is re-acquired (in a blocking mode) while one of its guards is live', False, '; '.join(w))
    ctx.ob('5c no-recursive-acquisition', 'K5-lock-order', '-', 'no lock class is re-acquired in a blocking mode while one of its guards is live', not bad_self, '')
