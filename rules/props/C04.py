"""C04 - btree columns are an ordered map with correct bidirectional iteration.
Ordering / rebalancing / iteration results are value-level algorithms and are NOT decided.
Decided: two structural clauses that are necessary for them."""
import re
import core, lib
from core import call_matches, call_names, op_place, op_local, backward_slice
from props import shared

WITNESSES = ['IteratorBorrowsHandle']      # compile-fail witnesses against the public surface (thorough tier; engine.WITNESSES)
LEVEL = 'proof'
FLOOR = 51      # 70% of the 74 obligation instances derived on the tree the rules were last reviewed against
EXPLANATION = ('(1) the change list of a btree transaction is ordered with the STABLE sort family and Operation\'s Ord compares keys only, so repeated keys '
               'keep the order given (the tree keeps the last of an equal-key run); (2) the iterator refreshes its tree and re-seeks whenever the column\'s '
               'last log record id differs from the one its state was built for, and every item fetched under an older record id is discarded before use; '
               '(3) point reads of the tree arm consult commit overlay, log overlay, file in that order (shared with C01).')
EXPLANATION += ' Added: in-place results of tree edits are inspected; parked overlay entries are discarded on every repositioning; sentinel positions are answered without the tree cursor; recursion audit (btree descent is bounded by the tree height); a fresh table writes its header slot last; point reads of a btree column ignore hash-only options; thorough tier: a BTreeIterator cannot outlive its Db (compile-fail witness).'
ASSUMPTIONS = ['DECLINED: key ordering on disk, depth uniformity, iteration results (value-level algorithms in btree/node.rs, btree/iter.rs)', 'unwind edges ignored']
TRUSTED = ['rustc MIR construction (nightly)', 'pdb-facts driver', 'rule engine /verif/rules', 'anchor tables in props/C04.py']


def reseek_agrees_with_position(ctx, DIRECT):
    """seed C04-reseek-excludes-sought-key. The iterator remembers where it stands as LastKey: At(k) - k was handed out -,
    Seeked(k) - the client asked for k, nothing was handed out yet -, Start, End. When the tree was re-opened the cursor is
    rebuilt from that state, and the kind of seek has to agree with it: after At(k) the key is excluded, after Seeked(k) the seek
    is the one `seek` itself made when it established the state (Include: otherwise k is skipped in both directions)."""
    F = ctx.F
    LK, ST = 'btree::iter::LastKey', 'btree::iter::SeekTo'
    if LK not in F.adts or ST not in F.adts:
        ctx.ob('2p0 position-state-anchor', 'anchor', 'btree::iter', 'the enums LastKey and SeekTo exist', False, '')
        return
    names = [v['name'] for v in F.adts[LK]['variants']]

    def seekto_of(b, bi, frm=None):
        """the SeekTo variant(s) handed to the call in block bi (None: the call takes no SeekTo); with `frm`: only what is built
        on the way from block frm to the call (`let target = match state { .. }; seek(target)`: one seek for all arms)"""
        t = b.term(bi)
        for a in t['a']:
            pl = op_place(a)
            if pl is None or 'SeekTo' not in str(b.locals[pl[0]]):
                continue
            sl = backward_slice(b, [pl])
            defs_ = [(db_, x) for l in sl.locals for (db_, _, kind, x) in b.defs().get(l, []) if kind == 'assign' and x['r']['k'] == 'agg' and str(x['r']['ak']).startswith('Adt:' + ST + '::')]
            if frm is not None:
                region = b.reachable_from([frm]) | {frm}
                on_way = [(db_, x) for db_, x in defs_ if db_ in region and (bi in b.reachable_from([db_]) or db_ == bi)]
                if on_way:
                    defs_ = on_way
            vs = set(x['r']['ak'].split('::')[-1] for _, x in defs_)
            if sl.params and not vs:
                vs = {'<parameter>'}
            return vs
        return None

    def is_seek(b, bi):
        t = b.term(bi)
        return t['k'] == 'call' and bi in b.normal_blocks() and any(re.search(r'^btree::iter::.*::seek\w*$', n) for n in call_names(t))
    bodies = [b for pth, b in sorted(F.bodies.items()) if pth.startswith('btree::iter::BTreeIterator') and '{closure' not in pth]
    # how a state is established together with a seek (LastKey::Seeked(k) with SeekTo::Include(k) in `seek`)
    est = {}
    for b in bodies:
        setv = set()
        for bi in b.normal_blocks():
            for st in b.blocks[bi]['s']:
                if st['k'] == 'assign' and st['p'] and isinstance(st['p'][-1], str) and st['p'][-1].endswith('.BTreeIterator.last_key') and st['r']['k'] == 'use' and op_local(st['r']['a'][0]) is not None:
                    for (_, _, kind, x) in b.defs().get(op_local(st['r']['a'][0]), []):
                        if kind == 'assign' and x['r']['k'] == 'agg' and str(x['r']['ak']).startswith('Adt:' + LK + '::'):
                            setv.add(x['r']['ak'].split('::')[-1])
        seeks = [seekto_of(b, bi) for bi in b.normal_blocks() if is_seek(b, bi)]
        seeks = [v for v in seeks if v and '<parameter>' not in v]
        if len(setv) == 1 and len(seeks) == 1:
            est.setdefault(next(iter(setv)), set()).update(seeks[0])
    n = 0
    for b in bodies:
        opens = [bi for bi in b.call_sites('btree::btree::BTree::open', 're:BTreeTable::with_locked$', *DIRECT) if bi in b.normal_blocks()]
        if not opens:
            continue
        after = b.reachable_from([x for o in opens for x in b.succ(o)])
        for sw in sorted(after):
            t = b.term(sw)
            d = lib.switch_def(b, sw) if t['k'] == 'switch' else None
            if not d or d[2] != 'assign' or d[3]['r']['k'] != 'discr' or LK not in str(b.locals[d[3]['r']['p'][0]]) or '.BTreeIterator.last_key' not in backward_slice(b, [d[3]['r']['p']]).fields:
                continue
            n += 1
            for v, tg in zip(t['vals'], t['ts']):
                if v >= len(names):
                    continue
                # the first seek(s) reached from this arm
                seen, stack, first = set(), [tg], []
                while stack:
                    x = stack.pop()
                    if x in seen or x not in b.normal_blocks():
                        continue
                    seen.add(x)
                    if is_seek(b, x):
                        first.append(x)
                        continue
                    stack.extend(b.succ(x))
                got = set()
                for x in first:
                    got |= (seekto_of(b, x, frm=tg) or set())
                want = {'Exclude'} if names[v] == 'At' else est.get(names[v])
                if not want or not got:
                    continue
                ctx.ob('2p reseek-agrees-with-position %s %s' % (lib.strip_closures(b.path), names[v]), 'K9-agreement', b.path,
                       'after a re-open the cursor is rebuilt with the seek that matches the remembered position: a key that was handed out (At) is excluded, a key that was only sought (Seeked) is sought again the way `seek` sought it',
                       got == want, 'position %s is re-sought with SeekTo::%s, the state means SeekTo::%s' % (names[v], '/'.join(sorted(got)), '/'.join(sorted(want))), b.loc(sw))
    ctx.ob('2p0 position-state-anchor', 'anchor', 'btree::iter', 'a match on the remembered position follows the re-open of the tree, and `seek` establishes Seeked together with its SeekTo',
           n >= 1 and 'Seeked' in est, 'matches %d, established %s' % (n, {k: sorted(v) for k, v in est.items()}))


def run(ctx):
    shared.counted_changes_are_all_applied(ctx, '9c')
    F = ctx.F
    wp = ctx.body('btree::commit_overlay::BTreeChangeSet::write_plan')
    if wp:
        sorts = [(bi, t) for bi, t in wp.calls() if re.search(r'::(sort|sort_by|sort_by_key|sort_by_cached_key|sort_unstable|sort_unstable_by|sort_unstable_by_key|select_nth_unstable.*)$', (t.get('r') or t.get('f') or ''))
                 and '.BTreeChangeSet.changes' in lib.receiver_fields(wp, t, 0)]
        ctx.ob('1a sort-anchor', 'anchor', wp.path, 'write_plan orders self.changes once', len(sorts) == 1, str([t.get('r') for _, t in sorts]))
        for bi, t in sorts:
            nm = t.get('r') or t.get('f')
            ctx.ob('1b stable-sort', 'K4-confinement', wp.path, 'the change list is ordered with a stable sort (operations on the same key keep the order given in the transaction)',
                   'unstable' not in nm and re.search(r'::sort(_by|_by_key|_by_cached_key)?$', nm) is not None, nm, wp.loc(bi))
        ws = wp.call_sites('btree::btree::BTree::write_sorted_changes')
        lib.precedes(ctx, '1c sorted-before-applied', wp, [bi for bi, _ in sorts], ws, 'the list is sorted before it is applied to the tree')
        # nothing else reorders/removes between sort and use
        muts = lib.field_mutators(F, '.BTreeChangeSet.changes', r'(::sort$|::push$|::iter$|::len$|::as_slice$|Deref|::is_empty$|IntoIterator|::clone$|Default>::default$|fmt|Try>?::branch$|FromResidual|BTree::write_sorted_changes$)', bodies=[wp])
        ctx.ob('1d no-other-reordering', 'K4-confinement', wp.path, 'write_plan touches the change list only through sort / as_slice / len', not muts, str(muts[:3]))
    oc = F.body('<db::Operation<Key, Value> as std::cmp::Ord>::cmp')
    if oc is None:
        ctx.ob('1e ord-anchor', 'anchor', '-', 'Operation implements Ord', False, '')
    else:
        names = set(n for bi, t in oc.calls() for n in call_names(t))
        reads_tag = any(s['k'] == 'assign' and s['r']['k'] == 'discr' for blk in oc.blocks for s in blk['s'])
        ok = 'db::Operation::<Key, Value>::key' in names and any(n.endswith('::cmp') for n in names) and not reads_tag and len(oc.call_sites('db::Operation::<Key, Value>::key')) == 2
        ctx.ob('1e ordering-by-key-only', 'K4-confinement', oc.path, 'Operation::cmp compares the two keys and nothing else (no variant tag, no value: Set and Dereference of one key must compare equal so that stable order decides)',
               ok, 'callees %s, reads discriminant: %s' % (sorted(names), reads_tag))
    pcm = F.body('<db::Operation<Key, Value> as std::cmp::PartialOrd>::partial_cmp')
    if pcm:
        ctx.ob('1f partial_cmp-delegates', 'K9-agreement', pcm.path, 'partial_cmp delegates to cmp (consistent orders)', len(pcm.call_sites('<db::Operation<Key, Value> as std::cmp::Ord>::cmp', 'std::cmp::Ord::cmp')) == 1, '')
    # 2. iterator re-seek
    # the functions of the iterator that can re-open the tree (found by what they do: `seek_backend_to_last` may be folded into
    # `seek_backend(SeekTo::Last, ..)`)
    # DIRECT: the bodies that hold the comparison and the re-open themselves (possibly one shared helper `reopen(record_id, ..)`);
    # REFRESHERS: the iterator's methods from which a re-open is reached, directly or through such a helper
    DIRECT = sorted(p_ for p_, b_ in F.bodies.items() if p_.startswith('btree::iter::') and '{closure' not in p_ and b_.call_sites('btree::btree::BTree::open', 're:BTreeTable::with_locked$')
                    and lib.sites_reaching(b_, ['btree::btree::BTree::open']) and any(n == 'record_id' and 1 <= l <= b_.argc for l, n in b_.names.items()))
    REFRESHERS = sorted(p_ for p_, b_ in F.bodies.items() if p_.startswith('btree::iter::BTreeIterator') and '{closure' not in p_
                        and (p_ in DIRECT or b_.call_sites(*DIRECT) if DIRECT else False) and any(n == 'record_id' and 1 <= l <= b_.argc for l, n in b_.names.items())
                        # (a helper that is handed the tree alone cannot move the cursor's id: its callers, which hold the cursor, do)
                        and any(re.search(r'BTreeIterator|BTreeIterState|BtreeIterBackend', str(b_.locals[l])) for l in range(1, b_.argc + 1)))
    ctx.ob('2a0 refresh-functions', 'anchor', 'btree::iter::BTreeIterator', 'the iterator has at least two functions that re-open the tree when the record id moved (stepping and seeking)', len(REFRESHERS) >= 2 and len(DIRECT) >= 1, '%s / %s' % (REFRESHERS, DIRECT))
    # the two record ids move together: the tree remembers the record it was opened for (BTree.record_id, compared above), the cursor
    # state remembers the record its position belongs to (BTreeIterState.record_id, compared by iter_inner to discard a parked
    # entry). Whoever re-opens the tree for a new record also moves the cursor's id - otherwise every later step takes the parked
    # tree entry for stale and drops it (seed C04-seek-to-last-keeps-stale-record-id)
    for fn in REFRESHERS:
        b = ctx.body(fn)
        if not b:
            continue
        stores = [bi for bi in b.normal_blocks() for st in b.blocks[bi]['s'] if st['k'] == 'assign' and any(isinstance(e, str) and e.endswith('.BTreeIterState.record_id') for e in st['p'][1:])]
        starts = []
        for s_ in b.call_sites('btree::btree::BTree::open', 're:BTreeTable::with_locked$'):
            if s_ in b.normal_blocks() and lib.sites_reaching(b, ['btree::btree::BTree::open']):
                starts.append(list(b.succ(s_)))
        for s_ in (b.call_sites(*[d_ for d_ in DIRECT if d_ != fn]) if DIRECT else []):
            edges = lib.bool_outcome_edges(b, [s_])
            if edges:
                starts += [[tr[1]] for (sb, tr, fa) in edges]      # the helper says whether it re-opened: only the true edge matters
            else:
                starts.append(list(b.succ(s_)))
        bad = None
        for st_ in starts:
            w = b.find_path(st_, b.return_blocks(), removed=set(stores) | core.error_exit_blocks(b))
            if w:
                bad = lib.short_path(b, w)
        ctx.ob('2r cursor-record-id-follows-the-reopened-tree %s' % fn, 'K1-must-pass', fn,
               'every success path on which the tree was re-opened for a new record id also stores that id in the cursor state (BTreeIterState.record_id)',
               bool(starts) and bad is None, 'no re-open site' if not starts else 'success path after a re-open without the store: %s' % bad)
    reseek_agrees_with_position(ctx, DIRECT)
    for fn in DIRECT:
        b = ctx.body(fn)
        if not b:
            continue
        opens = lib.sites_reaching(b, ['btree::btree::BTree::open'])
        rid = [l for l, n in b.names.items() if n == 'record_id' and 1 <= l <= b.argc]
        ctx.ob('2a refresh-anchor %s' % fn, 'anchor', fn, 'the function can re-open the tree', len(opens) == 1, str(opens))
        for s in opens:
            ok = False
            for (sw, yes, no) in b.control_deps(s):
                pol = lib.eq_polarity(b, sw)
                if pol:
                    eq_t, ne_t, ops = pol
                    sl = backward_slice(b, [op_place(o) for o in ops if op_place(o)])
                    if ne_t in yes and eq_t in no and '.BTree.record_id' in sl.fields and (set(rid) & sl.params):
                        ok = True
            ctx.ob('2b tree-refreshed-when-record-id-differs %s' % fn, 'K3-guard', fn, 'the cached tree is re-opened exactly on the not-equal edge of (record_id argument vs. tree.record_id)', ok, '')
        # on the not-equal edge, the refresh cannot be skipped
        for bi in b.normal_blocks():
            pol = lib.eq_polarity(b, bi)
            if pol:
                eq_t, ne_t, ops = pol
                sl = backward_slice(b, [op_place(o) for o in ops if op_place(o)])
                if '.BTree.record_id' in sl.fields and (set(rid) & sl.params):
                    w = b.find_path([ne_t], b.return_blocks(), removed=set(opens) | core.error_exit_blocks(b))
                    ctx.ob('2c stale-tree-never-used %s' % fn, 'K1-must-pass', fn, 'with a differing record id every success path re-opens the tree before answering', w is None, '' if w is None else lib.short_path(b, w))
        if fn.endswith('next_backend'):
            sk = b.call_sites('btree::iter::BTreeIterState::seek', 'btree::iter::BTreeIterState::seek_to_last')
            lib.must_pass(ctx, '2d reseek-after-refresh', b, sk, 'after re-opening the tree every success path re-establishes the position (seek / seek_to_last) before answering', sources=opens)
            fl = set()
            for s2 in sk:
                for a2 in b.term(s2)['a'][1:]:
                    if op_place(a2) is not None:
                        fl |= backward_slice(b, [op_place(a2)]).fields
                fl |= lib.guard_influences(b, s2)[1]
            ctx.ob('2d2 reseek-from-last_key', 'K4-provenance', fn, 'the position is re-established from the iterator\'s last_key', '.BTreeIterator.last_key' in fl, str(sorted(f for f in fl if 'BTreeIterator' in f)))
            for s in sk:
                lib.precedes(ctx, '2e reseek-on-new-tree', b, opens, [s], 'the re-seek happens on the re-opened tree')
    # the tree side honours the same sentinels as the overlay side (CommitOverlay::btree_prev(Start) / btree_next(End) answer None):
    # a backward step from the start position and a forward step from the end position yield nothing, whatever the tree cursor
    # would find (a re-seek to "first key >= []" lands ON an empty key; an unpositioned cursor starts from the far end)
    nbk = ctx.body("btree::iter::BTreeIterator::<'a>::next_backend")
    if nbk:
        ok = False
        for bi in nbk.normal_blocks():
            for st in nbk.blocks[bi]['s']:
                if st['k'] == 'assign' and st['p'] == [0] and st['r']['k'] == 'agg' and st['r']['ak'] == 'Adt:std::result::Result::Ok' and st['r']['a'] and op_place(st['r']['a'][0]) is not None:
                    l = op_place(st['r']['a'][0])[0]
                    ds = [d for d in nbk.defs().get(l, []) if d[2] == 'assign']
                    if ds and all(d[3]['r']['k'] == 'agg' and d[3]['r']['ak'] == 'Adt:std::option::Option::None' for d in ds):
                        calls, fields, binops = lib.guard_influences(nbk, bi)
                        dirp = [l2 for l2, n in nbk.names.items() if n == 'direction' and 1 <= l2 <= nbk.argc]
                        deps_dir = bool(dirp) and dirp[0] in lib.guard_params(nbk, bi)
                        if '.BTreeIterator.last_key' in fields and deps_dir:
                            ok = True
        ctx.ob('2n sentinel-positions-answered-without-the-cursor', 'K3-guard', nbk.path,
               'next_backend returns nothing, depending only on (last_key, direction), for a backward step from Start and a forward step from End', ok,
               'no early Ok(None) decided by last_key and direction: the tree cursor is asked even at the sentinel positions')
    # repositioning forgets the parked tree entry: every iterator method that re-seeks the tree cursor (seek, seek_to_last, ...)
    # resets pending_backend on all its success paths - the parked entry belongs to the old position (siblings must agree)
    nre = 0
    for b in sorted(F.bodies.values(), key=lambda x: x.path):
        if not b.path.startswith('btree::iter::BTreeIterator') or b.kind == 'Closure' or b.path.endswith('::iter_inner') or b.path.endswith('::next_backend'):
            continue
        sk = lib.sites_reaching(b, ["re:BTreeIterator::<'a>::seek_backend(_to_last)?$", 're:BTreeIterator.*::seek_backend(_to_last)?$'])
        sk = [x for x in sk if not call_matches(b.term(x), ["re:BTreeIterator.*::(seek|seek_to_first|seek_to_last)$"])]
        if not sk or b.path in REFRESHERS:
            continue
        nre += 1
        clr = core.stmt_sites_assigning_field(b, '.BTreeIterator.pending_backend')
        clr_blocks = [x[0] if isinstance(x, tuple) else x for x in clr]
        w = b.find_path([0], b.return_blocks(), removed=set(clr_blocks) | core.error_exit_blocks(b)) if clr_blocks else ['?']
        ctx.ob('2m reposition-drops-parked-entry %s' % b.path, 'K9-agreement', b.path,
               'a method that re-seeks the tree cursor drops the parked tree entry (pending_backend) on every success path', w is None,
               'no assignment to pending_backend' if not clr_blocks else 'success path keeping the parked entry: ' + lib.short_path(b, w) if w else '')
    ctx.ob('2m0 repositioning-methods', 'anchor', 'btree::iter::BTreeIterator', 'at least two repositioning methods exist (seek, seek_to_last)', nre >= 2, 'found %d' % nre)
    ii = ctx.body("btree::iter::BTreeIterator::<'a>::iter_inner")
    if ii:
        # "every step is answered against the latest committed state at the time of the call": the commit overlay is asked on
        # every step - no overlay answer is kept from an earlier call (a commit in between changes the overlay without changing
        # the column's record id, so nothing would invalidate a kept answer)
        oq = lib.sites_reaching(ii, ['db::CommitOverlay::btree_next', 'db::CommitOverlay::btree_prev', 're:CommitOverlay::btree_(next|prev)$'])
        lib.must_pass(ctx, '2k overlay-queried-on-every-step', ii, oq,
                      'every successful return of an iterator step has queried the commit overlay (btree_next / btree_prev) during this call')
        it_adt = F.adts.get('btree::iter::BTreeIterator')
        if it_adt:
            # fields of the iterator that hold overlay data between calls: only the backend item may be parked (it is guarded by the record id)
            ov_fields = [f['name'] for f in it_adt['variants'][0]['fields'] if not str(f.get('ty', '')).lstrip().startswith('&') and lib.type_mentions(F, f.get('ty', ''), r'db::Rc(Key|Value)')]
            ctx.ob('2k2 no-overlay-data-kept-in-iterator', 'K4-confinement', 'btree::iter::BTreeIterator', 'the iterator keeps no reference-counted overlay key/value between calls', not ov_fields, str(ov_fields))
        sw = None
        for bi in ii.normal_blocks():
            pol = lib.eq_polarity(ii, bi)
            if pol:
                eq_t, ne_t, ops = pol
                sl = backward_slice(ii, [op_place(o) for o in ops if op_place(o)])
                if '.BTreeIterState.record_id' in sl.fields and any(c.endswith('::last_record_id') for c in sl.calls):
                    sw = (bi, eq_t, ne_t)
        ctx.ob('2f pending-guard-anchor', 'anchor', ii.path, 'iter_inner compares the column\'s last record id with the iterator state\'s', sw is not None, '')
        if sw:
            bi, eq_t, ne_t = sw
            def is_none_local(l):
                ds = [d for d in ii.defs().get(l, [])]
                return len(ds) == 1 and ds[0][2] == 'assign' and ds[0][3]['r']['k'] == 'agg' and ds[0][3]['r']['ak'] == 'Adt:std::option::Option::None'
            clears = [b2 for b2 in ii.normal_blocks() for s in ii.blocks[b2]['s'] if s['k'] == 'assign' and '.BTreeIterator.pending_backend' in s['p'][1:] and
                      s['r']['k'] == 'use' and op_local(s['r']['a'][0]) is not None and is_none_local(op_local(s['r']['a'][0]))]
            uses = [b2 for b2, t in ii.calls() if call_matches(t, ['re:Option.*::take$']) and '.BTreeIterator.pending_backend' in lib.receiver_fields(ii, t, 0)]
            w = ii.find_path([ne_t], set(uses), removed=set(clears)) if uses else ['?']
            ctx.ob('2g stale-pending-item-discarded', 'K1-must-pass', ii.path,
                   'when the record id changed since the pending tree item was fetched, the item is discarded on every path before it can be returned (no extra condition)', bool(clears) and w is None,
                   'clear sites %s; path from the changed-id edge to the use: %s' % (clears, lib.short_path(ii, w) if w else ''))
    # the iterator walks the tree under the log-overlay read lock
    for fn in ("btree::iter::BTreeIterator::<'a>::seek", "btree::iter::BTreeIterator::<'a>::seek_to_last", "btree::iter::BTreeIterator::<'a>::iter_inner"):
        b = ctx.body(fn)
        if b:
            sites = b.call_sites(*REFRESHERS) if REFRESHERS else []
            ctx.ob('2h walk-anchor %s' % fn, 'anchor', fn, 'the iterator entry calls its tree walk once', len(sites) == 1, str(sites))
            for s2 in sites:
                lib.held_at(ctx, '2i tree-walk-under-log-read-lock %s' % fn, b, s2, '.BTreeIterator.log',
                            'the multi-node tree walk runs with the log-overlay read guard held (no record can be published between two node fetches)')
                a = b.term(s2)['a']
                sl = set()
                for x in a:
                    if op_place(x):
                        sl |= backward_slice(b, [op_place(x)]).calls
                ctx.ob('2j record-id-read-under-same-lock %s' % fn, 'K4-provenance', fn, 'the record id handed to the walk is read from the locked overlay (LogOverlays::last_record_id)', any(c.endswith('::last_record_id') for c in sl), '')
    # 3. read layering (tree arm)
    shared.read_layering(ctx, '3')

    # 4. the "None = rewritten in place" contract of write_node_plan: every caller inspects the returned Option before the
    #    address is stored (forwarding None as a child/root address would detach the subtree that was rewritten in place)
    WNP = 'btree::BTreeTable::write_node_plan'
    INSPECT = re.compile(r'option::Option::<T>::(is_some|is_none|is_some_and|is_none_or|or|or_else|xor|unwrap_or|unwrap_or_else|map_or|map_or_else|and_then|map|inspect|zip|filter|ok_or|ok_or_else)$')
    nsites = 0
    for b in sorted(F.bodies.values(), key=lambda x: x.path):
        for site in b.call_sites(WNP):
            if site not in b.normal_blocks():
                continue
            nsites += 1
            t = b.term(site)
            hold = {t['d'][0]}       # locals holding the result (Result, ControlFlow, then the Option itself)
            changed = True
            while changed:
                changed = False
                for bi in b.normal_blocks():
                    for st in b.blocks[bi]['s']:
                        if st['k'] != 'assign' or st['p'][0] in hold:
                            continue
                        r = st['r']
                        src = None
                        if r['k'] == 'use' and op_place(r['a'][0]):
                            src = op_place(r['a'][0])[0]
                        elif r['k'] in ('ref', 'copyderef'):
                            src = r['p'][0]
                        if src in hold and len(st['p']) == 1:
                            hold.add(st['p'][0]); changed = True
                    tm = b.term(bi)
                    if tm['k'] == 'call' and call_matches(tm, ['std::ops::Try::branch']) and tm['a'] and op_local(tm['a'][0]) in hold and tm['d'][0] not in hold:
                        hold.add(tm['d'][0]); changed = True
            opt = {l for l in hold if l < len(b.locals) and 'Option<' in str(b.locals[l]) and 'Result<' not in str(b.locals[l]) and 'ControlFlow<' not in str(b.locals[l])}
            inspected = False
            for bi in b.normal_blocks():
                for st in b.blocks[bi]['s']:
                    if st['k'] == 'assign' and st['r']['k'] == 'discr' and st['r']['p'][0] in opt and len(st['r']['p']) == 1:
                        inspected = True
                tm = b.term(bi)
                if tm['k'] == 'call' and INSPECT.search(tm.get('r') or tm.get('f') or '') and tm['a'] and op_local(tm['a'][0]) in opt:
                    inspected = True
            passthrough = 0 in hold
            ctx.ob('4a in-place-result-inspected %s' % b.path, 'K9-agreement', b.path,
                   'the Option returned by write_node_plan (None = node rewritten at its old address) is inspected by the caller (is_some / match / or(..)) before it is stored as an address' + (' [returned to its own caller]' if passthrough else ''),
                   inspected or passthrough, 'the result is stored or forwarded without looking at None', b.loc(site))
    ctx.ob('4b write_node_plan-callers', 'anchor', WNP, 'write_node_plan has four call sites (root split, root rewrite, child rewrite, split child)', nsites >= 4, 'found %d' % nsites)
    shared.recursion_audit(ctx, '6', ['btree::'])
    shared.header_slot_written_last(ctx, '7')
    # a point read of a btree column does not depend on options that only mean something for hash columns (multitree): a column
    # opened as a btree (btree_index wins in Column::open) answers get / get_size like the iterator does (F55)
    for fn in ('db::DbInner::get', 'db::DbInner::get_size'):
        b = ctx.body(fn)
        if not b:
            continue
        for s2 in lib.sites_reaching(b, ['btree::BTreeTable::get']):
            calls, fields, binops = lib.guard_influences(b, s2)
            ctx.ob('8a btree-read-independent-of-hash-only-options %s' % fn, 'K3-guard', fn,
                   'whether the btree lookup is reached does not depend on ColumnOptions.multitree', '.ColumnOptions.multitree' not in fields,
                   'the lookup is reached only if the multitree flag is clear', b.loc(s2))

