"""C20 - migration copies every key, value and reference count (structural part)."""
import re
import core, lib
from props import shared
from core import call_matches, call_names, op_place, op_local, backward_slice

LEVEL = 'other'
FLOOR = 14
EXPLANATION = ('The file kinds moved/copied by migration equal the file kinds that make up a column (Column::drop_files); unselected columns are copied; '
               'every successful return of migrate has passed a propagated commit_raw; each of the rc re-commits of an entry carries the value (the value is '
               'moved out only on the last iteration); destination salt is forced to the source salt before the destination is opened; the source is opened '
               'through Db::open; the index walk rebuilds the key from the same 6 + 26 byte split the value table stores.')
EXPLANATION += ' Added: migrate keeps the source format version (the destination is created by an open that is given the version), compares the destination salt, lets go of destination handles only through a checked close, re-opens the destination before its files are moved; the index walk skips empty slots; the walk visits the index tables of the reindex queue as well as the current one (F41, repaired: rule 4x).'
ASSUMPTIONS = ['content equality of source and destination is not decided', 'unwind edges ignored']
TRUSTED = ['rustc MIR construction (nightly)', 'pdb-facts driver', 'rule engine /verif/rules', 'anchor tables in props/C20.py']

PRED = ['index::TableId::is_file_name', 'table::TableId::is_file_name', 'ref_count::RefCountTableId::is_file_name']


def run(ctx):
    F = ctx.F
    dp, df = ctx.body(shared.column_file_mover(F)), ctx.body('column::Column::drop_files')
    if dp and df:
        def kinds(user):
            ks = set()
            for c in F.transitive_callees([user]):
                cb = F.body(c)
                if cb is None:
                    continue
                for bi2, sc in lib.str_consts(cb):
                    if sc in ('index', 'table', 'refcount'):
                        ks.add(sc)
                for bi2, tk, raw in lib.fmt_templates(cb):
                    if tk and tk[0][0] == 'lit' and tk[0][1] in ('index_', 'table_', 'refcount_'):
                        ks.add(tk[0][1][:-1])
            return ks
        a, b = kinds(dp.path), kinds(df.path)
        ctx.ob('1a moved-kinds-equal-column-kinds', 'K9-agreement', dp.path, 'deplace_column recognises the same file kinds as Column::drop_files (all files of a column move together)',
               a == b and len(b) == 3, 'deplace_column: %s; drop_files: %s' % (sorted(a), sorted(b)))
        ps = [bi for bi, t in dp.calls() if bi in dp.normal_blocks() and t.get('rty') == 'bool' and any(n in F.bodies for n in call_names(t))]
        for s in ps:
            a0 = dp.term(s)['a'][0] if dp.term(s)['a'] else None
            sl = backward_slice(dp, [op_place(a0)]) if a0 is not None and op_place(a0) else None
            ctx.ob('1b predicate-gets-own-column %s' % dp.term(s).get('r'), 'K4-provenance', dp.path, 'the predicate is applied with deplace_column\'s column argument', sl is not None and 1 in sl.params and not sl.binops, '')
        ops = dp.call_sites('std::fs::copy', 'std::fs::rename')
        ctx.ob('1c copy-or-rename', 'anchor', dp.path, 'deplace_column copies or renames', len(ops) == 2, str(ops))
    mg = ctx.body('migration::migrate')
    if mg:
        cr = mg.call_sites('db::Db::commit_raw')
        lib.must_pass(ctx, '2a migrate-ends-with-propagated-commit', mg, cr, 'every successful return of migrate passed a commit_raw call in migrate itself (whose error is propagated with `?`)')
        cc = mg.call_sites('migration::copy_column')
        ctx.ob('2b unselected-columns-copied', 'anchor', mg.path, 'migrate copies unselected columns', len(cc) == 1, str(cc))
        # salt forced before destination open
        st = [bi for bi in mg.normal_blocks() for s in mg.blocks[bi]['s'] if s['k'] == 'assign' and '.Options.salt' in s['p'][1:] and s['p'][0] == 2]
        oc = mg.call_sites('re:^db::Db::open_or_create\\w*$')
        # an open that is told the version to create (and refuses another one) settles the destination's version by itself
        def versioned_open(x):
            t = mg.term(x)
            return call_matches(t, ['re:^db::Db::open_or_create_in_version$']) and len(t['a']) > 1 and op_place(t['a'][1]) is not None and \
                '.Metadata.version' in backward_slice(mg, [op_place(t['a'][1])]).fields
        oc_versioned = [x for x in oc if versioned_open(x)]
        lib.precedes(ctx, '5a salt-forced-before-dest-open', mg, st, oc, 'the destination options get the source salt before the destination database is opened (same key hashing)')
        ok = False
        for bi in st:
            for s in mg.blocks[bi]['s']:
                if s['k'] == 'assign' and '.Options.salt' in s['p'][1:] and s['r']['k'] in ('agg', 'use'):
                    sl = backward_slice(mg, [op_place(a) for a in s['r']['a'] if op_place(a)])
                    ok = ok or '.Metadata.salt' in sl.fields
        ctx.ob('5b salt-is-source-salt', 'K4-provenance', mg.path, 'the forced salt is the salt of the source metadata', ok, '')
        so = mg.call_sites('db::Db::open')
        lm = mg.call_sites('options::Options::load_metadata')
        lib.precedes(ctx, '5c source-opened-normally', mg, lm, so, 'the source is opened with Db::open (lock, replay) using its stored metadata')
        raw = mg.call_sites('migration::copy_column', 'migration::move_column', shared.column_file_mover(F))
        lib.precedes(ctx, '5e raw-file-copy-after-source-open', mg, so, raw,
                     'column files are copied/moved only after the source was opened (Db::open replays and removes pending write-ahead logs; a raw copy made before would miss them)')
        it = [bi for bi, t in mg.calls() if call_matches(t, ['db::Db::iter_column_index_while'])]
        for s in it:
            lib.precedes(ctx, '5d iterate-after-open', mg, so, [s], 'the index walk runs on the opened source')
    if mg:
        # hashed keys, copied column files and value entries are carried over as they are, and their layout depends on the format
        # version in the metadata (key hashing of uniform columns, multipart layout): the destination - and the rewritten source
        # metadata of an in-place migration - must keep the version of the source, not get CURRENT_VERSION (F40)
        fam = lib.family(F, mg.path)
        plain = [(b.path, x) for b in fam for x, t in b.calls() if x in b.normal_blocks() and call_matches(t, ['re:Options::write_metadata(_file)?$'])]
        ctx.ob('5f no-versionless-metadata-write', 'K4-confinement', mg.path, 'migrate does not write metadata through the variants that stamp CURRENT_VERSION', not plain, str(plain))
        WV = ['re:Options::write_metadata(_file)?_with_version$']
        def is_source_version(fb, pl, depth=2):
            """the place holds a version read from a Metadata - directly, or through a helper parameter that every caller in the family
            fills with one"""
            sl = backward_slice(fb, [pl])
            if '.Metadata.version' in sl.fields:
                return True
            if depth <= 0 or not sl.params or fb is mg:
                return False
            callers = [(cb, x) for cb in fam for x in cb.call_sites(fb.path)]
            if not callers:
                return False
            for prm in sl.params:
                for cb, x in callers:
                    a = cb.term(x)['a']
                    if prm - 1 >= len(a) or op_place(a[prm - 1]) is None or not is_source_version(cb, op_place(a[prm - 1]), depth - 1):
                        return False
            return True
        wv = [(fb, x) for fb in fam for x, t in fb.calls() if x in fb.normal_blocks() and call_matches(t, WV)]
        ctx.ob('5g0 versioned-metadata-writes', 'anchor', mg.path, 'migrate (or a helper of it) writes the destination metadata and, in place, the source metadata with an explicit version (the destination may instead be created by an open that is given the version)',
               len(wv) >= 2 or (len(wv) >= 1 and len(oc_versioned) >= 1), str([(fb.path, x) for fb, x in wv]))
        for i, (fb, x) in enumerate(wv):
            t = fb.term(x)
            v = t['a'][3] if len(t['a']) > 3 else None
            ok = v is not None and op_place(v) is not None and is_source_version(fb, op_place(v))
            ctx.ob('5g metadata-written-with-source-version #%d' % i, 'K4-provenance', fb.path, 'the version written is the version read from the source metadata', ok,
                   '' if ok else 'the version argument does not come from Metadata.version', fb.loc(x))
        def version_compares(fb):
            out = []
            for bi in fb.normal_blocks():
                for st_ in fb.blocks[bi]['s']:
                    if st_['k'] == 'assign' and st_['r']['k'] == 'bin' and st_['r']['op'] in ('Eq', 'Ne'):
                        pls = [op_place(a) for a in st_['r']['a'] if op_place(a) is not None]
                        if len(pls) == 2 and all(is_source_version(fb, pl) for pl in pls):
                            out.append(bi)
            return out
        settled = lib.sites_reaching(mg, WV) + version_compares(mg)
        # a helper that compares the versions (and writes the metadata when there is none) settles it at its call site
        for fb in fam:
            if fb is not mg and fb.kind != 'Closure' and version_compares(fb):
                settled += mg.call_sites(fb.path)
        plain_oc = [x for x in oc if x not in oc_versioned]
        if not plain_oc and oc_versioned:
            ctx.ob('5h destination-version-settled-before-open', 'K2-order', mg.path, 'every open of the destination is given the source version (it creates the metadata with it under the lock, or refuses an existing destination in another version)', True, '')
        else:
            lib.precedes(ctx, '5h destination-version-settled-before-open', mg, sorted(set(settled) | set(oc_versioned)), plain_oc,
                         'before the destination is opened (which would create it with CURRENT_VERSION) its metadata was written with the source version, or its existing version was compared with it')
    if mg:
        # commits into the destination are only queued; a failure of its background workers is stored in THAT handle and reported
        # by the next commit on it. migrate lets go of destination handles (to copy files, to move files, at the end): each time it
        # has to ask the handle first - Db::close returns the stored error - or a failed batch is silently missing and, in place,
        # the source column is replaced by an incomplete one (F58)
        dest_locals = set(mg.term(x)['d'][0] for x in oc if len(mg.term(x)['d']) == 1)
        # locals the destination handle is moved through (`dest = open(..)`: the call result is moved into the variable)
        for _ in range(3):
            for bi in mg.normal_blocks():
                for st_ in mg.blocks[bi]['s']:
                    if st_['k'] == 'assign' and st_['r']['k'] == 'use' and op_place(st_['r']['a'][0]) is not None and len(op_place(st_['r']['a'][0])) == 1 \
                       and op_place(st_['r']['a'][0])[0] in dest_locals and len(st_['p']) == 1:
                        dest_locals.add(st_['p'][0])
        plain_drops = [x for x, t in mg.calls() if x in mg.normal_blocks() and call_matches(t, ['std::mem::drop']) and t['a'] and op_local(t['a'][0]) is not None
                       and lib.root_local(mg, t['a'][0]) in dest_locals | set(l for l in dest_locals)]
        # a drop(x) where x was moved out of a destination variable
        for x, t in mg.calls():
            if x in mg.normal_blocks() and call_matches(t, ['std::mem::drop']) and t['a'] and op_local(t['a'][0]) is not None and x not in plain_drops:
                sl = backward_slice(mg, [op_place(t['a'][0])])
                if any(y in oc for y, _ in sl.call_sites):
                    plain_drops.append(x)
        closes = [x for x in mg.call_sites('db::Db::close') if lib.result_err_targets(mg, x) or mg.term(x).get('d') == [0]]      # `?`, or returned as the result of migrate
        ctx.ob('5j destination-handles-are-closed-not-dropped', 'K4-confinement', mg.path,
               'migrate never lets go of a destination handle with drop(): it uses Db::close and propagates the background error the handle may hold',
               not plain_drops and bool(closes), 'destination handle dropped at %s' % [mg.loc(x) for x in plain_drops] if plain_drops else 'no Db::close whose result is propagated')
        if closes:
            lib.must_pass(ctx, '5k migrate-ends-with-a-checked-close', mg, closes, 'every successful return of migrate has closed the destination and looked at its background error')
    if mg:
        # in place: the column files of the destination are moved over the source only after the destination was OPENED once more after
        # its last commit - closing a handle leaves the log files that hold the last batches when their enactment fails (a close only
        # reports what the workers stored), it is the next open that replays them or fails on them
        mv = mg.call_sites('migration::move_column')
        n_mv = len(mv)
        if not mv:
            # the swap of the column files may sit in a private helper of migrate: its call stands for the moves
            for fb in fam:
                if fb is not mg and fb.call_sites('migration::move_column') and mg.call_sites(fb.path):
                    mv += mg.call_sites(fb.path)
                    n_mv += len(fb.call_sites('migration::move_column'))
        crs = mg.call_sites('db::Db::commit_raw') + [x for fb in fam if fb is not mg for x in mg.call_sites(fb.path) if fb.call_sites('db::Db::commit_raw')]
        bad = None
        for c in crs:
            for m in mv:
                if m in mg.reaches(c):
                    w = mg.find_path(list(mg.succ(c)), {m}, removed=set(oc))
                    if w:
                        bad = bad or (c, m, w)
        ctx.ob('5m0 in-place-anchors', 'anchor', mg.path, 'the in-place branch moves column files and commits into the destination before', n_mv >= 2 and len(crs) >= 1, 'moves %s commits %s' % (mv, crs))
        ctx.ob('5m destination-reopened-before-its-files-are-moved', 'K2-order', mg.path,
               'between the last commit into the destination and the move of its column files over the source there is an open of the destination (which replays and removes its logs, or fails)',
               bad is None, '' if bad is None else 'files moved after a commit without a re-open: ' + lib.short_path(mg, [bad[0]] + bad[2]))
    if mg:
        # hashed keys are committed as they are and the files of unselected columns are copied as they are: an EXISTING destination
        # must have the salt of the source (setting to.salt only matters when the destination is created); the salt stored in the opened
        # destination is compared with the source salt and a mismatch is an error (F57)
        cands = [mg] + [x for x in fam if x is not mg] + [F.body(n) for n in ('db::Db::open_or_create_in_version',) if F.body(n) is not None]
        found = None
        for fb in cands:
            for bi, t in fb.calls():
                if bi in fb.normal_blocks() and call_matches(t, ['re:PartialEq.*>::(eq|ne)$']) and len(t['a']) >= 2:
                    sls = [backward_slice(fb, [op_place(a)]) for a in t['a'][:2] if op_place(a) is not None]
                    if len(sls) == 2 and all('.Options.salt' in sl.fields for sl in sls) and any('.DbInner.options' in sl.fields or '.Metadata.salt' in sl.fields for sl in sls):
                        found = (fb, bi)
            for bi in fb.normal_blocks():
                for st_ in fb.blocks[bi]['s']:
                    if st_['k'] == 'assign' and st_['r']['k'] == 'bin' and st_['r']['op'] in ('Eq', 'Ne'):
                        sls = [backward_slice(fb, [op_place(a)]) for a in st_['r']['a'] if op_place(a) is not None]
                        if len(sls) == 2 and all(('.Options.salt' in sl.fields or '.Metadata.salt' in sl.fields) for sl in sls) and any('.DbInner.options' in sl.fields or '.Metadata.salt' in sl.fields for sl in sls):
                            found = found or (fb, bi)
        guarded = False
        if found:
            fb, bi = found
            errs = core.error_exit_blocks(fb)
            sw = [x for x in fb.reaches(bi) if fb.term(x)['k'] == 'switch']
            guarded = any(e in fb.reaches(bi) for e in errs)
        ctx.ob('5i destination-salt-is-the-source-salt', 'K3-guard', mg.path,
               'the salt stored in the opened destination is compared with the salt of the source, and a mismatch is reported as an error',
               bool(found) and guarded, 'no comparison of the destination\'s stored salt with the source salt' if not found else 'the comparison does not lead to an error return')
    # 6c. a loop over "all columns" is not bounded by the column count squeezed into a column id: 256 columns are valid (ids 0..=255)
    # and `256 as u8 == 0` makes the range empty - nothing is selected, walked or copied and migrate returns Ok (F60)
    COLS = {'.Options.columns', '.Metadata.columns', '.DbInner.columns'}
    nrange = 0
    for fb in sorted(F.bodies.values(), key=lambda x: x.path):
        if not fb.path.startswith('migration::'):
            continue
        defs = fb.defs()
        for bi in fb.normal_blocks():
            for st_ in fb.blocks[bi]['s']:
                if st_['k'] != 'assign' or st_['r']['k'] != 'agg' or not st_['r']['ak'].startswith(('Adt:std::ops::Range', 'Adt:core::ops::Range')) or len(st_['r']['a']) < 2:
                    continue
                endp = op_place(st_['r']['a'][1])
                if endp is None:
                    continue
                sl = backward_slice(fb, [endp])
                if not (sl.fields & COLS) or not any(re.search(r'::len$', c) for c in sl.calls):
                    continue
                nrange += 1
                # the value chain from the count to the range end (moves and casts only: the slice also reaches how the options were BUILT)
                narrowed = []
                l = endp[0]
                for _ in range(8):
                    ds = [d for d in defs.get(l, []) if d[2] == 'assign']
                    if len(ds) != 1 or len(defs.get(l, [])) != 1:
                        break
                    r = ds[0][3]['r']
                    if r['k'] == 'cast' and r.get('ck') == 'IntToInt':
                        if r.get('from') == 'usize' and r.get('to') in ('u8', 'i8'):
                            narrowed.append(l)
                        l = op_local(r['a'][0])
                    elif r['k'] == 'use' and op_local(r['a'][0]) is not None:
                        l = op_local(r['a'][0])
                    else:
                        break
                    if l is None:
                        break
                ctx.ob('6c column-range-not-narrowed %s #%d' % (fb.path, nrange), 'K7-narrowing-cast', fb.path,
                       'the end of a range over the columns is the column count itself, not the count cast to a column id (256 columns: `256 as u8 == 0`, the loop body never runs)',
                       not narrowed, 'range end derives from `len() as u8` (locals %s)' % narrowed if narrowed else '', fb.loc(bi))
    ctx.ob('6c0 column-ranges', 'anchor', 'migration::', 'the loops of the migration module that range over the column count were found', nrange >= 2, 'found %d' % nrange)
    if mg:
        # 7a. in place: "the path set in `to` is ignored" - the destination handle the walk commits into, and the directory the migrated
        # column files are taken from, is a private directory derived from the SOURCE path. With the caller's to.path a database that
        # lives there (a trial copy migrated earlier with the same options passes every check) is merged into the result and loses
        # its column files (F61)
        ow = None
        for l, nm in mg.names.items():
            if nm == 'overwrite' and 1 <= l <= mg.argc:
                ow = l
        frm = [l for l, nm in mg.names.items() if nm == 'from' and 1 <= l <= mg.argc]
        stores = []
        for bi in mg.normal_blocks():
            for st_ in mg.blocks[bi]['s']:
                if st_['k'] == 'assign' and '.Options.path' in [e for e in st_['p'][1:] if isinstance(e, str)]:
                    pls = [op_place(a) for a in st_['r'].get('a', []) if op_place(a) is not None] + ([st_['r']['p']] if st_['r'].get('p') else [])
                    sl = backward_slice(mg, pls) if pls else None
                    if sl and frm and (set(frm) & sl.params):
                        stores.append(bi)
            t = mg.term(bi)
            # `to.path = ..` where the old value needs dropping is a DropAndReplace / or a call result assigned to the field
            if t['k'] == 'call' and t.get('d') and '.Options.path' in [e for e in t['d'][1:] if isinstance(e, str)]:
                sl = backward_slice(mg, [op_place(a) for a in t['a'] if op_place(a) is not None])
                if frm and (set(frm) & sl.params):
                    stores.append(bi)
        ctx.ob('7a0 in-place-staging-anchor', 'anchor', mg.path, 'migrate has the `overwrite` and `from` parameters and opens the destination', ow is not None and bool(frm) and bool(oc), 'overwrite %s from %s opens %s' % (ow, frm, oc))
        if ow is not None and frm and oc:
            rem = lib.prune_bool_param(mg, ow, True)
            w = mg.find_path([0], set(oc), removed=set(stores), removed_edges=frozenset(rem)) if True else None
            ctx.ob('7a in-place-destination-is-private', 'K1-must-pass', mg.path,
                   'with overwrite set, before the destination is opened its path is replaced by a directory derived from the source path (the path in `to` is ignored, as documented): '
                   'a database living at to.path is otherwise merged into the migrated column and stripped of its files', w is None,
                   '' if w is None else 'destination opened at the caller\'s path: ' + lib.short_path(mg, w))
            # 7b. the private directory is the staging database of this run only: what an interrupted earlier run left in it (a
            # populated copy of the column, from before later changes to the source) must be gone before the walk commits into
            # it - otherwise every count is added to the leftover's and removed keys come back (seed C20-staging-not-cleared)
            clears = [bi for bi, t in mg.calls() if bi in mg.normal_blocks() and any(re.search(r'remove_private_dir$|std::fs::remove_dir_all$', n_) for n_ in call_names(t))]
            first_open = [o for o in oc if mg.find_path([0], {o}, removed=set(oc) - {o}, removed_edges=frozenset(rem)) is not None]
            w2 = mg.find_path([0], set(first_open), removed=set(clears), removed_edges=frozenset(rem)) if clears and first_open else ['?']
            ctx.ob('7b in-place-staging-starts-empty', 'K2-order', mg.path,
                   'with overwrite set, the private staging directory is removed before the staging database is opened for the first time (a leftover of an interrupted run is not merged into this one)',
                   w2 is None, 'no removal of the private directory before the first open of the destination' if w2 == ['?'] else ('' if w2 is None else 'destination opened without clearing: ' + lib.short_path(mg, w2)))
    # 5n. what Db::close reports includes the failure of the final drain: commits still queued when the log worker leaves are processed by
    # kill_logs on the closing thread; its error must reach the slot close() reads (F62)
    di = ctx.body('db::Db::drop_inner')
    cl_ = ctx.body('db::Db::close')
    if di and cl_:
        kl = lib.sites_reaching(di, ['db::DbInner::kill_logs'])
        rec = lib.sites_reaching(di, ['db::DbInner::store_err']) + [bi for bi in di.normal_blocks() for st_ in di.blocks[bi]['s'] if st_['k'] == 'assign' and '.DbInner.bg_err' in [e for e in st_['p'][1:] if isinstance(e, str)]]
        reads_slot = '.DbInner.bg_err' in set().union(*[backward_slice(cl_, [[0]]).fields])
        ctx.ob('5n0 close-anchor', 'anchor', di.path, 'drop_inner runs the final drain (kill_logs) and close() answers from DbInner.bg_err', len(kl) >= 1 and reads_slot, 'kill_logs %s, close reads bg_err: %s' % (kl, reads_slot))
        for n, k in enumerate(kl):
            errs = set(lib.result_err_targets(di, k))
            ok = bool(errs) and bool(rec)
            if ok:
                # from every Err target of the drain, the return is not reached without recording
                for e in errs:
                    w = di.find_path([e], set(di.return_blocks()), removed=set(rec))
                    if w is not None and e not in rec:
                        ok = False
            ctx.ob('5n shutdown-failure-reaches-close #%d' % n, 'K1-must-pass', di.path,
                   'an error of the final drain is recorded where Db::close looks (bg_err): the last batches of a migration are often processed by the closing thread, not by the workers', ok,
                   'Err targets %s, recording sites %s' % (sorted(errs), rec), di.loc(k))
    if mg:
        ins = [bi for bi, t in mg.calls() if call_matches(t, ['re:BTreeSet.*::insert$', 're:BTreeSet.*Extend<.*>>::extend$', 're:BTreeSet.*::extend$', 're:BTreeSet.*::append$']) and bi in mg.normal_blocks()]
        # the automatic selection: an insert that depends on a comparison of source and destination column options
        need = {'preimage', 'uniform', 'ref_counted', 'compression', 'btree_index', 'multitree'}
        ok = False
        det = 'no insert guarded by a comparison of column options'
        for s2 in ins:
            calls, fields, binops = lib.guard_influences(mg, s2)
            # `set.extend(range.filter(|c| a[c] != b[c]))`: the predicate lives in a closure feeding the inserted iterator
            for a in mg.term(s2)['a'][1:]:
                if op_place(a) is not None:
                    sl2 = backward_slice(mg, [op_place(a)])
                    calls = set(calls) | sl2.calls
                    fields = set(fields) | sl2.fields
            level0 = set(calls)
            calls = lib.shallow_calls(F, calls, owner=mg.path)
            # (an unresolved `!=` counts only where migrate itself, or one of its closures, makes it: the salt comparison inside the
            # destination open also influences everything after it)
            near = set(level0)
            for c in level0:
                cb = F.body(c)
                if cb is not None and c.startswith(mg.path + '::{closure'):
                    near |= set(n for bi3, t3 in cb.calls() for n in core.call_names(t3))
            if any(re.search(r'ColumnOptions as std::cmp::PartialEq>::(eq|ne)$', c) for c in near) or any(c in ('std::cmp::PartialEq::ne', 'std::cmp::PartialEq::eq') and '.Options.columns' in fields for c in near):
                ok = True
                continue
            # custom predicate: every data-affecting field must be read by it
            read = set()
            for c in level0:
                cb = F.body(c)
                if cb is not None:
                    for blk in cb.blocks:
                        for st in blk['s']:
                            if st['k'] == 'assign':
                                for pl in ([st['r'].get('p')] if st['r'].get('p') else []) + [op_place(a) for a in st['r'].get('a', []) if op_place(a)]:
                                    read |= set(e.split('.')[-1] for e in pl[1:] if isinstance(e, str) and e.startswith('.ColumnOptions.'))
            read |= set(e.split('.')[-1] for e in fields if e.startswith('.ColumnOptions.'))
            if read:
                if need <= read:
                    ok = True
                else:
                    det = 'the selection predicate ignores %s' % sorted(need - read)
        ctx.ob('2c selection-compares-all-data-affecting-options', 'K9-agreement', mg.path,
               'a column is re-populated automatically whenever source and destination options differ in anything that affects stored bytes (full ColumnOptions equality, or at least preimage/uniform/ref_counted/compression/btree_index/multitree)', ok, det)
    # the per-entry callback of the index walk: the closure of migrate that builds Operation::Set
    # (the Set may be built by a helper that the closure hands key and value to: `batch.push(c, key, value)`)
    def is_set(s):
        return s['k'] == 'assign' and s['r']['k'] == 'agg' and s['r']['ak'] == 'Adt:db::Operation::Set'
    cl, sets = None, []
    mfam = lib.family(F, 'migration::migrate')
    builders = {}
    for fb in mfam:
        for bi in fb.normal_blocks():
            for s in fb.blocks[bi]['s']:
                if is_set(s):
                    builders.setdefault(fb.path, []).append((bi, s))
    for fb in mfam:
        if '{closure' not in fb.path:
            continue
        here = [(bi, s['r']['a'][1]) for bi, s in builders.get(fb.path, [])]
        for bi, t in fb.calls():
            if bi not in fb.normal_blocks():
                continue
            for n in sorted(set(call_names(t))):
                hb = F.bodies.get(n)
                if n in builders and n != fb.path and '{closure' not in n and len(builders[n]) == 1:
                    vo = builders[n][0][1]['r']['a'][1]
                    ps = sorted(x for x in backward_slice(hb, [op_place(vo)]).params) if op_place(vo) else []
                    if len(ps) == 1 and len(t['a']) >= ps[0]:
                        here.append((bi, t['a'][ps[0] - 1]))
        if here:
            cl, sets = fb, here
    if cl is None:
        ctx.ob('3 closure-anchor', 'anchor', 'migration::migrate', 'the per-entry closure of migrate exists', False, '')
    else:
        ctx.ob('3a set-anchor', 'anchor', cl.path, 'the closure builds Operation::Set (itself or through one helper call)', len(sets) == 1, '')
        # what is re-committed into the destination has to be acceptable for ANY destination column options (migration changes
        # them): a Set is; Reference / Dereference are refused by a column without reference counting (the count belongs to the
        # source column), the tree operations by everything but multitree columns
        others = sorted(set(s['r']['ak'] for fb2 in lib.family(F, 'migration::migrate') for bi in fb2.normal_blocks() for s in fb2.blocks[bi]['s']
                            if s['k'] == 'assign' and s['r']['k'] == 'agg' and str(s['r'].get('ak', '')).startswith('Adt:db::Operation::') and s['r']['ak'] != 'Adt:db::Operation::Set'))
        ctx.ob('3e only-Set-is-recommitted', 'K9-agreement', cl.path,
               'migrate re-commits entries as Operation::Set only (the one operation every kind of destination hash column accepts; a reference count is replayed as repeated Sets)',
               not others, 'also builds %s' % [o.split('::')[-1] for o in others])
        for bi, vop in sets:
            sl = backward_slice(cl, [op_place(vop)])
            takes = [b2 for b2, t in sl.call_sites if call_matches(t, ['std::mem::take', 'std::mem::replace'])]
            inloop = bi in cl.reaches(bi)
            bad = None
            for tk in takes:
                if tk in cl.reaches(tk):
                    # moved out inside the loop: only allowed on the last iteration (guard derived from the loop counter)
                    ok = False
                    for (sw, yes, no) in cl.control_deps(tk):
                        pol = lib.eq_polarity(cl, sw)
                        if pol:
                            eq_t, ne_t, ops = pol
                            s2 = backward_slice(cl, [op_place(o) for o in ops if op_place(o)])
                            if eq_t in yes and ne_t in no and any(re.search(r'Iterator.*::next$', c) for c in s2.calls):
                                ok = True
                    if not ok:
                        bad = 'the value is moved out (mem::take at %s) inside the re-commit loop without a last-iteration guard: later iterations commit an empty value' % cl.loc(tk)
            ctx.ob('3b each-recommit-carries-the-value', 'K7-loop-carried-move', cl.path,
                   'in the loop that re-commits an entry rc times, the value placed in Operation::Set is the entry value on every iteration (moved out only on the last one)', bad is None and inloop, bad or '')
        ccr = cl.call_sites('db::Db::commit_raw')
        ctx.ob('3c batches-through-commit_raw', 'anchor', cl.path, 'batches are written with Db::commit_raw', len(ccr) == 1, '')
    # key layout constants
    ps = F.consts.get('table::key::PARTIAL_SIZE', {}).get('i')
    pk = F.body('table::key::partial_key')
    ii = ctx.body('column::HashColumn::iter_index_internal')
    ii_root = ii
    if ii and not ii.call_sites('index::IndexTable::recover_key_prefix'):
        # the walk of ONE index table may sit in a private helper that the function calls for each generation
        walkers = [x for x in lib.family(F, ii.path) if x is not ii and x.call_sites('index::IndexTable::recover_key_prefix')]
        if len(walkers) == 1:
            ii = walkers[0]
    if ii:
        # the index walk that feeds migration visits every slot of every chunk
        nn = lib.empty_slot_skipped(ctx, '4w empty-slot-skipped-not-terminal', ii, 'the migration index walk skips an empty slot and goes on with the rest of the chunk (removals leave holes in front of live entries)')
        lps = lib.for_loops_over(ii)
        ctx.ob('4w0 index-walk-anchors', 'anchor', ii.path, 'the walk is a loop over chunks with a loop over the entries of each chunk', len(lps) >= 2 or nn >= 1, 'loops %d, empty tests %d' % (len(lps), nn))
    gt = ctx.body('column::HashColumn::get')
    if ii_root and gt:
        def reads_queue(b):
            return any('.HashColumn.reindex' in lib.receiver_fields(x, t, 0) or '.Reindex.queue' in lib.receiver_fields(x, t, 0)
                       for x in lib.family(F, b.path) for _bi, t in x.calls() if t['a'])
        ctx.ob('4x0 lookup-searches-queued-tables', 'anchor', gt.path, 'HashColumn::get also searches the index tables in the reindex queue', reads_queue(gt), '')
        ctx.ob('4x index-walk-covers-queued-tables', 'K9-agreement', ii_root.path,
               'the index walk that feeds migration visits the same tables a lookup searches: the current index and every index table still in the reindex queue (a cleanly closed database may have a growth in progress)',
               reads_queue(ii_root), 'iter_index_internal reads tables.index only; HashColumn::get also walks Reindex.queue')
    if ii_root is not None and ii is not None and ii is not ii_root:
        # de-duplication across generations: the per-table walk is handed the tables walked BEFORE the one it walks - all of them (an
        # entry copied from the oldest table straight into the current one is in no table in between)
        bad, seen = [], 0
        for bi, t in ii_root.calls():
            if bi not in ii_root.normal_blocks() or ii.path not in call_names(t):
                continue
            for a in t['a']:
                if op_place(a) is None or not re.search(r'^&\[&index::IndexTable\]$', str(ii_root.locals[op_place(a)[0]])):
                    continue
                seen += 1
                sl = backward_slice(ii_root, [op_place(a)])
                rng = [x for l in sl.locals for x in ii_root.defs().get(l, []) if x[2] == 'assign' and x[3]['r']['k'] == 'agg' and re.search(r'ops::Range(To|From|Inclusive|ToInclusive|Full)?$', str(x[3]['r']['ak']))]
                for x in rng:
                    ak = str(x[3]['r']['ak'])
                    if ak.endswith('RangeTo'):
                        continue
                    if ak.endswith('ops::Range') and x[3]['r']['a'] and x[3]['r']['a'][0].get('i') == 0:
                        continue
                    bad.append('%s at %s' % (ak.split('::')[-1], ii_root.loc(x[0])))
                if any(re.search(r'::(saturating_sub|checked_sub|wrapping_sub|skip|take|last|rev|windows|split_at|split_last)$', c) for c in sl.calls):
                    bad.append('the list is trimmed by %s' % sorted(c.split('::')[-1] for c in sl.calls if re.search(r'::(saturating_sub|checked_sub|wrapping_sub|skip|take|last|rev|windows|split_at|split_last)$', c))[:2])
        if seen:
            ctx.ob('4y every-older-table-consulted', 'K4-provenance', ii_root.path,
                   'the list of already walked index tables that the per-table walk consults (to skip an entry reported before) is the whole prefix of the walk order, not a window of it',
                   not bad, '; '.join(bad[:3]))
    def range_from_consts(b):
        out = []
        for blk in b.blocks:
            for s in blk['s']:
                if s['k'] == 'assign' and s['r']['k'] == 'agg' and s['r']['ak'].endswith('RangeFrom') and s['r']['a'] and 'i' in s['r']['a'][0]:
                    out.append(s['r']['a'][0]['i'])
        return out
    if pk and ii:
        a, b = range_from_consts(pk), range_from_consts(ii)
        ctx.ob('4a key-split-agrees', 'K8-const', ii.path, 'the index walk overwrites key[6..] with the stored partial key; partial_key() is hash[6..]; 6 + PARTIAL_SIZE == 32',
               ps is not None and a == [32 - ps] and (32 - ps) in b, 'PARTIAL_SIZE %s partial_key %s iter %s' % (ps, a, b))
        rk = ii.call_sites('index::IndexTable::recover_key_prefix')
        ctx.ob('4b prefix-recovered-from-index', 'anchor', ii.path, 'the key prefix is recovered from the index entry', len(rk) == 1, '')
