"""C01 - hash columns are a key-value map at every pipeline stage (structural clauses only)."""
import re
import core, lib
from core import call_matches, call_names, op_place, backward_slice
from props import shared

WITNESSES = ['HandleIsOpaque']      # compile-fail witnesses against the public surface (thorough tier; engine.WITNESSES)
LEVEL = 'other'
FLOOR = 78      # 70% of the 112 obligation instances derived on the tree the rules were last reviewed against
EXPLANATION = ('Clauses decided: publish-before-acknowledge in commit_raw, hand-over order between commit overlay / log overlay / tables, '
               'removal from overlays only by owner id, read layering (commit overlay -> log overlay -> file) under the overlay lock, '
               'in-order use of the change list, single hashing scheme. Value-level correctness of write_plan/index/table algorithms is NOT decided.')
EXPLANATION += ' Added from findings and seeded changes: the key digest covers the whole key and copies use fixed equal lengths (hash_key); the writer-side index search compares the stored key tail before it reports a hit; file/mapping reads are shadowed by the log overlay; the handle keeps the salt of the stored metadata; a deferral moves only the tree removals; thorough tier: nothing behind the handle is reachable from outside the crate (compile-fail witness).'
ASSUMPTIONS = ['value-level algorithms (index search, table chains, compression) are outside this check',
               'MIR paths over-approximate feasible paths; unwind edges ignored']
TRUSTED = ['rustc MIR construction (nightly)', 'pdb-facts driver', 'rule engine /verif/rules', 'anchor tables in props/shared.py and props/C01.py']

REORDER_RX = r'(sort|reverse|swap|::rev$|retain|dedup|drain|::remove$|truncate|rotate|shuffle|pop|split_off|insert$|clear$|iter_mut|as_mut_slice|DerefMut)'


def run(ctx):
    F = ctx.F
    shared.publish_before_ack(ctx, '1')
    shared.handover_order(ctx, '2')
    shared.deferral_keeps_commit_order(ctx, '2')    # commit order also holds when a tree dereference in the same transaction is postponed
    shared.owner_id_removal(ctx, '3')
    shared.overlay_entries_replaced_whole(ctx, '3w', MAPS=shared.COMMIT_OVERLAY_MAPS, what='commit', key=' commit-overlay-entries-replaced-whole', floor=2)
    shared.read_layering(ctx, '4')
    shared.file_reads_shadowed(ctx, '4s')
    shared.index_hit_verified_against_key(ctx, '7')   # a planned write lands on the key it names
    # the latest value of a key may still live only in an older, queued index table: reader and planner search them all
    from props import C09
    C09.one_generation_searched_only_by_helpers(ctx, '4')
    C09.both_index_search(ctx, '4r', 'column::HashColumn::get', ['column::HashColumn::get_in_index'], 0, '.Tables.index')
    shared.index_insert_retried(ctx, '4i')
    C09.both_index_search(ctx, '4w', 'column::HashColumn::search_all_indexes', ['column::HashColumn::search_index'], 0, '.Tables.index')
    # 5. in-order planning: IndexedChangeSet.changes is append-only and iterated forward
    rx = re.compile(REORDER_RX)
    uses = []
    bad = []
    for b in F.bodies.values():
        for bi, t in b.all_calls():
            if not t['a']:
                continue
            if '.IndexedChangeSet.changes' in lib.receiver_fields(b, t, 0):
                nm = t.get('r') or t.get('f') or '?'
                uses.append((b.path, nm))
                if rx.search(nm):
                    bad.append('%s: %s at %s' % (b.path, nm, b.loc(bi)))
    ctx.ob('5a changes-never-reordered', 'K4-confinement', '-',
           'no call on IndexedChangeSet.changes reorders, removes or mutates elements (only push / forward iteration), so operations of one transaction are planned in the order given',
           not bad and len(uses) >= 4, '; '.join(bad[:4]) or 'only %d uses found' % len(uses))
    pushers = sorted(set(p for p, nm in uses if nm.endswith('::push')))
    ctx.ob('5b changes-appended-only-by-push_change_hashed', 'K4-confinement', ','.join(pushers), 'elements are appended only by push_change_hashed',
           [x for x in pushers if not x.startswith('migration::')] == ['db::IndexedChangeSet::push_change_hashed'], str(pushers))
    for fn in ('db::IndexedChangeSet::copy_to_overlay', 'db::IndexedChangeSet::write_plan', 'db::IndexedChangeSet::clean_overlay'):
        b = ctx.body(fn)
        if b:
            # (the walk may live in a helper of the same type: write_plan plans the keyed changes through write_keyed_plan)
            where = [b] + [F.body(n) for n in sorted(set(x for bi, t in b.calls() for x in call_names(t))) if n.startswith('db::IndexedChangeSet::') and F.body(n) is not None and n != fn]
            lp = [l for w in where for l in lib.for_loops_over(w, '.IndexedChangeSet.changes')]
            its = [t for w in where for bi, t in w.calls() if '.IndexedChangeSet.changes' in lib.receiver_fields(w, t, 0)]
            fwd = any(call_matches(t, ['core::slice::<impl [T]>::iter']) for t in its)
            ctx.ob('5c forward-iteration %s' % fn, 'K9-agreement', fn, 'iterates self.changes with slice::iter in a for loop', bool(lp) and fwd, 'loops %d' % len(lp))
    # 6. one hashing scheme
    # keys may be ANY byte string the column type admits (32 bytes OR LONGER for uniform keys): the hashing function never copies a
    # run-time-sized part of the key into a fixed-size destination (copy_from_slice panics unless both lengths are equal)
    hkb = ctx.body('column::hash_key')
    if hkb:
        cps = [bi for bi, t in hkb.calls() if bi in hkb.normal_blocks() and call_matches(t, ['re:slice::<impl \\[T\\]>::copy_from_slice$', 're:::copy_from_slice$'])]
        ctx.ob('6k0 key-copy-sites', 'anchor', hkb.path, 'hash_key copies key / hash bytes into the 32-byte key', len(cps) >= 2, str(cps))
        bad = []
        for bi in cps:
            t = hkb.term(bi)
            dl, sl_ = lib.static_len(hkb, t['a'][0]), lib.static_len(hkb, t['a'][1])
            if dl is None or dl != sl_:
                bad.append('%s: destination %s bytes, source %s bytes' % (hkb.loc(bi), dl, sl_))
        ctx.ob('6k key-bytes-copied-with-fixed-lengths', 'K7-panic-audit', hkb.path,
               'both sides of every copy_from_slice in hash_key have the same length by construction (constant sub-ranges / fixed-size arrays), whatever the length of the key',
               not bad, '; '.join(bad) + ' (None = depends on the key length)' if bad else '%d copies' % len(cps))
    lib.callers_confined(ctx, '6a key-hashers-confined', F, ['re:^blake2::', 're:Blake2bMac', 're:siphasher::sip128::', 're:SipHasher13'],
                         {'column::hash_key'}, 'only column::hash_key touches the key-hash primitives (Blake2bMac / SipHasher13-128); the ref-count table hashes addresses, not keys',
                         required=['column::hash_key'])
    if hkb:
        # whatever enters a digest in hash_key is the whole key: a digest over a sub-range makes keys that differ only outside it one key
        dg = [bi for bi, t in hkb.calls() if bi in hkb.normal_blocks() and call_matches(t, ['re:as std::hash::Hasher>::write$', 're:digest::Update>::update$', 're:::update$', 're:Hasher::write$'])]
        ctx.ob('6m0 digest-input-sites', 'anchor', hkb.path, 'the digest inputs of hash_key were found (siphash for uniform keys, blake2 otherwise)', len(dg) >= 2, str(dg))
        for i, x in enumerate(dg):
            t = hkb.term(x)
            a = t['a'][1] if len(t['a']) > 1 else None
            sl = backward_slice(hkb, [op_place(a)]) if a is not None and op_place(a) is not None else None
            sub = sorted(c for c in (sl.calls if sl else []) if re.search(r'ops::Index(Mut)?<I>.*::index(_mut)?$|::get$|split_at|::first_chunk|::chunks', c)) if sl else []
            ok = sl is not None and 1 in sl.params and not sub
            ctx.ob('6m digest-covers-the-whole-key #%d' % i, 'K4-provenance', hkb.path, 'the bytes fed to the key digest are the key parameter itself, not a sub-range of it (keys longer than the fixed head stay distinct)',
                   ok, 'digest input %s' % ('is a sub-range: ' + ', '.join(sub) if sub else 'does not derive from the key parameter'), hkb.loc(x))
    hk = sorted(F.direct_callers_of('column::hash_key'))
    allowed = {'column::HashColumn::hash_key', 'db::IndexedChangeSet::push', 'db::DbInner::commit_changes'}
    # (a helper or closure reachable only through an allowed function counts as that function)
    stray = [h for h in hk if not h.startswith('migration::') and not (lib.strip_closures(h) in allowed or lib.confined_through(F, h, allowed))]
    ctx.ob('6b hash_key-callers', 'K4-confinement', ','.join(hk), 'reader side (HashColumn::hash_key) and writer side (IndexedChangeSet::push, commit_changes) all go through column::hash_key',
           not stray and 'column::HashColumn::hash_key' in hk and any(lib.strip_closures(h) == 'db::IndexedChangeSet::push' or lib.confined_through(F, h, {'db::IndexedChangeSet::push'}) for h in hk), str(stray or hk))
    # reads hash with the same function: DbInner::get -> HashColumn::hash_key
    for fn in ('db::DbInner::get', 'db::DbInner::get_size'):
        b = ctx.body(fn)
        if b:
            hs = b.call_sites('column::HashColumn::hash_key')
            gs = lib.sites_reaching(b, ['db::CommitOverlay::get', 'db::CommitOverlay::get_size'])
            lib.precedes(ctx, '6c key-hashed-before-lookup %s' % fn, b, hs, [g for g in gs if any(call_matches(b.term(g), ['re:and_then']) for _ in [0])] or gs[:1],
                         'the key is hashed with the column hasher before the overlay lookup in the hash arm')
    shared.one_salt_per_handle(ctx, '8')
    shared.page_search_hands_out_only_compared_entries(ctx, '10a')   # F67
    shared.index_entries_stored_whole(ctx, '11')   # F77: ... and an entry changes as a whole under the search
    shared.removal_planned_in_order(ctx, '9')   # a tree inserted after its removal in one transaction is there once the commit was processed (F63)
