"""C10 - a committed tree reads back exactly; shared nodes live until unreferenced (structural part)."""
import re
import core, lib
from core import call_matches, call_names, op_place, op_local, backward_slice
from props import C02, shared

LEVEL = 'other'
FLOOR = 44      # 70% of the 64 obligation instances derived on the tree the rules were last reviewed against
EXPLANATION = ('Representability: every usize->u8 narrowing of a child count on the packing path is guarded by a range check whose failing edge is an error '
               'exit, or lies in a function only reached after such a check; packing and the two unpackers agree on count-last / 8-byte little-endian '
               'addresses and on their error checks; the dereference walk takes the tree write guard and reads a node\'s children before it can free it; '
               'slot claims update filled/last_removed under the free-list lock and mark the header dirty; in-memory ref-count cache and free lists are '
               'built only after log replay.')
EXPLANATION += ' Added: caches are built after replay; address overlay removals are owner-guarded; recursion audit (the removal walk keeps an explicit stack); no constant-range slice of a client key; keyed changes are planned before node changes; known finding F21 (tree lock taken after the check).'
ASSUMPTIONS = ['tree shape/sharing semantics over histories are not decided', 'reviewed: claim_node narrows only after prepare_node validated the same node (order obligation 1c)', 'unwind edges ignored']
TRUSTED = ['rustc MIR construction (nightly)', 'pdb-facts driver', 'rule engine /verif/rules', 'anchor tables in props/C10.py']

PACKERS = ['column::HashColumn::claim_tree_values', 'column::HashColumn::prepare_node', 'column::HashColumn::claim_node', 'column::HashColumn::prepare_children',
           'column::HashColumn::claim_children_to_data', 'column::packed_node_size']
# narrowing sites that rely on a check made earlier on the same data: function -> reason
NARROW_AFTER_CHECK = {
    'column::HashColumn::claim_node': 'claim_node is reached only through claim_children_to_data, after prepare_children/prepare_node validated every new node of the tree (obligation 1c)',
}


def run(ctx):
    node_changes_are_append_only(ctx, '11')
    every_packed_occurrence_is_counted(ctx, '11')
    shared.borrow(ctx, 'C03', '8y ', '10y postponed-removal-keeps-its-place-in-the-log-order')   # F59 also leaves the entries of the removed tree allocated after a crash
    shared.borrow(ctx, 'C11', '3x2 ', '10x2 later-writes-of-the-root-wait-for-its-pending-removal')   # F49 also breaks the slot accounting / the content of the re-inserted tree
    shared.walk_frees_children_of_the_root_found(ctx, '10w')   # F69
    F = ctx.F
    # nodes of a committed tree stay readable through the overlays: an entry leaves only with the id that owns it
    shared.owner_id_removal(ctx, '6')
    # a node count that drops to "no entry" is removed from EVERY ref-count table that may still hold the address (the current one
    # and each older table queued for re-indexing): a stale entry in an old table is re-read into the cache at the next open
    wre = ctx.body('column::HashColumn::write_ref_count_plan_existing')
    if wre:
        rms = [bi for bi, t in wre.calls() if bi in wre.normal_blocks() and call_matches(t, ['ref_count::RefCountTable::write_remove_plan'])]
        first = [x for x in rms if x not in wre.reaches(x) and not any(y != x and x in wre.reaches(y) for y in rms)]
        loops = [lp for lp in lib.for_loops_over(wre, '.Reindex.queue') if any(x in wre.reachable_from([lp['some']], removed={lp['head']}) for x in rms)]
        sweep = set(lp['head'] for lp in loops)
        # the sweep may live in a helper: a call that hands the reindex queue to a function containing such a loop
        for bi, t in wre.calls():
            for n in call_names(t):
                hb = F.body(n)
                if bi in wre.normal_blocks() and hb is not None and hb is not wre and lib.confined_through(F, n, {wre.path}):
                    hl = [lp for lp in lib.for_loops_over(hb) if lib.sites_reaching(hb, ['ref_count::RefCountTable::write_remove_plan'])]
                    if hl and any('.Reindex.queue' in lib.receiver_fields(wre, t, ai) or 'Reindex' in str(wre.locals[op_place(a)[0]]) for ai, a in enumerate(t['a']) if op_place(a) is not None):
                        sweep.add(bi)
        ctx.ob('8a0 removal-anchors', 'anchor', wre.path, 'the removing branch removes the found entry and sweeps the queued tables in a loop', len(first) >= 1 and len(sweep) >= 1, 'first %s sweep %s' % (first, sorted(sweep)))
        for x in first:
            w = wre.find_path(list(wre.succ(x)), wre.return_blocks(), removed=sweep | core.error_exit_blocks(wre))
            ctx.ob('8a stale-counts-swept-from-every-queued-table', 'K1-must-pass', wre.path,
                   'after the entry was removed from the table it was found in, every success path runs the sweep over the queued older ref-count tables (not only when the entry came from an old table)',
                   w is None and bool(sweep), '' if w is None else 'path without the sweep: ' + lib.short_path(wre, w), wre.loc(x))
    itd = F.body('column::HashColumn::init_table_data')
    if itd:
        lib.empty_slot_skipped(ctx, '7a empty-slot-skipped-not-terminal', itd, 'building the in-memory reference-count cache walks every slot of every ref-count page (an empty slot does not end the page)')
    n = 0
    for fn in PACKERS:
        b = ctx.body(fn)
        if not b:
            continue
        for bi in sorted(b.normal_blocks()):
            for si, s in enumerate(b.blocks[bi]['s']):
                if s['k'] == 'assign' and s['r']['k'] == 'cast' and s['r']['ck'] == 'IntToInt' and s['r']['from'] == 'usize' and s['r']['to'] == 'u8':
                    sl = backward_slice(b, [op_place(s['r']['a'][0])]) if op_place(s['r']['a'][0]) else None
                    if not sl or not any(re.search(r'Vec.*::len$', c) for c in sl.calls) or '.NewNode.children' not in sl.fields:
                        continue
                    n += 1
                    # locally guarded: the cast is reached only on the edge where len <= 255
                    ok = False
                    for p in lib.guard_predicates(b, bi):
                        if p['const'] == 255 and p['rel'] in ('Le',) and '.NewNode.children' in p['fields']:
                            ok = True
                        if p['const'] == 256 and p['rel'] in ('Lt',) and '.NewNode.children' in p['fields']:
                            ok = True
                    why = ''
                    if not ok and fn in NARROW_AFTER_CHECK:
                        ok = True
                        why = NARROW_AFTER_CHECK[fn]
                    ctx.ob('1a child-count-narrowing-guarded %s' % fn, 'K7-narrowing-cast', fn,
                           'children.len() is narrowed to the one-byte child count only where len <= 255 is established (else the node would be stored with a wrapped count)' + (': ' + why if why else ''),
                           ok, 'unguarded `children.len() as u8`', b.loc(bi, si))
    ctx.ob('1b narrowing-sites-found', 'anchor', '-', 'the packing path narrows child counts in at least three places', n >= 3, 'found %d' % n)
    ct = ctx.body('column::HashColumn::claim_tree_values')
    if ct:
        pc = ct.call_sites('column::HashColumn::prepare_children')
        cc = ct.call_sites('column::HashColumn::claim_children_to_data')
        ce = ct.call_sites('table::ValueTable::claim_entries')
        lib.precedes(ctx, '1c validated-before-claimed', ct, pc, cc + ce, 'every new node is validated (prepare_children -> prepare_node) before any slot is claimed or data is packed')
        for s in cc + ce:
            lib.result_guards(ctx, '1d claim-only-if-valid bb-of:%s' % ct.term(s).get('r'), ct, pc, s, 'claiming happens only on the Ok outcome of the validation walk')
    pn = ctx.body('column::HashColumn::prepare_node')
    if pn:
        rec = pn.call_sites('column::HashColumn::prepare_children')
        ctx.ob('1e validation-recurses', 'K9-agreement', pn.path, 'prepare_node recurses into the children of the node', len(rec) == 1, '')
    # 2. packing / unpacking agreement
    ud, uc = ctx.body('column::unpack_node_data'), ctx.body('column::unpack_node_children')
    if ud and uc:
        def prof(b):
            consts = sorted(set(s['r']['a'][1]['i'] for blk in b.blocks for s in blk['s'] if s['k'] == 'assign' and s['r']['k'] == 'bin' and len(s['r']['a']) == 2 and 'i' in s['r']['a'][1] and s['r']['op'] in ('Mul', 'MulWithOverflow', 'Sub', 'SubWithOverflow', 'Add', 'AddWithOverflow')))
            return {'errs': len(core.error_exit_blocks(b)), 'from_le': len(b.call_sites('re:u64::from_le_bytes$', 'core::num::<impl u64>::from_le_bytes')), 'consts': consts}
        a, b2 = prof(ud), prof(uc)
        ctx.ob('2a unpackers-agree', 'K9-agreement', ud.path, 'unpack_node_data and unpack_node_children make the same checks (empty, too short) and decode addresses the same way (8-byte LE)', a == b2 and a['errs'] == 2 and a['from_le'] == 1 and 8 in a['consts'], '%s vs %s' % (a, b2))
    cd = ctx.body('column::HashColumn::claim_children_to_data')
    if cd:
        le = cd.call_sites('re:u64::to_le_bytes$', 'core::num::<impl u64>::to_le_bytes')
        ctx.ob('2b addresses-packed-le', 'K9-agreement', cd.path, 'child addresses are appended as u64 little-endian', len(le) == 1, '')
    # (the packing of a claimed node - data, child addresses, count byte - may be shared by the root and the inner nodes through a helper)
    hosts = []
    for fn, b in sorted(F.bodies.items()):
        if fn.startswith('column::HashColumn::') and '{closure' not in fn:
            push = [bi for bi, t in b.calls() if bi in b.normal_blocks() and call_matches(t, ['re:Vec.*::push$']) and len(t['a']) > 1 and op_local(t['a'][1]) is not None and b.locals[op_local(t['a'][1])] == 'u8']
            cc2 = b.call_sites('column::HashColumn::claim_children_to_data')
            if push and cc2:
                hosts.append(fn)
                lib.precedes(ctx, '2c count-byte-last %s' % fn, b, cc2, push, 'the child-count byte is appended after the child addresses (the unpackers read it from the end)')
    for fn in ('column::HashColumn::claim_tree_values', 'column::HashColumn::claim_node'):
        if F.body(fn) and fn not in hosts:
            reach = set(F.transitive_callees([fn]))
            ctx.ob('2c count-byte-last %s' % fn, 'K2-order', fn, 'the child-count byte is appended after the child addresses (the unpackers read it from the end) - in the helper that packs the node',
                   bool(set(hosts) & reach), 'no packing site (child addresses, then the count byte) is reached from %s' % fn)
    # 3/4. dereference walk
    wd = ctx.body('db::IndexedChangeSet::write_dereference_children_plan')
    if wd:
        ctx.ob('3a walk-needs-write-guard', 'K5-type', wd.path, 'write_dereference_children_plan takes the tree RwLockWriteGuard by reference (cannot be called without exclusive access)',
               'RwLockWriteGuard' in (wd.d.get('sig') or '') and 'TreeReader' in (wd.d.get('sig') or ''), wd.d.get('sig', '')[:160])
        gn = [bi for bi, t in wd.calls() if call_matches(t, ['db::TreeReader::get_node_children', 're:TreeReader.*::get_node_children$'])]
        dr = wd.call_sites('column::HashColumn::write_address_dec_ref_plan')
        lib.precedes(ctx, '4a children-read-before-node-can-be-freed', wd, gn, dr, 'a node\'s children are read before its reference count is decremented (the decrement may free and recycle the slot)')
        lib.never_after(ctx, '4b no-read-after-free-in-iteration', wd, dr, [], 'placeholder', ) if False else None
    wpl = ctx.body('db::IndexedChangeSet::write_plan')
    if wpl:
        calls = wpl.call_sites('db::IndexedChangeSet::write_dereference_children_plan')
        for s in calls:
            live = lib.guards_live_at(wpl, s)
            ok = any('RwLockWriteGuard' in ty and 'TreeReader' in ty for l, ty, cls in live)
            ctx.ob('3b walk-runs-under-tree-write-lock', 'K5-held-at', wpl.path, 'the tree write guard is live across the dereference walk', ok, 'live: %s' % [ty[:60] for l, ty, c in live], wpl.loc(s))
    # 5. slot claims under the free-list lock
    for fn in ('table::ValueTable::claim_entries', 'table::ValueTable::next_free', 'table::ValueTable::clear_slot'):
        b = ctx.body(fn)
        if not b:
            continue
        some = lib.prune_option_field(b, '.ValueTable.free_entries', keep_some=True)
        stores = [bi for bi, t in b.calls() if call_matches(t, lib.ATOMIC_STORE) and ({'.ValueTable.filled', '.ValueTable.last_removed'} & lib.receiver_fields(b, t, 0))]
        if not stores:
            # the stores were moved into a closure of the function (iterator chain): the call that is handed the closure stands for them
            for cl in lib.bodies_of(F, fn)[1:]:
                if any(call_matches(t, lib.ATOMIC_STORE) and ({'.ValueTable.filled', '.ValueTable.last_removed'} & lib.receiver_fields(cl, t, 0)) for _, t in cl.calls()):
                    stores += [u[1] for u in lib.closure_use_sites(F, cl) if u[0] is b]
        if not stores:
            # ... or into a private helper of the function: its call stands for them
            for hb in lib.family(F, fn):
                if hb is not b and '{closure' not in hb.path and any(call_matches(t, lib.ATOMIC_STORE) and ({'.ValueTable.filled', '.ValueTable.last_removed'} & lib.receiver_fields(hb, t, 0)) for _, t in hb.calls()):
                    stores += b.call_sites(hb.path)
        ctx.ob('5a slot-counter-stores %s' % fn, 'anchor', fn, 'the function updates filled / last_removed', len(stores) >= 1 and (bool(some) or bool(lib.must_sites(b, ['re:RwLock.*::write$']))), 'stores %s prune %s' % (stores, len(some)))
        for i, s in enumerate(stores):
            live = lib.guards_live_at(b, s, removed_edges=some)
            ok = any('RwLockWriteGuard' in ty and 'table::FreeEntries' in ty for l, ty, cls in live)
            ctx.ob('5b store-under-free-list-lock %s #%d' % (fn, i), 'K5-held-at', fn, 'with a free-entry list present, filled / last_removed change only while its write guard is held (list and header stay in step)', ok,
                   'live: %s' % [ty[:70] for l, ty, c in live], b.loc(s))
        dh = [bi for bi, t in b.calls() if call_matches(t, lib.ATOMIC_STORE) and '.ValueTable.dirty_header' in lib.receiver_fields(b, t, 0)]
        for i, s in enumerate(stores):
            lib.must_pass(ctx, '5c header-marked-dirty %s #%d' % (fn, i), b, dh, 'after filled / last_removed changed every success path marks the header dirty (complete_plan then logs it)', sources=[s])
    C02.replay_before_service(ctx, '6')
    # 7. no walk over a stored tree recurses on the worker's stack
    shared.recursion_audit(ctx, '7', ['db::IndexedChangeSet', 'column::HashColumn::prepare', 'column::HashColumn::claim', 'multitree::'])
    shared.no_fixed_slice_of_client_key(ctx, '7', ['db::IndexedChangeSet', 'db::DbInner', 'column::HashColumn'])
    shared.tree_lock_decision(ctx, '8')
    # free-list mirror of the node tables moves in step with the on-disk head
    shared.free_list_mirror_in_step(ctx, '5m')
    # 9. keyed changes and tree removals of one commit are planned in the order they were given
    shared.removal_planned_in_order(ctx, '9')



def node_changes_are_append_only(ctx, p):
    """The flattening of a new tree produces one NodeChange per new node and one IncrementReference per OCCURRENCE of an existing
    node in a child list; the removal walk later decrements once per occurrence. The list is only ever appended to on its way from
    the flattening to the change set: a filter, de-duplication or removal in between makes the two sides disagree (a node named
    twice gets one reference, loses two, and is freed under a live tree)."""
    F = ctx.F
    REMOVERS = re.compile(r'Vec::<.*>::(retain|retain_mut|dedup|dedup_by|dedup_by_key|remove|swap_remove|truncate|drain|clear|pop|split_off|extract_if)$')
    roots = ['column::HashColumn::claim_tree_values', 'db::DbInner::commit_changes', 'db::IndexedChangeSet::push_node_change']
    bodies = []
    for r in roots:
        bodies += lib.family(F, r)
    seen = set()
    bad = []
    nvec = 0
    for b in bodies:
        if b.path in seen:
            continue
        seen.add(b.path)
        vecs = [l for l, ty in enumerate(b.locals) if re.search(r'Vec<db::NodeChange', str(ty))]
        nvec += len(vecs)
        for bi, t in b.calls():
            if bi not in b.normal_blocks() or not t['a'] or op_place(t['a'][0]) is None:
                continue
            nm = t.get('r') or t.get('f') or ''
            if REMOVERS.search(nm) and re.search(r'Vec<db::NodeChange', str(b.locals[op_place(t['a'][0])[0]])):
                bad.append('%s in %s at %s' % (nm.split('::')[-1], b.path, b.loc(bi)))
            # an iterator chain that filters the list into a new one
            if re.search(r'Iterator::(filter|filter_map|skip|skip_while|take|take_while|step_by)$', nm):
                sl = backward_slice(b, [op_place(t['a'][0])])
                if any(re.search(r'Vec<db::NodeChange', str(b.locals[l])) for l in sl.locals if l < len(b.locals)) and 'partition' not in nm:
                    bad.append('%s over the node changes in %s at %s' % (nm.split('::')[-1], b.path, b.loc(bi)))
    ctx.ob(p + 'a node-changes-append-only', 'K4-confinement', 'column::HashColumn::claim_tree_values',
           'between the flattening of a tree and the change set nothing removes, filters or de-duplicates node changes (one IncrementReference per occurrence of an existing node, as the removal walk decrements)',
           not bad and nvec >= 2, '; '.join(bad) or 'node-change vectors seen: %d' % nvec)


def every_packed_occurrence_is_counted(ctx, p):
    """The flattening packs the address of an EXISTING child once per occurrence in a child list, and the removal walk decrements once per
    packed address. So on the `Existing` arm of every match on a NodeRef in the flattening, the increment may be skipped only on the
    append_only edge (such a column never removes): a skip that depends on anything else - the position in the list, an "already seen"
    set - gives a node listed twice one reference and takes two away (freed under a live tree)."""
    F = ctx.F
    adt = F.adts.get('multitree::NodeRef')
    ex = [i for i, v in enumerate(adt['variants']) if v.get('name') == 'Existing'] if adt else []
    ctx.ob(p + 'b0 noderef-anchor', 'anchor', 'multitree::NodeRef', 'NodeRef has a variant Existing', len(ex) == 1, str(adt and [v.get('name') for v in adt['variants']]))
    if len(ex) != 1:
        return
    ex = ex[0]
    INC = 'Adt:db::NodeChange::IncrementReference'

    def builds_inc(b):
        return [bi for bi in b.normal_blocks() if any(st['k'] == 'assign' and st['r']['k'] == 'agg' and st['r'].get('ak') == INC for st in b.blocks[bi]['s'])]
    fam = lib.family(F, 'column::HashColumn::claim_tree_values')
    helpers = set(b.path for b in F.bodies.values() if builds_inc(b) and not any(bi for bi in b.normal_blocks() if b.term(bi)['k'] == 'switch' and _noderef_switch(b, bi)))
    n = 0
    for b in fam:
        for bi in sorted(b.normal_blocks()):
            t = b.term(bi)
            if t['k'] != 'switch' or not _noderef_switch(b, bi):
                continue
            arm = [tg for v, tg in zip(t['vals'], t['ts']) if v == ex]
            if not arm and len(t['ts']) == len(t['vals']) + 1 and len(adt['variants']) == len(t['vals']) + 1:
                arm = [t['ts'][-1]]        # Existing is the otherwise edge
            if not arm:
                continue
            other = set(t['ts']) - set(arm)
            inc = set(builds_inc(b)) | set(x for x, tt in b.calls() if x in b.normal_blocks() and any(nm in helpers for nm in call_names(tt)))
            # does this match flatten at all? (the arm or the code after it packs / returns the address: the new-node arm claims a node)
            if not inc and not any(call_matches(tt, ['re:HashColumn::claim_node$']) for _, tt in b.calls()):
                continue
            n += 1
            heads = set(lp['head'] for lp in lib.for_loops_over(b))
            ends = set(b.return_blocks()) | heads | set(x for x, tt in b.calls() if call_matches(tt, ['re:u64::to_le_bytes$', 'core::num::<impl u64>::to_le_bytes']))
            skip_ok = lib.prune_bool_field(b, '.HashColumn.append_only', False) | lib.prune_bool_field(b, '.TablesRef.append_only', False)
            w = b.find_path(arm, ends, removed=inc | core.error_exit_blocks(b) | (other - set(arm)), removed_edges=frozenset(skip_ok))
            ctx.ob(p + 'b every-packed-occurrence-is-counted %s' % b.path, 'K3-guard', b.path,
                   'on the Existing arm of the flattening every occurrence of an existing child pushes an IncrementReference; the only edge that skips it is the test of append_only (the removal walk decrements once per packed address)',
                   w is None and bool(inc), ('an occurrence is packed without its increment: ' + lib.short_path(b, w)) if w is not None else ('no increment on the arm' if not inc else ''), b.loc(arm[0]))
    ctx.ob(p + 'b1 flattening-match-anchor', 'anchor', 'column::HashColumn::claim_tree_values', 'the flattening matches on NodeRef where it packs child addresses', n >= 1, 'matches found: %d' % n)


def _noderef_switch(b, bi):
    d = lib.switch_def(b, bi)
    if not d or d[2] != 'assign' or d[3]['r']['k'] != 'discr':
        return False
    return re.match(r'^(&(mut )?)*multitree::NodeRef$', str(b.locals[d[3]['r']['p'][0]])) is not None
