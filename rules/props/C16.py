"""C16 - an I/O error stops the writer cleanly and never corrupts the database (error discipline core)."""
import re
import core, lib, errdisc
from props import shared, C02
from core import call_matches, call_names, op_place, backward_slice

CFG_ONLY = ['9s stage-failure-recorded db::Db::enact_logs', '9s stage-failure-recorded db::Db::process_commits', '9s stage-failure-recorded db::Db::flush_logs', '9s stage-failure-recorded db::Db::clean_logs', '9s stage-failure-recorded db::Db::process_reindex']      # the stepping API exists only with the `instrumentation` feature
LEVEL = 'other'
FLOOR = 40
EXPLANATION = ('K6a over the whole crate: every call site whose result type carries parity_db::Error / io::Error / a thread result is classified; it must be '
               'propagated (`?`, returned), handed to store_err, unwrapped (audited separately) or be one of the reviewed locally-handled sites; a result that is '
               'dropped or only inspected (logged and ignored) anywhere else is reported. Plus: a background error is stored once, requests shutdown and closes '
               'the commit gate; with the error slot set the shutdown path re-enters no pipeline stage; unwrap/expect on error-carrying results are reviewed.')
EXPLANATION += ' Added: logs are retired / treated as header-less only on UnexpectedEof; metadata is replaced atomically; a torn appended record is never handed over; failed cleanup keeps the queue order and destroys no handle; known finding F48 (stepping-mode enact failure not recorded; instrumentation configuration only).'
ASSUMPTIONS = ['"reads keep returning committed data" and the recovered content after the fault are not decided',
               'injection completeness (which I/O calls bypass try_io!) is informational only', 'unwind edges ignored']
TRUSTED = ['rustc MIR construction (nightly)', 'pdb-facts driver', 'rule engine /verif/rules', 'reviewed site tables in props/C16.py']

# sites whose Result is examined locally instead of propagated: (function, callee regex) -> reason
LOCAL_HANDLING = [
    ('db::DbInner::enact_logs', r"LogReader::<'a>::next$", 'validation pass: a read/parse error ends replay of this file (returns Ok(false)); the sequence guard rejects what follows'),
    ('db::DbInner::enact_logs', r'Option::<T>::map_or_else$', 'validation pass: an invalid record discards the remaining logs (clear_replay_logs, Ok(false))'),
    ('db::DbInner::kill_logs', r'std::fs::File::create$', 'statistics text file at shutdown: failure is logged; not database content'),
    ('db::DbInner::kill_logs', r'DbInner::write_stats_text$', 'statistics text file at shutdown: failure is logged; not database content'),
    ('db::Db::drop_inner', r'JoinHandle::<T>::join$', 'Drop cannot return an error: a panicked worker is logged'),
    ('db::Db::drop_inner', r'DbInner::kill_logs$', 'Drop cannot return an error: logged; logs are left in place for the next open'),
    ('*', r'File::unlock$|FileExt::unlock$', 'releasing the advisory lock at shutdown cannot be reported: the lock dies with the descriptor anyway'),
    ('migration::migrate::{closure#1}', r'Db::commit_raw$', 'iteration is aborted (returns false); the only possible error is a persistent Background error, which the final commit_raw of migrate reports'),
    ('migration::migrate::{closure#2}', r'std::fs::metadata$', 'existence test of the temporary directory'),
    ('column::HashColumn::iter_values::{closure#0}', r'Compress::decompress$', 'value iteration callback: stops the iteration (returns false)'),
    ('column::HashColumn::iter_index_internal', r'ValueTable::get_with_meta$', 'diagnostic iteration: the error is handed to the callback as a Corrupted item'),
    ('column::HashColumn::iter_index_internal', r'ValueTable::dump_entry$', 'diagnostic dump of a corrupted entry (.ok())'),
    ('column::HashColumn::iter_index_fast', r'ValueTable::get_with_meta$', 'diagnostic iteration: the error is handed to the callback as a Corrupted item'),
    ('column::HashColumn::iter_index_fast', r'ValueTable::dump_entry$', 'diagnostic dump of a corrupted entry (.ok())'),
    ('column::HashColumn::dump', r'ValueTable::check_free_refs$', 'diagnostic dump: logged'),
]
DROPPED_OK = [
    ('table::ValueTable::init_with_entry', r'TableFile::remove$', 'already returning the original initialisation error; removing the half-created file is best effort'),
]
STORE_ERR = 'db::DbInner::store_err'
# unwrap/expect on an error-carrying Result
UNWRAP_OK = [
    ('compress::snappy::Snappy::compress', r'Write::write_all$', 'writing into an in-memory Vec cannot fail (no I/O)'),
    ('db::DbInner::get_tree', r'DbInner::get$', 'existence test of the tree root; get fails only with Corruption/Compression of stored data (no try_io! on the mmap read path)'),
    ('db::IndexedChangeSet::write_plan', r'DbInner::get_tree$', 'get_tree is called with check_existence=false: its only error is InvalidConfiguration for a non-multitree/btree column, excluded when the change was accepted'),
    ('stats::', r'Cursor<.*> as std::io::(Read|Write)>::(read_exact|write_all)$', 'fixed-size in-memory cursor over the statistics area'),
]


def run(ctx):
    shared.session_ended_with_close_before_files_change(ctx, '12')    # F79
    F = ctx.F
    # reads keep returning committed data after a failed write: overlay entries leave only after the record was published successfully
    shared.handover_order(ctx, '7')
    shared.metadata_replaced_atomically(ctx, '8')
    shared.absence_is_not_decided_by_a_probe(ctx, '11')    # F78: a failing stat is not "no database here"
    C02.absent_only_if_not_found(ctx, '10')    # a table file left between create and a failed set_len is completed at the next open (an I/O error does not make the database unopenable)
    n = prop = stored = unw = local = 0
    local_counts = {}
    for b, bi, t in errdisc.fallible_sites(F):
        n += 1
        s = errdisc.classify(b, bi, t)
        callee = (t.get('r') or t.get('f') or '?')
        if 'try' in s or 'ret' in s:
            prop += 1
            continue
        if ('call:' + STORE_ERR) in s:
            stored += 1
            continue
        if 'unwrap' in s:
            unw += 1
            hit = [i for i, (fn, rx, why) in enumerate(UNWRAP_OK) if (b.path.startswith(fn) or lib.site_in(F, fn, b.path)) and re.search(rx, callee)]
            ctx.ob('4 unwrap %s <- %s' % (b.path, callee), 'K7-unwrap-audit', b.path,
                   'unwrap/expect on a Result carrying a database or I/O error is reviewed (a panic on the error path is not a clean stop)' + (': ' + UNWRAP_OK[hit[0]][2] if hit else ''),
                   bool(hit), 'unreviewed unwrap of %s' % callee, b.loc(bi))
            continue
        if not s:
            hit = [i for i, (fn, rx, why) in enumerate(DROPPED_OK) if lib.site_in(F, fn, b.path) and re.search(rx, callee)]
            ctx.ob('1 dropped %s <- %s' % (b.path, callee), 'K6a-no-dropped-error', b.path,
                   'the result of a fallible call is never discarded' + (' (reviewed exception: %s)' % DROPPED_OK[hit[0]][2] if hit else ''), bool(hit),
                   'the Result of %s is dropped without being looked at' % callee, b.loc(bi))
            continue
        # examined locally
        local += 1
        hit = [i for i, (fn, rx, why) in enumerate(LOCAL_HANDLING) if lib.site_in(F, fn, b.path) and re.search(rx, callee)]
        ctx.ob('1 local %s <- %s' % (b.path, callee), 'K6a-no-dropped-error', b.path,
               'a fallible result that is neither propagated nor stored is handled at a reviewed site' + (': ' + LOCAL_HANDLING[hit[0]][2] if hit else ''), bool(hit),
               'the Result of %s is only inspected (%s): the error does not leave the success path' % (callee, ','.join(sorted(x for x in s if 'fmt' not in x))[:120]), b.loc(bi))
    ctx.info['C16.fallible_call_sites'] = {'total': n, 'propagated': prop, 'to_store_err': stored, 'unwrapped': unw, 'handled_locally': local}
    ctx.ob('1 coverage', 'K6a-no-dropped-error', '-', 'the classification covered the fallible call sites of the crate (>= 1200 on the pinned tree)', n >= 1200 and prop >= 1100, 'sites %d propagated %d' % (n, prop))
    # ------------------------------------------------------------ 2. the error slot and the gate
    se = ctx.body('db::DbInner::store_err')
    if se:
        asg = [bi for bi in se.normal_blocks() for s in se.blocks[bi]['s'] if s['k'] == 'assign' and s['r']['k'] == 'agg' and s['r']['ak'] == 'Adt:std::option::Option::Some' and 'Arc<error::Error>' in se.locals[s['p'][0]]]
        ctx.ob('2a store_err-stores', 'anchor', se.path, 'store_err builds Some(Arc<Error>)', len(asg) >= 1, '')
        for a in asg[:1]:
            lib.cond_guarded(ctx, '2b first-error-wins', se, a, 'the slot is written only if it is empty (the first error is kept)', fields=['.DbInner.bg_err'], calls=['re:Option.*::is_none$'])
            lib.held_at(ctx, '2c slot-written-under-lock', se, a, '.DbInner.bg_err', 'the slot is written with its mutex held')
        sd = se.call_sites('db::DbInner::shutdown')
        lib.precedes(ctx, '2d shutdown-after-store', se, asg, sd, 'shutdown is requested after the error was recorded')
    kl = ctx.body('db::DbInner::kill_logs')
    if kl:
        some = lib.prune_option_field(kl, '.DbInner.bg_err', keep_some=True)
        stages = kl.call_sites('db::DbInner::enact_logs', 'db::DbInner::process_commits', 'db::DbInner::flush_logs')
        w = kl.find_path([0], set(stages), removed_edges=some) if some else ['?']
        ctx.ob('2e no-stage-reentered-after-error', 'K1-must-pass', kl.path,
               'with a background error recorded, kill_logs re-enters no pipeline stage (the log reader may be in an inconsistent state)', bool(some) and w is None and len(stages) >= 6,
               '' if w is None else lib.short_path(kl, w))
    if kl:
        # ... and deletes no log file except the enacted ones that clean_all_logs retires: the file the failed applier stopped in
        # (Log.reading) holds the half-applied record and everything behind it - synced commits that the next open has to replay
        # (seed C16-error-shutdown-deletes-reading-log: Log::kill_logs unlinks that file along with the pool)
        some = lib.prune_option_field(kl, '.DbInner.bg_err', keep_some=True)
        unlinkers = set(F.transitive_callers(F.direct_callers_of('std::fs::remove_file'))) | set(F.direct_callers_of('std::fs::remove_file'))
        dels = [bi for bi, t in kl.calls() if bi in kl.normal_blocks() and any(n in unlinkers and n.startswith('log::') for n in call_names(t))]
        w = kl.find_path([0], set(dels), removed_edges=some) if some else ['?']
        ctx.ob('2e2 no-log-file-deleted-after-error', 'K1-must-pass', kl.path,
               'with a background error recorded, kill_logs calls nothing of the log that unlinks files (the log being read holds synced, unapplied records): only clean_all_logs retires what was enacted',
               bool(some) and w is None and len(dels) >= 1, 'no unlinking call of the log found in kill_logs at all' if not dels else ('' if w is None else lib.short_path(kl, w)))
    cr = ctx.body('db::DbInner::commit_raw')
    if cr:
        some = lib.prune_option_field(cr, '.DbInner.bg_err', keep_some=True)
        gate, _ = lib.option_gate_sites(cr, '.DbInner.bg_err', 'Adt:error::Error::Background')
        w = cr.find_path([0], cr.return_blocks(), removed=set(gate), removed_edges=some) if some and gate else ['?']
        ctx.ob('2f later-commits-refused', 'K1-must-pass', cr.path, 'with a background error recorded every path through commit_raw returns Error::Background', w is None, '' if w is None else lib.short_path(cr, w))
    # ------------------------------------------------------------ 2g. which I/O error may be taken for "end of data"
    shared.eof_is_the_only_end_of_data(ctx, '2')
    # a failed enactment leaves the log reader in the middle of a record. kill_logs (Db::drop) resumes enactment unless bg_err is
    # set - so whoever calls DbInner::enact_logs outside the shutdown / open paths has to record its failure there. The workers do
    # (their result goes to store_err); the stepping wrapper of the instrumentation build hands the error to its caller only (F48)
    # (F71: the same holds for every stage - a failed log write leaves reference counts changed in memory that the record never
    # recorded; the shutdown path must not plan on)
    STAGES = ['db::DbInner::enact_logs', 'db::DbInner::process_commits', 'db::DbInner::flush_logs', 'db::DbInner::clean_logs', 'db::DbInner::process_reindex']
    own = {'db::DbInner::kill_logs', 'db::DbInner::replay_all_logs', 'db::DbInner::open', 'db::Db::open_inner', 'db::DbInner::clean_all_logs'} | set(STAGES)
    callers = sorted(set(c for st in STAGES for c in F.direct_callers_of(st)))
    n9 = 0
    for c in callers:
        if lib.strip_closures(c) in own:
            continue
        n9 += 1
        # the failure is recorded if the caller (or the function that runs it, for a worker body) hands a Result to store_err,
        # or passes the stage's result to a helper that does
        up = {c} | set(F.transitive_callers({c}))
        rec = any(F.body(u) is not None and F.body(u).call_sites('db::DbInner::store_err') for u in up)
        cb = F.body(c)
        if not rec and cb is not None:
            for bi, t in cb.calls():
                for n in core.call_names(t):
                    hb = F.body(n)
                    if hb is not None and n not in STAGES and hb.call_sites('db::DbInner::store_err') and any('Result<' in str(cb.locals[op_place(a_)[0]]) for a_ in t['a'] if op_place(a_) is not None):
                        rec = True
        ctx.ob('9s stage-failure-recorded %s' % lib.strip_closures(c), 'K9-agreement', c,
               'a caller of a pipeline stage (enact_logs, process_commits, flush_logs, clean_logs, process_reindex) outside open / shutdown records a failure in bg_err (store_err), so that Db::drop does not run the stages again over what the failed step left half done',
               rec, 'the error is only returned to the caller; kill_logs will go on from the middle of the failed step')
    ctx.ob('9s0 stage-callers', 'anchor', 'db::DbInner', 'the callers of the pipeline stages were found (the four workers; stepping wrappers in the instrumentation build)', n9 >= 4, str(callers))
    shared.torn_record_not_handed_over(ctx, '2')        # a failed append never reaches the non-validating applier
    shared.unsynced_log_never_abandoned(ctx, '2')       # F82: a failed sync leaves the file in place as the appending file
    shared.log_handles_are_linear(ctx, '2')
    shared.failed_cleanup_keeps_queue_order(ctx, '2')
    shared.no_log_handle_destroyed_in_cleanup(ctx, '2')   # a failed truncation does not let newer logs be truncated first
    # ------------------------------------------------------------ 3. informational: I/O calls outside try_io!
    out = []
    for b in F.bodies.values():
        for bi, t in b.calls():
            if t['k'] == 'call' and re.match(r'^std::result::Result<.*, std::io::Error>$', t.get('rty', '')) and 'try_io' not in (t.get('mx') or ''):
                nm = (t.get('r') or t.get('f') or '')
                if re.match(r'^(std::fs::|memmap2::|<std::fs::File|<std::io::Buf|std::io::)', nm):
                    nxt = b.term(t['t']) if 't' in t else {}
                    if 'try_io' not in (nxt.get('mx') or ''):
                        out.append('%s: %s' % (b.path, nm))
    ctx.info['C16.io_calls_outside_try_io (informational)'] = sorted(set(out))
