"""C08 - a rejected transaction leaves no trace.
Rule K6b EFFECT-BEFORE-ERROR over the commit entry closure: no CFG path leads from an effect on
shared state to an error exit."""
import re
import core, lib
from core import call_matches, call_names, op_place, op_local, backward_slice
from props import shared

LEVEL = 'other'   # known findings F1, F2 are recorded on this tree, so the proof is not complete
FLOOR = 22      # 70% of the 32 obligation instances derived on the tree the rules were last reviewed against
EXPLANATION = ('For every body of the commit entry closure, every path from an effect on shared state (commit-overlay insert, commit-queue push, '
               'value-slot claim, to_dereference counter) to an error exit is reported, with interprocedural lifting (a call that may effect is an '
               'effect site of its caller; its own error edge counts only if the callee can fail after effecting). Plus: the background-error gate '
               'precedes every effect of commit_raw; Commit values are built only by commit_raw/defer_commit (a refused commit can never be processed).')
EXPLANATION += ' Added: Commit values are built / queued only by commit_raw, defer_commit and the log worker re-queueing part of a commit it popped; validation of the whole change set precedes publication. Known finding F2 (slots claimed before the last fallible step).'
ASSUMPTIONS = ['benign effects (reasoned, not reported): CommitQueue.record_id increment (ids only compared for equality), condvar signals, statistics, log messages',
               'persistence side is covered only by: a commit that is not queued never reaches process_commits', 'unwind edges ignored']
TRUSTED = ['rustc MIR construction (nightly)', 'pdb-facts driver', 'rule engine /verif/rules', 'effect-site table in props/C08.py']

# CFG paths that are infeasible for a reviewed reason (exact keys)
EXCEPTIONS = {
    'effect-before-error column::HashColumn::claim_tree_values claim_entries -> err-of:table::ValueTable::claim_entries':
        'ValueTable::claim_entries fails only for a table without free-entry list; claim_tree_values is reachable only for multitree columns, whose tables all have one (needs_free_entries = options.multitree, set in init_table_data before service)',
}

ROOTS = ['db::DbInner::commit', 'db::DbInner::commit_changes', 'db::DbInner::commit_raw']
INSERT = ['re:HashMap.*::insert$', 're:BTreeMap.*::insert$', 're:hash_map::.*Entry.*::(insert|or_insert|or_insert_with|insert_entry)$', 're:btree_map::.*Entry.*::(insert|or_insert|or_insert_with)$']


def direct_effects(b):
    """[(block, label)] effect sites in body b"""
    res = []
    for bi, t in b.calls():
        if bi not in b.normal_blocks():
            continue
        if call_matches(t, INSERT):
            fl = lib.receiver_fields(b, t, 0)
            if '.CommitOverlay.indexed' in fl or '.CommitOverlay.address' in fl or '.CommitOverlay.btree_indexed' in fl:
                res.append((bi, 'overlay-insert'))
            elif '.Trees.to_dereference' in fl:
                res.append((bi, 'to_dereference-insert'))
            elif b.path == 'btree::commit_overlay::BTreeChangeSet::copy_to_overlay':
                sl = backward_slice(b, [op_place(t['a'][0])]) if op_place(t['a'][0]) else None
                if sl and 2 in sl.params:
                    res.append((bi, 'overlay-insert'))
        if call_matches(t, ['std::collections::VecDeque::<T, A>::push_back', 're:VecDeque.*::(push_front|insert|extend)$']) and '.CommitQueue.commits' in lib.receiver_fields(b, t, 0):
            res.append((bi, 'queue-push'))
        if call_matches(t, ['table::ValueTable::claim_entries']):
            res.append((bi, 'claim_entries'))
    for bi in b.normal_blocks():
        for s in b.blocks[bi]['s']:
            if s['k'] == 'assign' and '.CommitQueue.bytes' in s['p'][1:]:
                res.append((bi, 'queue-bytes'))
    return res


def error_origin(b, eb):
    """label of an error exit block: the callee whose error is propagated, or the Err literal variant"""
    blk = b.blocks[eb]
    t = blk['t']
    if t['k'] == 'call' and call_matches(t, [lib.FROM_RESIDUAL]):
        # walk: residual <- (branch result).Break.0 <- Try::branch(x) <- [map_err(x)]* <- producer call
        l = op_local(t['a'][0])
        for _ in range(12):
            if l is None:
                break
            ds = b.defs().get(l, [])
            if not ds:
                break
            bi, si, kind, x = ds[-1] if len(ds) == 1 else sorted(ds, key=lambda d: d[0])[-1]
            if kind == 'assign':
                r = x['r']
                if r['k'] in ('use', 'cast') and op_local(r['a'][0]) is not None:
                    l = op_local(r['a'][0]); continue
                if r['k'] == 'agg' and r['ak'] == core.RES_ERR:
                    return 'Err(literal)'
                break
            nm = (x.get('r') or x.get('f') or '')
            if re.search(r'(Try>?::branch|::map_err|::map|::ok_or(_else)?|FromResidual)', nm):
                l = op_local(x['a'][0]) if x['a'] else None
                continue
            return 'err-of:' + nm
        return 'err-of:?'
    for s in blk['s']:
        if s['k'] == 'assign' and s['p'] == [0] and s['r']['k'] == 'agg' and s['r']['ak'] == core.RES_ERR:
            sl = backward_slice(b, [op_place(s['r']['a'][0])], through_calls=False) if op_place(s['r']['a'][0]) else None
            for l in (sl.locals if sl else []):
                for (bi, si, kind, x) in b.defs().get(l, []):
                    if kind == 'assign' and x['r']['k'] == 'agg' and x['r']['ak'].startswith('Adt:error::Error::'):
                        return 'Err(' + x['r']['ak'].split('::')[-1] + ')'
            return 'Err(?)'
    return 'err'


def continue_target(b, call_block):
    """for `call(..)?`: the block where execution continues on Ok; else the call's normal successor"""
    t = b.term(call_block)
    nxt = t.get('t')
    cur = nxt
    for _ in range(4):
        if cur is None:
            return nxt
        tt = b.term(cur)
        if tt['k'] == 'call' and call_matches(tt, [lib.TRY_BRANCH]):
            sw = tt.get('t')
            ts = b.term(sw)
            if ts['k'] == 'switch':
                for v, tg in zip(ts['vals'], ts['ts']):
                    if v == 0:
                        return tg
            return nxt
        if tt['k'] == 'call' and call_matches(tt, ['re:Result.*::map_err$']):
            cur = tt.get('t')
            continue
        return nxt
    return nxt


def run(ctx):
    F = ctx.F
    missing = [r for r in ROOTS if r not in F.bodies]
    ctx.ob('0 roots', 'anchor', '-', 'commit entry points exist', not missing, str(missing))
    closure = sorted(c for c in F.transitive_callees([r for r in ROOTS if r in F.bodies])
                     if not c.startswith(('stats::', 'display::', 'error::', 'compress::')) and '<impl' not in c)
    ctx.info['C08.closure_size'] = len(closure)
    deff = {c: direct_effects(F.body(c)) for c in closure}
    # may_effect fixed point
    may = {c for c in closure if deff[c]}
    changed = True
    while changed:
        changed = False
        for c in closure:
            if c in may:
                continue
            if any(x in may for x in F.callees(c)):
                may.add(c); changed = True
    ctx.info['C08.may_effect'] = sorted(may)
    # can_err: least fixed point - a body can return Err if it builds an Err literal, propagates the
    # error of an external fallible call, or propagates / passes through the result of a local body that can.
    def passthrough_calls(b):
        res = []
        for bi, t in b.calls():
            if bi in b.normal_blocks() and t['d'] == [0] and not call_matches(t, [lib.FROM_RESIDUAL]) and 'Result<' in (t.get('rty') or ''):
                res.append((bi, t))
        return res
    origin_cache = {}
    def origins(b):
        if b.path not in origin_cache:
            origin_cache[b.path] = {eb: error_origin(b, eb) for eb in core.error_exit_blocks(b)}
        return origin_cache[b.path]
    can_err = set()
    changed = True
    while changed:
        changed = False
        for c in F.bodies:
            if c in can_err:
                continue
            b = F.body(c)
            ok = False
            for eb, o in origins(b).items():
                if o.startswith('Err('):
                    ok = True
                elif o.startswith('err-of:'):
                    g = o[len('err-of:'):]
                    if g not in F.bodies or g in can_err:
                        ok = True
            for bi, t in passthrough_calls(b):
                if any((n not in F.bodies) or (n in can_err) for n in call_names(t)):
                    ok = True
            if ok:
                can_err.add(c); changed = True
    ctx.info['C08.cannot_err_result_fns'] = sorted(c for c in closure if c not in can_err and 'Result<' in (F.body(c).d.get('sig') or ''))

    def error_exits(b):
        """error exit blocks that can really carry an error (+ pass-through of a callee that can)"""
        res = {}
        for eb, o in origins(b).items():
            if o.startswith('err-of:') and o[len('err-of:'):] in F.bodies and o[len('err-of:'):] not in can_err:
                continue
            res[eb] = o
        for bi, t in passthrough_calls(b):
            for n in call_names(t):
                if n in F.bodies and n in can_err:
                    res[bi] = 'err-of:' + n + ' (returned as is)'
        return res

    # private helpers of an entry point (reachable only through it) are transparent for the identity of a finding: an effect made by
    # a helper is named by the effect, an error propagated from a helper by the helper's own error origins, and a finding inside the
    # helper is attributed to the entry point - so that moving an arm of commit_changes into a function does not re-key a finding
    helper_of = {}
    for c in closure:
        if c in ROOTS or not c.startswith('db::DbInner::') or '{closure' in c:
            continue
        owners = [r for r in ROOTS if r in F.bodies and lib.confined_through(F, c, {r})]
        direct = [r for r in owners if c in F.callees(r)]
        if len(direct) == 1:
            helper_of[c] = direct[0]
    def eff_labels(nm, depth=0):
        if nm not in helper_of or depth > 3:
            return {'call:' + nm}
        out = set(l for _, l in deff.get(nm, []))
        hb = F.body(nm)
        for bi, t in hb.calls():
            for n in call_names(t):
                if n in may and n != nm:
                    out |= eff_labels(n, depth + 1)
        return out or {'call:' + nm}
    def err_labels(o, depth=0):
        m = re.match(r'^err-of:(\S+)( \(returned as is\))?$', o)
        if not m or m.group(1) not in helper_of or depth > 3:
            return {o}
        out = set()
        for o2 in error_exits(F.body(m.group(1))).values():
            out |= err_labels(o2, depth + 1)
        return out or {o}

    # err_after_effect fixed point + report
    findings = {}   # key -> detail
    eae = set()
    for _round in range(6):
        grew = False
        for c in closure:
            b = F.body(c)
            errs = error_exits(b)
            if not errs:
                continue
            starts = []   # (start blocks, label)
            for (bi, lab) in deff[c]:
                starts.append((list(b.succ(bi)), lab, bi))
            for bi, t in b.calls():
                if bi not in b.normal_blocks():
                    continue
                tgt = [n for n in call_names(t) if n in may and n != c]
                clos = [x for x in lib.closure_operands(b, t) if x in may]
                if not tgt and not clos:
                    continue
                nm = (tgt or clos)[0]
                if nm in eae:
                    st = list(b.succ(bi))      # the callee may fail after effecting: its own error edge counts
                else:
                    st = [continue_target(b, bi)]
                starts.append(([x for x in st if x is not None], 'call:' + nm, bi))
            for st, lab, site in starts:
                for eb in sorted(errs):
                    if eb == site:
                        continue
                    w = b.find_path(st, {eb})
                    if w:
                        labs_ = eff_labels(lab[5:]) if lab.startswith('call:') else {lab}
                        for lab_ in sorted(labs_):
                            for err_ in sorted(err_labels(errs[eb])):
                                key = 'effect-before-error %s %s -> %s' % (helper_of.get(c, c), lab_, err_)
                                if key not in findings:
                                    findings[key] = (c, 'effect at %s, then error exit at %s: %s' % (b.loc(site), b.loc(eb), lib.short_path(b, [site] + w)), b.loc(site))
                        if c not in eae:
                            eae.add(c); grew = True
        if not grew:
            break
    # one obligation per (function, effect) pair that is clean, one per finding
    clean = 0
    for c in closure:
        b = F.body(c)
        labs = set(l for _, l in deff[c])
        for bi, t in b.calls():
            for n in call_names(t):
                if n in may and n != c:
                    labs.add('call:' + n)
        labs = set(x for lab in labs for x in (eff_labels(lab[5:]) if lab.startswith('call:') else {lab}))
        for lab in sorted(labs):
            bad = [k for k in findings if k.startswith('effect-before-error %s %s -> ' % (helper_of.get(c, c), lab))]
            if not bad:
                clean += 1
                ctx.ob('ok no-error-after %s %s' % (c, lab), 'K6b-effect-before-error', c, 'no path from this effect to an error exit of the function', True, '')
    for k, (c, det, loc) in sorted(findings.items()):
        if k in EXCEPTIONS:
            ctx.ob(k, 'K6b-effect-before-error', c, 'path exists in the CFG but is excluded by a reviewed invariant: ' + EXCEPTIONS[k], True, det, loc)
            continue
        ctx.ob(k, 'K6b-effect-before-error', c, 'no path leads from an effect on shared state to an error exit (a rejected transaction leaves no trace)', False, det, loc)
    # secondary obligations
    cr = ctx.body('db::DbInner::commit_raw')
    if cr:
        effs = [bi for bi, _ in deff.get(cr.path, [])] + [bi for bi, t in cr.calls() if any(n in may for n in call_names(t))]
        none = lib.prune_option_field(cr, '.DbInner.bg_err', keep_some=True)
        # (the refusal may be made in commit_raw itself or by a helper whose verdict is the state of the slot)
        gate, bl = lib.option_gate_sites(cr, '.DbInner.bg_err', 'Adt:error::Error::Background')
        ctx.ob('g0 bg-gate-anchor', 'anchor', cr.path, 'commit_raw refuses with Error::Background in one place', len(gate) == 1, str(gate))
        for e in sorted(set(effs)):
            lib.precedes(ctx, 'g1 bg-gate-before-effect bb-of:%s' % (cr.term(e).get('r') or cr.term(e).get('f') or 'store'), cr, bl, [e],
                         'the background-error slot is examined before any effect of commit_raw')
        # with the slot set, no effect is reachable
        some = lib.prune_option_field(cr, '.DbInner.bg_err', keep_some=True)
        w = cr.find_path([0], set(effs), removed_edges=some) if some else ['?']
        ctx.ob('g2 gate-closes', 'K1-must-pass', cr.path, 'with a background error recorded no effect site of commit_raw is reachable', bool(some) and w is None,
               'no branch on bg_err' if not some else ('' if w is None else 'path: ' + lib.short_path(cr, w)))
    mk = sorted(b.path for b in F.bodies.values() if any(s['k'] == 'assign' and s['r']['k'] == 'agg' and s['r']['ak'] == 'Adt:db::Commit' for blk in b.blocks for s in blk['s']))
    # the log worker may put back (part of) a commit it has just taken off the queue - an accepted commit whose tree removals have to
    # wait; what it pushes must derive from the popped commit (never before it has taken one off)
    requeuers = set()
    for b in F.bodies.values():
        if lib.strip_closures(b.path) != 'db::DbInner::process_commits':
            continue
        pops = [bi for bi, t in b.calls() if call_matches(t, ['re:VecDeque.*::pop_front$']) and t['a'] and '.CommitQueue.commits' in lib.receiver_fields(b, t, 0)]
        if not pops:
            # the pop may sit in a private helper of the log worker's step (`let Some(commit) = self.pop_commit() else ..`)
            fam = [x for x in lib.family(F, b.path) if x is not b]
            poppers = set(x.path for x in fam if any(call_matches(t, ['re:VecDeque.*::pop_front$']) and t['a'] and '.CommitQueue.commits' in lib.receiver_fields(x, t, 0) for _bi, t in x.calls()))
            pops = [bi for bi, t in b.calls() if bi in b.normal_blocks() and any(n in poppers for n in call_names(t))]
        ok_all = True
        for b2, bi in lib.calls_on_field(F, ['std::collections::VecDeque::<T, A>::push_back'], '.CommitQueue.commits', bodies=[b]):
            # (the parts are moved into the re-queued change set through references, so its data slice does not show them: the
            # structural condition is that nothing is pushed before a commit was popped)
            if not pops or b.find_path([0], {bi}, removed=set(pops)) is not None:
                ok_all = False
        if pops and ok_all:
            requeuers.add(b.path)
    base = {'db::DbInner::commit_raw', 'db::DbInner::defer_commit'}
    ctx.ob('g3 Commit-constructed-only-when-queued', 'K4-confinement', ','.join(mk), 'Commit values are built only by commit_raw and defer_commit (both push them on the queue), or by the log worker re-queueing part of a commit it popped',
           set(mk) <= base | requeuers | {'<db::Commit as std::default::Default>::default'} and 'db::DbInner::commit_raw' in mk, str(mk))
    pushers = sorted(set(b.path for b, _ in lib.calls_on_field(F, ['std::collections::VecDeque::<T, A>::push_back', 're:VecDeque.*::(push_front|insert|extend)$'], '.CommitQueue.commits')))
    ctx.ob('g4 queue-producers', 'K4-confinement', ','.join(pushers), 'only commit_raw and defer_commit put commits on the queue (and the log worker, re-queueing part of a commit it popped)',
           base <= set(pushers) and set(pushers) <= base | requeuers, str(pushers))
