"""C02 - a crash at any instant recovers to a prefix of the committed transactions.
Decided: the mechanism 'tables change only by applying whole, validated, in-sequence WAL records,
idempotently, and replay completes before service'."""
import re
import core, lib
from core import call_matches, op_place, op_local, backward_slice
from props import shared

LEVEL = 'other'
FLOOR = 53      # 70% of the 76 obligation instances derived on the tree the rules were last reviewed against
EXPLANATION = ('WAL confinement of every persistent-state writer; in replay a record is applied only after the whole record passed the '
               'validation pass (checksum compared, sequence number == last_enacted+1); last_enacted advanced only by the applier; appliers '
               'never read the file they write (after-images, idempotent); replay, log cleanup and in-memory table initialisation are totally '
               'ordered before worker threads start; a failed replay deletes no log; FIFO discipline of the log queues; logs replayed in record-id order.')
EXPLANATION += ' Added: validator and applier agree on records that name a dropped table; an action is validated against / applied to the table it names; the index and ref-count sections of one record are written in table order; an existing table file of any length is sized at open; the slots of a freshly initialised table are written header last; dropping a table that never got a file is not an error; allocation state changes only while a record is planned (known finding F22).'
ASSUMPTIONS = ['content of what write_plan logged is not decided (value level)', 'mmap torn-page behaviour: see C12', 'unwind edges ignored',
               'exception (reasoned): ValueTable::do_init_with_entry writes the header entry of a table file that did not exist before, outside the WAL']
TRUSTED = ['rustc MIR construction (nightly)', 'pdb-facts driver', 'rule engine /verif/rules', 'anchor tables in props/shared.py, props/C02.py']

APPLIERS = shared.APPLIERS


def validated_before_apply(ctx, p):
    F = ctx.F
    el = ctx.body('db::DbInner::enact_logs')
    if not el:
        return
    vm = lib.prune_bool_param(el, 2, True)
    ctx.ob(p + 'a validation-mode-anchored', 'anchor', el.path, 'enact_logs branches on its validation_mode parameter', len(vm) >= 2, '%d switches on the parameter' % len(vm))
    ap = lib.sites_reaching(el, APPLIERS, lift=False) or lib.sites_reaching(el, APPLIERS)     # direct, or the call of a helper that applies
    rs = el.call_sites("log::LogReader::<'a>::reset")
    lib.precedes(ctx, p + 'b whole-record-validated-before-apply', el, rs, ap,
                 'in replay (validation_mode) every applier call is preceded by LogReader::reset, which is reached only after the validation loop saw EndRecord',
                 removed_edges=vm)
    # reset only after the validation loop broke on EndRecord: every path to reset passes a
    # LogReader::next call whose result was matched
    nx = lib.sites_reaching(el, ["log::LogReader::<'a>::next"])          # the loop itself or a helper that runs it
    for r in rs:
        lib.precedes(ctx, p + 'c reset-after-validation-loop', el, nx, [r], 'reset is reached only through the validation loop (LogReader::next)')
        # in the validation loop every Insert* arm calls validate_plan; DropTable arms continue
    arms = lib.fam_sites(F, el.path, ['column::Column::validate_plan'])
    ctx.ob(p + 'd three-validation-arms', 'anchor', el.path, 'the validation pass calls Column::validate_plan (or one helper that does) in three arms (InsertIndex, InsertValue, InsertRefCount)', len(arms) == 3 or len(lib.sites_reaching(el, ['column::Column::validate_plan'])) == 3, 'sites: %s' % [(fb.path, s2) for fb, s2 in arms])
    cl = el.call_sites('log::Log::clear_replay_logs')
    # a failed validate_plan never reaches reset/appliers: error edge -> clear + return. Checked where the validation loop lives:
    # in enact_logs (reaching reset depends on each outcome) and, if the loop was moved to a helper, there too (running on to the
    # next action depends on each outcome)
    vp = lib.sites_reaching(el, ['column::Column::validate_plan'])
    for i, s in enumerate(vp):
        lib.result_guards(ctx, p + 'e validation-result-checked #%d' % i, el, [s], rs[0] if rs else 0, 'reaching reset depends on the outcome of each validate_plan call')
    for hb in lib.family(F, el.path):
        hn = hb.call_sites("log::LogReader::<'a>::next")
        if hb is el or hb.kind == 'Closure' or not hn:
            continue
        hv = lib.sites_reaching(hb, ['column::Column::validate_plan'])
        for i, s in enumerate(hv):
            if hn:
                lib.result_guards(ctx, p + 'e validation-result-checked %s #%d' % (hb.path, i), hb, [s], hn[0], 'going on to the next action depends on the outcome of each validate_plan call')
    # the CRC check is on for EVERY record read in replay: the validate flag travels unchanged from the validation_mode parameter
    # of enact_logs through Log::read_next into LogReader::new (no "only for the newest log" shortcut)
    def pure_param(b, o, want):
        if op_place(o) is None:
            return False
        sl = backward_slice(b, [op_place(o)])
        return sl.params == {want} and not sl.calls and not sl.binops and not sl.fields
    rn_sites = el.call_sites('log::Log::read_next')
    ctx.ob(p + 'o0 read_next-site', 'anchor', el.path, 'enact_logs obtains its reader from Log::read_next', len(rn_sites) >= 1, str(rn_sites))
    for s2 in rn_sites:
        a = el.term(s2)['a']
        ctx.ob(p + 'o validate-flag-is-the-mode', 'K4-provenance', el.path, 'the validate argument of Log::read_next is the validation_mode parameter itself (checksums are verified for every log file that is replayed)',
               len(a) > 1 and pure_param(el, a[1], 2), 'argument: %s' % (core.op_str(a[1]) if len(a) > 1 else '?'), el.loc(s2))
    rnb = F.body('log::Log::read_next')
    if rnb:
        for s2 in rnb.call_sites("log::LogReader::<'a>::new"):
            a = rnb.term(s2)['a']
            ctx.ob(p + 'o2 reader-built-with-the-flag', 'K4-provenance', rnb.path, 'Log::read_next builds the LogReader with the validate flag it was given', len(a) > 1 and pure_param(rnb, a[1], 2), '', rnb.loc(s2))
    # sequence check
    for r in rs:
        lib.eq_guarded(ctx, p + 'f sequence-guard', el, r, 'the record is applied in replay only if its id equals last_enacted + 1',
                       fields=['.DbInner.last_enacted'], calls=["log::LogReader::<'a>::record_id"])
    # last_enacted advanced only here, with the reader's record id, after the apply loop
    st = [(b, bi) for b in F.bodies.values() for bi, t in b.all_calls() if call_matches(t, lib.ATOMIC_STORE + lib.ATOMIC_RMW) and '.DbInner.last_enacted' in lib.receiver_fields(b, t, 0)]
    who = sorted(set(b.path for b, _ in st))
    ctx.ob(p + 'g last_enacted-writers', 'K4-confinement', ','.join(who), 'DbInner.last_enacted is stored only by enact_logs (the sequence baseline is never re-seeded)', who == ['db::DbInner::enact_logs'], str(who))
    for b, bi in st:
        if b is el:
            sl = backward_slice(el, [op_place(el.term(bi)['a'][1])])
            ctx.ob(p + 'h last_enacted-value', 'K4-provenance', el.path, 'the value stored is the record id of the reader just applied', "log::LogReader::<'a>::record_id" in sl.calls, '')
            lib.never_after(ctx, p + 'i no-apply-after-advance', el, [bi], ap, 'no applier call after last_enacted was advanced for this record')
    # failed validation: last_enacted store unreachable without reset
    st_el = [bi for b, bi in st if b is el]
    lib.precedes(ctx, p + 'j advance-only-after-validation', el, rs, st_el, 'in replay last_enacted is advanced only on the path through reset (validated record)', removed_edges=vm)
    # LogReader::next: EndRecord under validate is checksum-guarded
    nb = ctx.body("log::LogReader::<'a>::next")
    if nb:
        ends = [bi for bi in nb.normal_blocks() for s in nb.blocks[bi]['s'] if s['k'] == 'assign' and s['r']['k'] == 'agg' and s['r']['ak'] == 'Adt:log::LogAction::EndRecord']
        cb, cends = nb, ends          # the body that verifies the checksum, and the blocks that stand for "verified"
        if not nb.call_sites('re:crc32fast::Hasher::finalize$', 'crc32fast::Hasher::finalize'):
            # the verification may sit in a private helper of `next` that answers Result<()>: its Ok returns stand for "verified", and
            # EndRecord is built in `next` only on the Ok outcome of its call
            for hb in lib.family(F, nb.path):
                if hb is nb or not hb.call_sites('re:crc32fast::Hasher::finalize$', 'crc32fast::Hasher::finalize') or not str(hb.locals[0]).startswith('std::result::Result<'):
                    continue
                hs = nb.call_sites(hb.path)
                if len(ends) == 1 and hs and nb.find_path([0], set(ends), removed=set(hs)) is None and all(nb.find_path([x], set(ends)) is None for h in hs for x in lib.result_err_targets(nb, h)):
                    cb, cends = hb, sorted(set(hb.return_blocks()) and set(core.ok_exit_blocks(hb)))
        val = lib.prune_bool_field(cb, '.LogReader.validate', True)
        ctx.ob(p + 'k next-anchors', 'anchor', nb.path, 'LogReader::next builds EndRecord in one place and branches on self.validate (itself, or in the helper that verifies the checksum for it)', len(ends) == 1 and bool(val) and bool(cends), 'ends %s val %s' % (ends, val))
        fin = cb.call_sites('re:crc32fast::Hasher::finalize$', 'crc32fast::Hasher::finalize')
        for e in cends[:1] if cb is nb else [None]:
            tgt = cends
            lib.precedes(ctx, p + 'l checksum-computed-before-EndRecord', cb, fin, tgt, 'with validation on, EndRecord is produced only after the CRC was finalized', removed_edges=val)
            # equality guard: on the path through finalize, the mismatch edge returns Err
            ok = False
            for e2 in tgt:
                for (s_, yes, no) in cb.control_deps(e2):
                    pol = lib.eq_polarity(cb, s_)
                    if pol:
                        eq_t, ne_t, ops = pol
                        sl = backward_slice(cb, [op_place(o) for o in ops if op_place(o)])
                        if eq_t in yes and ne_t in no and any('finalize' in c for c in sl.calls) and any('from_le_bytes' in c for c in sl.calls):
                            ok = True
            if cb is not nb and not ok:
                # in the helper the success return joins both branches of `if validate`: the mismatch edge must be an error exit
                for bi in cb.normal_blocks():
                    pol = lib.eq_polarity(cb, bi) if cb.term(bi)['k'] == 'switch' else None
                    if pol:
                        eq_t, ne_t, ops = pol
                        sl = backward_slice(cb, [op_place(o) for o in ops if op_place(o)])
                        if any('finalize' in c for c in sl.calls) and any('from_le_bytes' in c for c in sl.calls) and cb.find_path([ne_t], set(core.ok_exit_blocks(cb)), removed=core.error_exit_blocks(cb)) is None:
                            ok = True
            ctx.ob(p + 'm EndRecord-only-if-crc-equal', 'K3-guard', cb.path, 'EndRecord is returned on the equal edge of (stored checksum == computed CRC); mismatch -> Corruption', ok, '')
        # every byte consumed feeds the CRC when validating: update() in read_buf closure and in read()
    # every byte consumed feeds the CRC when validating: each read_exact on the log file in a LogReader method (or a closure of
    # one) is followed on every success path by Hasher::update - except the read of the stored checksum word itself, which is
    # followed by finalize()
    nread = 0
    for b in sorted(F.bodies.values(), key=lambda x: x.path):
        if not b.path.startswith('log::LogReader'):
            continue
        rs = [bi for bi, t in b.calls() if bi in b.normal_blocks() and call_matches(t, ['re:Read>::read_exact$', 're:Read>::read$', 'std::io::Read::read_exact'])]
        if not rs:
            continue
        val = lib.prune_bool_field(b, '.LogReader.validate', True) or lib.prune_bool_upvar(b, 'self.validate', True)
        up = lib.must_sites(b, ['re:crc32fast::Hasher::update$']) + b.call_sites('re:crc32fast::Hasher::finalize$')
        for r in rs:
            nread += 1
            ctx.ob(p + 'n0 validate-branch-anchored %s' % b.path, 'anchor', b.path, 'the read path branches on self.validate', bool(val), '')
            lib.must_pass(ctx, p + 'n bytes-fed-to-crc %s' % b.path, b, up, 'with validation on, every successful read of log bytes updates the running CRC (or, for the checksum word, finalizes it)',
                          sources=[r], removed_edges=val)
    ctx.ob(p + 'n1 log-read-sites', 'anchor', '-', 'LogReader reads the log file in at least two places', nread >= 2, 'found %d' % nread)


def absent_only_if_not_found(ctx, p):
    """interrupted index growth is re-detected from the files present: a table file that exists - whatever its length, a crash can
    hit between create and set_len - is opened (and sized); "no such table" (Ok(None)) is reported only when opening the file fails
    with NotFound. Otherwise replay re-creates the table with create_new and fails on the existing file, for good."""
    F = ctx.F
    n = 0
    for fn in ('index::IndexTable::open_existing', 'ref_count::RefCountTable::open_existing'):
        b = ctx.body(fn)
        if not b:
            continue
        for bi in b.normal_blocks():
            for st in b.blocks[bi]['s']:
                if st['k'] == 'assign' and st['p'] == [0] and st['r']['k'] == 'agg' and st['r']['ak'] == 'Adt:std::result::Result::Ok' and st['r']['a'] and op_place(st['r']['a'][0]) is not None:
                    l = op_place(st['r']['a'][0])[0]
                    ds = [d for d in b.defs().get(l, []) if d[2] == 'assign']
                    if ds and all(d[3]['r']['k'] == 'agg' and d[3]['r']['ak'] == 'Adt:std::option::Option::None' for d in ds):
                        n += 1
                        kinds = lib.errkind_guarded(b, bi)
                        ctx.ob(p + 'a absent-only-on-NotFound %s' % fn, 'K3-guard', fn,
                               'open_existing answers "no such table" only on the NotFound outcome of opening the file (an existing file of any length is opened)',
                               kinds == {'NotFound'}, 'Ok(None) returned %s' % ('on error kinds %s' % sorted(kinds) if kinds else 'without looking at the error kind of File::open'), b.loc(bi))
    ctx.ob(p + 'b absent-sites', 'anchor', '-', 'both open_existing functions have an Ok(None) exit', n >= 2, 'found %d' % n)
    # ... and an existing file is brought to its full size, whatever length it has: creation is two file operations (create, then
    # set_len); a file left between them is completed at the next open, not rejected
    for fn in ('index::IndexTable::open_existing', 'ref_count::RefCountTable::open_existing'):
        b = ctx.body(fn)
        if not b:
            continue
        sl = lib.sites_reaching(b, ['std::fs::File::set_len'])
        somes = [bi for bi in b.normal_blocks() for st in b.blocks[bi]['s'] if st['k'] == 'assign' and st['r']['k'] == 'agg' and st['r']['ak'] == 'Adt:std::option::Option::Some']
        w = b.find_path([0], set(somes), removed=set(sl)) if sl and somes else ['?']
        ctx.ob(p + 'c existing-file-sized-at-open %s' % fn, 'K1-must-pass', fn, 'every path that reports the table as present has set the file to the full table size (a file left between create and set_len is completed)',
               w is None, 'no set_len on the way to Ok(Some(table))' if not sl else ('' if w is None else lib.short_path(b, w)))
        lens = []
        for bi in b.normal_blocks():
            for st in b.blocks[bi]['s']:
                if st['k'] == 'assign' and st['r']['k'] == 'bin' and st['r']['op'] in ('Eq', 'Ne', 'Lt', 'Le', 'Gt', 'Ge'):
                    pls = [op_place(a) for a in st['r']['a'] if op_place(a) is not None]
                    if pls and any(re.search(r'Metadata::len$|File::metadata$', c) for pl in pls for c in backward_slice(b, [pl]).calls):
                        lens.append(b.loc(bi))
        ctx.ob(p + 'd file-length-not-a-verdict %s' % fn, 'K3-guard', fn, 'open_existing does not compare the length of the file it found with anything (any length is a legal leftover of an interrupted creation)', not lens, 'length compared at %s' % lens)


def init_decided_by_content(ctx, p):
    """the only table write made outside the log is the first entry of a btree column's header table. A stop between creating that
    file and writing the entry leaves an existing, empty table: whether the entry has to be written is therefore decided from the
    table's content (fill mark), not from the existence of the file - otherwise the column stays unusable for good."""
    F = ctx.F
    bo = ctx.body('btree::BTreeTable::open')
    if not bo:
        return
    sites = lib.sites_reaching(bo, ['table::ValueTable::init_with_entry'])
    ctx.ob(p + 'a init-site', 'anchor', bo.path, 'BTreeTable::open initialises the header entry', len(sites) >= 1, str(sites))
    for s2 in sites:
        calls, fields, binops = lib.guard_influences(bo, s2)
        fl = set(fields)
        for c in lib.shallow_calls(F, calls, owner=bo.path):
            cb = F.body(c)
            if cb is not None:
                for blk in cb.blocks:
                    for st in blk['s']:
                        if st['k'] == 'assign':
                            for pl in ([st['r'].get('p')] if st['r'].get('p') else []) + [op_place(a) for a in st['r'].get('a', []) if op_place(a)]:
                                fl |= set(e for e in pl[1:] if isinstance(e, str) and e.startswith('.'))
                    t = blk['t']
                    if t['k'] == 'call':
                        for a in t['a']:
                            if op_place(a):
                                fl |= backward_slice(cb, [op_place(a)], through_calls=False).fields
        ctx.ob(p + 'b header-entry-written-unless-table-has-it', 'K3-guard', bo.path,
               'the decision to write the header entry looks at the fill mark of the table (ValueTable.filled), not only at whether the file is mapped',
               '.ValueTable.filled' in fl, 'decision depends on %s' % sorted(f for f in fl if 'ValueTable' in f or 'TableFile' in f)[:6], bo.loc(s2))


def idempotent_appliers(ctx, p):
    F = ctx.F
    READS = ['file::TableFile::read_at', 'file::TableFile::slice_at', 're:(IndexTable|RefCountTable)::(chunk_at|entries|table_entries|read_entry|find_entry.*|get)$',
             're:ValueTable::(get|query|for_parts|size|partial_key_at|is_tombstone|read_next_part|read_next_free|dump_entry)$']
    for fn in ('table::ValueTable::enact_plan', 'index::IndexTable::enact_plan', 'ref_count::RefCountTable::enact_plan'):
        b = ctx.body(fn)
        if not b:
            continue
        reach = F.transitive_callees([fn])
        bad = []
        for c in sorted(reach):
            cb = F.body(c)
            for bi, t in cb.all_calls():
                if call_matches(t, READS):
                    bad.append('%s calls %s' % (c, (t.get('r') or t.get('f'))))
        ctx.ob(p + 'a applier-does-not-read-tables %s' % fn, 'K4-confinement', fn,
               'the applier (and its crate callees) never reads table/index bytes: what it writes comes from the log record only (replaying twice is harmless)', not bad, '; '.join(bad[:3]))
        lr = lib.sites_reaching(b, ["log::LogReader::<'a>::read"])
        ctx.ob(p + 'b applier-reads-the-log %s' % fn, 'anchor', fn, 'the applier takes its bytes from LogReader::read', bool(lr), '')
    # raw chunk views are only written through LogReader::read (no read-modify-write of the mapping)
    for fn in ('index::IndexTable::enact_plan', 'ref_count::RefCountTable::enact_plan'):
        b = F.body(fn)
        if not b:
            continue
        # (a view is a mutable slice over the chunk, or - since F77, for the index - an atomic cell over one entry that is only stored to)
        seeds = [b.term(s)['d'][0] for s in b.call_sites('std::slice::from_raw_parts_mut', 'core::slice::from_raw_parts_mut', 're:Atomic.*::from_ptr$')]
        ALLOWED = ['re:Atomic.*::store$', 're:IndexMut.*::index_mut$', "log::LogReader::<'a>::read", 'std::ops::Try::branch', 're:Result.*::map_err$', 'std::ops::FromResidual::from_residual',
                   're:^core::fmt', 're:^std::fmt', 're:^log::']
        def misuse(body, seeds_, depth=2):
            out = []
            taint = lib.forward_taint(body, seeds_)
            for bi, t in body.calls():
                hit = [i for i, a in enumerate(t['a']) if op_place(a) and op_place(a)[0] in taint]
                if not hit or call_matches(t, ALLOWED):
                    continue
                # a private helper of the applier that is handed the view: the same rule inside it, seeded with its parameters
                hs = [n for n in core.call_names(t) if n in F.bodies and lib.confined_through(F, n, {fn})]
                if hs and depth > 0:
                    out += misuse(F.bodies[hs[0]], [i + 1 for i in hit], depth - 1)
                    continue
                out.append('%s at %s' % (t.get('r') or t.get('f'), body.loc(bi)))
            for bi in body.normal_blocks():
                for s in body.blocks[bi]['s']:
                    if s['k'] == 'assign' and s['r']['k'] in ('use', 'bin', 'un', 'cast'):
                        for a in s['r']['a']:
                            pl = op_place(a)
                            if pl and pl[0] in taint and '*' in pl[1:] and any(isinstance(e, str) and e.startswith('[') for e in pl[1:]):
                                out.append('element read %s at %s' % (core.place_str(pl), body.loc(bi)))
            return out
        bad = misuse(b, seeds)
        # a view created in a private helper of the applier (`store_modified_entries(chunk_ptr, log)`)
        for hn, hb in sorted(F.bodies.items()):
            if hn != fn and hn.split('::')[0] == fn.split('::')[0] and '{closure' not in hn and lib.confined_through(F, hn, {fn}):
                hs = [hb.term(s)['d'][0] for s in hb.call_sites('std::slice::from_raw_parts_mut', 'core::slice::from_raw_parts_mut', 're:Atomic.*::from_ptr$')]
                if hs:
                    seeds = seeds + hs
                    bad += misuse(hb, hs)
        ctx.ob(p + 'c no-read-modify-write %s' % fn, 'K4-dataflow', fn,
               'the raw mutable view of the mapped chunk is only ever handed to LogReader::read (never read back, combined or copied from)', not bad and bool(seeds), '; '.join(bad[:3]))


def replay_before_service(ctx, p):
    F = ctx.F
    oi = ctx.body('db::Db::open_inner')
    if not oi:
        return
    rp = oi.call_sites('db::DbInner::replay_all_logs')
    cr = oi.call_sites('log::Log::clear_replay_logs')
    ca = lib.must_sites(oi, ['log::Log::clean_logs'])      # direct or through clean_all_logs
    kl = oi.call_sites('log::Log::kill_logs')
    it = lib.sites_reaching(oi, ['column::HashColumn::init_table_data', 'table::ValueTable::init_table_data'])
    sp = lib.sites_reaching(oi, ['re:^std::thread::spawn', 're:thread::Builder.*::spawn'])      # also `cond.then(|| thread::spawn(..))`
    ctx.ob(p + 'a open_inner-anchors', 'anchor', oi.path, 'open_inner has replay / clear / clean / kill / init and spawns the workers', all(len(x) >= 1 for x in (rp, cr, ca, kl, it)) and len(sp) >= 1,
           'replay %s clear %s clean %s kill %s init %s spawns %s' % (rp, cr, ca, kl, it, sp))
    chain = [('replay_all_logs', rp), ('clear_replay_logs', cr), ('clean_all_logs', ca), ('Log::kill_logs', kl), ('init_table_data', it)]
    for (n1, a), (n2, b2) in zip(chain, chain[1:]):
        lib.precedes(ctx, p + 'b order %s<%s' % (n1, n2), oi, a, b2, '%s happens before %s on every path' % (n1, n2))
    for s in sp:
        lib.precedes(ctx, p + 'c workers-after-recovery', oi, it, [s], 'worker threads are spawned only after replay, log cleanup and table initialisation')
    aggs = [bi for bi in oi.normal_blocks() for s in oi.blocks[bi]['s'] if s['k'] == 'assign' and s['r']['k'] == 'agg' and s['r']['ak'] == 'Adt:db::Db']
    lib.precedes(ctx, p + 'd handle-after-recovery', oi, it, aggs, 'the Db handle is built only after recovery completed')
    # failed replay deletes no log
    for s in rp:
        for later, nm in ((cr, 'clear_replay_logs'), (ca, 'clean_all_logs'), (kl, 'kill_logs')):
            for l in later:
                lib.result_guards(ctx, p + 'e %s-only-if-replay-ok' % nm, oi, [s], l, '%s runs only on the Ok outcome of replay_all_logs (a failed replay deletes nothing)' % nm)
    # replay loops until each file is exhausted
    ra = ctx.body('db::DbInner::replay_all_logs')
    if ra:
        en = ra.call_sites('db::DbInner::enact_logs')
        nx = ra.call_sites('log::Log::replay_next')
        ctx.ob(p + 'f replay-loop-anchors', 'anchor', ra.path, 'replay_all_logs calls replay_next and enact_logs(true) in loops', len(en) == 1 and len(nx) == 1 and en[0] in ra.reaches(en[0]) and nx[0] in ra.reaches(nx[0]), '')
        if en:
            a = ra.term(en[0])['a'][1]
            ctx.ob(p + 'g replay-validates', 'K8-const', ra.path, 'replay calls enact_logs with validation_mode = true', a.get('i') == 1, core.op_str(a))
        rm = ra.call_sites('column::Column::refresh_metadata')
        lib.flush_loop_precedes(ctx, p + 'h metadata-refreshed-after-replay', ra, '.DbInner.columns', ['column::Column::refresh_metadata'], ra.return_blocks(),
                                'cached table metadata (filled / last_removed) is re-read from disk for every column after replay')
        for s in rm:
            lib.precedes(ctx, p + 'i refresh-after-enact', ra, nx, [s], 'metadata refresh happens after the replay loop')
    shared.header_cache_reloaded_after_replay(ctx, p + 'h2')
    shared.replay_order(ctx, p)


def run(ctx):
    shared.wal_confinement(ctx, '1')
    validated_before_apply(ctx, '2')
    idempotent_appliers(ctx, '4')
    replay_before_service(ctx, '6')
    shared.queue_discipline(ctx, '7')
    shared.drop_table_idempotent(ctx, '9')     # replayed actions are idempotent: DropTable
    absent_only_if_not_found(ctx, '10')
    init_decided_by_content(ctx, '12')
    shared.allocation_state_belongs_to_a_record(ctx, '13')
    shared.workers_own_tree_lock_is_not_a_reader(ctx, '20')     # F75: commit order without any client reader
    shared.deferral_keeps_commit_order(ctx, '14')   # the log holds the commits in commit order: a prefix of the log is a prefix of the history
    shared.record_goes_to_the_table_it_names(ctx, '15')   # replay validates and applies an action against the table it names
    shared.record_sections_in_table_order(ctx, '16')     # table files of one record come into existence oldest first
    shared.lazily_created_files_dropped_leniently(ctx, '17')   # the recovered database keeps accepting commits: dropping a never-created table is not an error
    shared.header_slot_written_last(ctx, '12')            # creation of a btree column survives a stop at any point
    shared.old_table_records_skipped(ctx, '11')   # a dropped table named by an old record must not make replay discard the log
