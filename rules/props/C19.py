"""C19 - index page search never misses a matching entry.

Decided statically on the provenance terms of the two page-search routines (rules/symterm.py: the expression that defines
each MIR local, read off the reaching definitions; rules/vecsem.py: which memory feeds which 32-bit lane of a vector).
Nothing is executed or enumerated. The verdict rests on three small lemmas about machine integers (stated in DESIGN.md,
C19) whose PREMISES are what the obligations below check on the code:

 L1 (compare agreement)   E >> ab == (K << ib) >> ab  and  sh >= ab   implies   lo32(E >> sh) == lo32(((K << ib) >> sh))
 L2 (mask to position)    lane j matches  <=>  bits B*j .. B*j+B-1 of the mask are set;  then for 0 <= skip < L
                          tz(mask >> B*skip) / B  ==  (lowest matching lane >= skip) - skip,  and the shifted mask is zero iff there is none
 L3 (loop coverage)       i0 = floor(s / L) * L,  skip0 = s - i0,  step L (skip := 0),  continue while i + c <= N with 1 <= c <= L,
                          N % L == 0   implies   the groups i0, i0+L, .., N-L are all visited and cover exactly the slots s .. N-1
"""
import re
import core
from symterm import TermBuilder, K, norm, strip_casts, show, walk, addends, straight_line
import vecsem

LEVEL = 'other'
FLOOR = 24
EXPLANATION = ('Page search (IndexTable::find_entry and what it dispatches to): provenance terms of the vectorised routine and of the scalar '
               'reference routine are extracted from MIR and checked against the premises of three integer lemmas: (lanes) lane j of the compared '
               'vector is the low half of entry i+j shifted right by the shift count, the four lanes are consecutive entries in order, the compare '
               'target is the shifted key in every lane; (agreement) scalar and vector side shift the same key and entry expressions, the vector shift '
               'is max(c, address bits) with c >= 32, hence never smaller than the scalar shift and never leaving key bits above the compared 32; '
               '(zero pattern) a zero target goes to the scalar routine with unchanged arguments and no vector operation is reachable for it; '
               '(mask) the tested value is the byte mask shifted right by bits-per-lane * skip, the position is group + skip + trailing_zeros / '
               'bits-per-lane; (re-check, F67) after a non-zero mask the entry at the position is read from the page again - the page may be a live '
               'mapping - and compared with the target once more: on the equal edge exactly (that entry, position) is returned and the loop is '
               'left, on the unequal edge the search resumes at position + 1 and nothing else can happen; '
               '(loop) the group index starts at the start position rounded down to the lane count, skip is the remainder; inside the loop the pair '
               'is either stepped (group += lanes, skip = 0: every path from a zero mask) or set to the slot behind a failed candidate (group = '
               'floor((position + 1) / lanes) * lanes, skip = the remainder: every path from a failed re-check); the loop runs while a whole group '
               'fits into the page, page slots * 8 is the byte length of the page type; (scalar) the reference loop ranges over start..slots, returns (entry, index) exactly '
               'under "partial key equal and entry not empty", and answers the empty entry otherwise; both routines are reached only through the '
               'dispatching wrapper or the zero-pattern fallback; (callers, 10*) a candidate is accepted only after the complete stored key tail was compared with the complete partial key, and after a candidate that is not the key the scan continues from the next slot.')
ASSUMPTIONS = ['data movement of the SSE2 intrinsics as tabulated in rules/vecsem.py (Intel SDM); `psrlq` with a count above 63 yields zero while the scalar `>>` '
               'would be an overflow: address bits <= 63 is a value fact about TableId (index bits <= 40 + 14) that is not decided here',
               'lemmas L1-L3 (DESIGN.md, C19) are integer facts proved on paper; the check decides their premises on the code, not the lemmas',
               'little-endian loads (x86_64 only: the vector routine exists only there); unwind edges ignored',
               'what is NOT decided: that callers pass start positions below the slot count; of the callers use of a candidate only the confirmation against the whole stored key tail and the resumption of the scan after a failed candidate are decided (rules 10*, shared with C05 / C09)']
TRUSTED = ['rustc MIR construction (nightly)', 'pdb-facts driver', 'rules/symterm.py (provenance terms)', 'rules/vecsem.py (lane table)', 'lemmas L1-L3']

ARCH_RX = re.compile(r'arch::(x86_64|x86)::_mm')


def natural_loops(b):
    """[(header, set(blocks), [latches])] of natural loops of the normal CFG"""
    nb = b.normal_blocks()
    by_header = {}
    for u in nb:
        for v in b.succ(u):
            if v in nb and b.dominates(v, u):
                by_header.setdefault(v, []).append(u)
    out = []
    for h, latches in by_header.items():
        body = {h}
        stack = list(latches)
        while stack:
            x = stack.pop()
            if x in body:
                continue
            body.add(x)
            stack.extend(p for p in b.pred(x) if p in nb)
        out.append((h, body, latches))
    return out


def linear(t):
    """({atom: coeff}, const) of an integer term built from + - * << by constants; other terms are atoms"""
    t = strip_casts(t)
    if t[0] == 'k' and len(t) == 2 and t[1] is not None:
        return {}, t[1]
    if t[0] == 'bin':
        op = t[1]
        if op in ('Add', 'Sub'):
            a, ca = linear(t[2])
            bb, cb = linear(t[3])
            s = 1 if op == 'Add' else -1
            out = dict(a)
            for k, v in bb.items():
                out[k] = out.get(k, 0) + s * v
            return {k: v for k, v in out.items() if v}, ca + s * cb
        if op == 'Mul':
            for x, y in ((t[2], t[3]), (t[3], t[2])):
                ly = linear(y)
                if not ly[0]:
                    a, ca = linear(x)
                    return {k: v * ly[1] for k, v in a.items() if v * ly[1]}, ca * ly[1]
        if op == 'Shl':
            ly = linear(t[3])
            if not ly[0] and 0 <= ly[1] < 64:
                a, ca = linear(t[2])
                return {k: v << ly[1] for k, v in a.items()}, ca << ly[1]
    return {norm(t): 1}, 0


def has_movemask(t):
    return any(isinstance(x, tuple) and x and x[0] == 'call' and vecsem.intrinsic(x) and vecsem.intrinsic(x)[0].startswith('_mm_movemask') for x in walk(t))


def switch_test(b, tb, bi):
    """(term, edge taken when term != 0, edge taken when term == 0) of a two-way switch"""
    t = b.term(bi)
    if t['k'] != 'switch' or len(t['ts']) != 2 or t.get('vals') != [0]:
        return None
    d = strip_casts(norm(tb.operand(t['a'])))
    zero_edge, nz_edge = t['ts'][0], t['ts'][1]
    if d[0] == 'bin' and d[1] in ('Ne', 'Eq'):
        x, y = d[2], d[3]
        if x == K(0):
            x, y = y, x
        if y == K(0):
            if d[1] == 'Ne':
                return strip_casts(x), nz_edge, zero_edge
            return strip_casts(x), zero_edge, nz_edge
    return d, nz_edge, zero_edge


def align_down_of(t, lanes):
    """the term s such that t == floor(s / lanes) * lanes, in one of the usual spellings"""
    t = strip_casts(t)
    sh = lanes.bit_length() - 1
    if t[0] == 'bin' and t[1] == 'Shl' and strip_casts(t[3]) == K(sh):
        u = strip_casts(t[2])
        if u[0] == 'bin' and u[1] == 'Shr' and strip_casts(u[3]) == K(sh):
            return strip_casts(u[2])
    if t[0] == 'bin' and t[1] == 'Mul':
        for x, y in ((t[2], t[3]), (t[3], t[2])):
            if strip_casts(y) == K(lanes):
                u = strip_casts(x)
                if u[0] == 'bin' and u[1] == 'Div' and strip_casts(u[3]) == K(lanes):
                    return strip_casts(u[2])
    if t[0] == 'bin' and t[1] == 'BitAnd':
        for x, y in ((t[2], t[3]), (t[3], t[2])):
            y = strip_casts(y)
            if y[0] == 'k' and len(y) == 2 and y[1] is not None and (y[1] & 0xffff) == (0xffff & ~(lanes - 1)):
                return strip_casts(x)
            if y[0] == 'un' and y[1] == 'Not' and strip_casts(y[2]) == K(lanes - 1):
                return strip_casts(x)
    if t[0] == 'bin' and t[1] == 'Sub':
        u = strip_casts(t[3])
        if u[0] == 'bin' and u[1] == 'Rem' and strip_casts(u[3]) == K(lanes) and strip_casts(u[2]) == strip_casts(t[2]):
            return strip_casts(t[2])
        if u[0] == 'bin' and u[1] == 'BitAnd' and K(lanes - 1) in (strip_casts(u[2]), strip_casts(u[3])) and strip_casts(t[2]) in (strip_casts(u[2]), strip_casts(u[3])):
            return strip_casts(t[2])
    return None


def merge_shifts(t):
    """(X >> a) >> (s - a) is X >> s when s = max(.., a) (so s >= a and the subtraction cannot wrap)"""
    t = strip_casts(t)
    if t[0] == 'bin' and t[1] == 'Shr':
        inner, amt = strip_casts(t[2]), strip_casts(norm(t[3]))
        if inner[0] == 'bin' and inner[1] == 'Shr' and amt[0] == 'bin' and amt[1] == 'Sub':
            a = strip_casts(norm(inner[3]))
            s, a2 = strip_casts(amt[2]), strip_casts(norm(amt[3]))
            if a == a2 and s[0] == 'max' and a in (strip_casts(norm(s[1])), strip_casts(norm(s[2]))):
                return ('bin', 'Shr', inner[2], s)
    return t


def reaching_def(b, tb, var, at_block):
    """the definitions of a multi-definition local that reach the start of at_block: [(block, term)]"""
    ds = tb.defs_of_var(var)
    blocks = set(d[0] for d in ds)
    out = []
    for bi, t in ds:
        others = blocks - {bi}
        if at_block == bi or b.find_path([bi], {at_block}, removed=others - {at_block}, sensitive=False) is not None:
            if at_block in b.reaches(bi, removed=others - {at_block}) or at_block == bi:
                out.append((bi, t))
    return out


def subst_var(t, var, repl):
    if not isinstance(t, tuple):
        return t
    if t == ('var', var):
        return repl
    return tuple(subst_var(x, var, repl) if isinstance(x, tuple) and x and isinstance(x[0], str) else
                 (tuple(subst_var(y, var, repl) for y in x) if isinstance(x, tuple) else x) for x in t)


def entry_of(t):
    """the 64-bit memory term behind an Entry value"""
    t = strip_casts(t)
    if t[0] == 'agg' and len(t[2]) == 1:
        return strip_casts(t[2][0])
    return t


def page_bytes(b):
    for ty in b.locals:
        m = re.search(r'\[u8; (\d+)\]', ty if isinstance(ty, str) else str(ty))
        if m:
            return int(m.group(1))
    return None


def run(ctx):
    F = ctx.F
    # the callers' half of the property: every candidate the page search hands out is confirmed against the whole key tail stored with
    # the value, and a candidate that fails it sends the scan on from the next slot (a too-narrow comparison accepts the slot of
    # another key and the real match behind it is never reached)
    from props import C05
    C05.key_tail_check(ctx, '10')
    vbs = [b for p, b in sorted(F.bodies.items()) if b.kind != 'closure' and any(ARCH_RX.search(n) for _, t in b.calls() for n in core.call_names(t))]
    # (part of the vector computation may sit in straight-line helpers that only the search routine calls: they are expanded
    # into its terms)
    if len(vbs) > 1:
        helpers = [b for b in vbs if straight_line(b) and F.callers(b.path) and all(c in [x.path for x in vbs] and c != b.path for c in F.callers(b.path))]
        roots = [b for b in vbs if b not in helpers]
        if len(roots) == 1:
            vbs = roots
    ctx.ob('0a vector-routine-anchor', 'anchor', '-', 'exactly one function of the crate uses vector intrinsics (the page search, with straight-line helpers of its own at most); a second one would need its own review',
           len(vbs) == 1, str([b.path for b in vbs]))
    ctx.info['C19.vector_bodies'] = [b.path for b in vbs]
    if len(vbs) != 1:
        return
    vb = vbs[0]
    fn = vb.path
    tb = TermBuilder(F, vb)
    nb = vb.normal_blocks()

    # ---- the mask test
    tests = []
    for bi in sorted(nb):
        st = switch_test(vb, tb, bi)
        if st and has_movemask(st[0]):
            x = strip_casts(st[0])
            if x[0] == 'bin' and x[1] == 'Shr':
                x = strip_casts(x[2])
            if x[0] == 'call' and vecsem.intrinsic(x) and vecsem.intrinsic(x)[0].startswith('_mm_movemask'):
                tests.append((bi,) + st)        # (other branches may depend on the mask through the position: not the mask test)
    ctx.ob('1a mask-test-anchor', 'anchor', fn, 'one branch of the vector routine tests a lane mask against zero', len(tests) == 1, str([(t[0]) for t in tests]), vb.loc())
    if len(tests) != 1:
        return
    tbi, cmp_t, found_edge, miss_edge = tests[0]
    shift_amt = None
    mm = cmp_t
    if cmp_t[0] == 'bin' and cmp_t[1] == 'Shr':
        mm, shift_amt = strip_casts(cmp_t[2]), strip_casts(cmp_t[3])
    try:
        mask = vecsem.movemask(mm)
        err = ''
    except vecsem.Unknown as e:
        mask, err = None, str(e)
    ctx.ob('1b mask-is-a-lane-compare', 'K4-provenance', fn, 'the tested value is movemask(compare lanes), optionally shifted right (anything else is not covered by lemma L2)',
           mask is not None, err or show(cmp_t)[:200], vb.loc(tbi))
    if mask is None:
        return
    B, preds = mask[1], mask[2]
    L = len(preds)

    # ---- lanes (premise of L1, lane order for L2)
    lane_ok, detail = True, []
    offs, cnts, targets, bases = [], [], [], []
    for j, p in enumerate(preds):
        a, tg = p[1], p[2]
        if a[0] == 't32' and tg[0] != 't32':
            a, tg = tg, a
        if not (a[0] == 'lo' and a[1][0] == 'bin' and a[1][1] == 'Shr' and a[1][2][0] == 'mem' and a[1][2][3] == 8 and tg[0] == 't32'):
            lane_ok = False
            detail.append('lane %d is %s vs %s' % (j, show(a)[:120], show(tg)[:80]))
            continue
        offs.append(linear(a[1][2][2]))
        bases.append(a[1][2][1])
        cnts.append(strip_casts(norm(a[1][3])))
        targets.append(strip_casts(norm(tg[1])))
    if lane_ok:
        for j in range(L):
            d = dict(offs[j][0])
            if d != offs[0][0] or offs[j][1] - offs[0][1] != 8 * j:
                lane_ok = False
                detail.append('lane %d reads byte offset %s, lane 0 reads %s: not 8*%d apart' % (j, offs[j], offs[0], j))
        if len(set(cnts)) != 1 or len(set(targets)) != 1 or len(set(bases)) != 1:
            lane_ok = False
            detail.append('lanes disagree on shift count / target / page')
    ctx.ob('2a lanes-are-consecutive-entries-in-order', 'K4-lane-provenance', fn,
           'lane j of the compared vector is lo32(entry[i+j] >> count): consecutive 8-byte entries of one page, in slot order, one shift count, one target in every lane',
           lane_ok, '; '.join(detail), vb.loc(tbi))
    if not lane_ok:
        return
    cnt, target, page = cnts[0], targets[0], bases[0]
    target = merge_shifts(target)
    off0 = offs[0]
    ivars = [a for a in off0[0] if a[0] == 'var']
    grp_ok = len(off0[0]) == 1 and len(ivars) == 1 and off0[0][ivars[0]] == 8 and off0[1] == 0
    ctx.ob('2b group-index-is-a-loop-variable', 'K4-provenance', fn, 'lane 0 reads entry number i of the page, i a loop-carried local (byte offset 8*i)', grp_ok, str(off0))
    if not grp_ok:
        return
    ivar = ivars[0][1]

    # ---- target / shift (premises of L1)
    sh_ok = target[0] == 'bin' and target[1] == 'Shr' and strip_casts(target[2])[0] == 'bin' and strip_casts(target[2])[1] == 'Shl'
    key_t = ib_t = sh_t = None
    if sh_ok:
        sh_t = strip_casts(norm(target[3]))
        key_t, ib_t = strip_casts(strip_casts(target[2])[2]), strip_casts(strip_casts(target[2])[3])
    ctx.ob('3a target-is-the-shifted-key', 'K4-provenance', fn, 'the compare target is (key << index bits) >> shift', sh_ok, show(target)[:200])
    if not sh_ok:
        return
    ctx.ob('3b entries-and-key-shifted-by-the-same-count', 'K9-agreement', fn, 'the count that shifts the entries is the shift applied to the key',
           cnt == sh_t, '%s vs %s' % (show(cnt)[:120], show(sh_t)[:120]))
    mx = sh_t if sh_t[0] == 'max' else None
    floor_c = ab_v = None
    if mx:
        for x, y in ((mx[1], mx[2]), (mx[2], mx[1])):
            x = strip_casts(x)
            if x[0] == 'k' and len(x) == 2 and x[1] is not None:
                floor_c, ab_v = x[1], strip_casts(norm(y))
    ctx.ob('3c shift-is-max-of-a-floor-and-the-address-bits', 'K7-bound', fn,
           'shift = max(c, address bits) with c >= 32: never smaller than the scalar shift (no address bit is compared) and the shifted key fits the 32 compared bits (a non-zero target stays non-zero)',
           mx is not None and floor_c is not None and floor_c >= 32 and floor_c < 64, show(sh_t)[:160])

    # ---- zero pattern
    zs = []
    for bi in sorted(nb):
        st = switch_test(vb, tb, bi)
        if st and merge_shifts(strip_casts(norm(st[0]))) == target:
            zs.append((bi,) + st)
    vec_blocks = set(bi for bi, t in vb.calls() if bi in nb and any(ARCH_RX.search(n) for n in core.call_names(t)))
    sb = None
    zdetail = ''
    zok = len(zs) == 1
    if zok:
        zbi, _, nz_edge, z_edge = zs[0]
        zok = all(vb.dominates(zbi, v) for v in vec_blocks) and not (vb.reachable_from([z_edge], removed={zbi}) & vec_blocks)
        zdetail = 'vector operations reachable with a zero target' if not zok else ''
        # the zero edge calls the scalar routine with unchanged arguments and returns its answer
        zr = vb.reachable_from([z_edge], removed={zbi})
        calls = [(bi, t) for bi, t in vb.calls() if bi in zr and any(n in F.bodies for n in core.call_names(t))]
        ds = [d for d in tb.defs_of_var(0) if d[0] in zr] if ('var', 0) == tb.local(0) else []
        if len(calls) >= 1 and ds:
            for cbi, ct in calls:
                names = [n for n in core.call_names(ct) if n in F.bodies]
                if (names and cbi == ds[0][0] and ct.get('d') == [0] and len(ct['a']) == vb.argc
                        and all(strip_casts(tb.operand(a)) == ('arg', i + 1) for i, a in enumerate(ct['a']))):
                    sb = F.bodies[names[0]]
        if sb is None:
            zok = False
            zdetail = 'zero edge does not return scalar(self, key, start, page) unchanged: %s' % [show(d[1])[:100] for d in ds]
    else:
        zdetail = 'switches on the target value: %s' % [z[0] for z in zs]
    ctx.ob('4a zero-target-goes-to-the-scalar-routine', 'K3-guard', fn,
           'the value broadcast as compare target is tested against zero; the zero edge returns the scalar routine called with the unchanged arguments, and no vector operation is reachable on it (an empty slot would match a zero target)',
           zok, zdetail, vb.loc(zs[0][0]) if zs else None)

    # ---- mask arithmetic (premises of L2)
    skipvar = None
    if shift_amt is None:
        ctx.ob('5a mask-shift', 'K7-bound', fn, 'the mask is shifted right by bits-per-lane * skip', False, 'no shift: lanes below the start position are not discarded (form not covered)')
        return
    la, lc = linear(shift_amt)
    sv = [a for a in la if a[0] == 'var']
    ok = len(la) == 1 and len(sv) == 1 and la[sv[0]] == B and lc == 0
    ctx.ob('5a mask-shift', 'K7-bound', fn, 'the mask is shifted right by bits-per-lane (%d) * skip, skip a loop-carried local' % B, ok, show(shift_amt)[:160])
    if not ok:
        return
    skipvar = sv[0][1]

    loops = [lp for lp in natural_loops(vb) if tbi in lp[1]]
    ctx.ob('6a loop-anchor', 'anchor', fn, 'the mask test sits in exactly one loop', len(loops) == 1, str([(l[0], sorted(l[1])) for l in loops]))
    if len(loops) != 1:
        return
    H, LB, latches = loops[0]

    # found edge: the candidate is read again from the page (which may be a live mapping), re-checked against the target and
    # returned; a candidate that no longer carries the pattern makes the search resume strictly behind it
    def position_form(pos):
        pa, pc = linear(pos)
        atoms = dict(pa)
        want_i = atoms.pop(('var', ivar), 0) == 1
        want_s = atoms.pop(('var', skipvar), 0) == 1
        rest = list(atoms.items())
        tz_ok = False
        if len(rest) == 1 and rest[0][1] == 1:
            q = strip_casts(rest[0][0])
            num = None
            if q[0] == 'bin' and q[1] == 'Div' and strip_casts(q[3]) == K(B):
                num = strip_casts(q[2])
            elif q[0] == 'bin' and q[1] == 'Shr' and strip_casts(q[3]) == K(B.bit_length() - 1) and B & (B - 1) == 0:
                num = strip_casts(q[2])
            if num is not None and num[0] == 'tz' and strip_casts(norm(num[1])) == strip_casts(norm(cmp_t)):
                tz_ok = True
        return want_i and want_s and tz_ok and pc == 0

    fr = vb.reachable_from([found_edge], removed={tbi, H})
    rechecks = []
    for bi in sorted(fr):
        st = switch_test(vb, tb, bi)
        if st is None:
            continue
        d = strip_casts(st[0])
        if d[0] == 'bin' and d[1] in ('Eq', 'Ne'):
            for x, y in ((d[2], d[3]), (d[3], d[2])):
                x, y = strip_casts(norm(x)), merge_shifts(strip_casts(norm(y)))
                if (x[0] == 'bin' and x[1] == 'Shr' and strip_casts(x[2])[0] == 'mem' and strip_casts(x[2])[1] == page and strip_casts(x[2])[3] == 8
                        and strip_casts(norm(x[3])) == cnt and y == target):
                    eq_edge, ne_edge = (st[1], st[2]) if d[1] == 'Eq' else (st[2], st[1])
                    rechecks.append((bi, strip_casts(x[2]), eq_edge, ne_edge))
    ctx.ob('5b candidate-is-read-again-and-rechecked', 'K3-guard', fn,
           'after a non-zero mask the entry at the candidate position is read from the page and compared once more with the target (lo32(entry >> shift) == target): the page may be a mapping that the enact stage is writing, and an entry that was not compared must not be handed out',
           len(rechecks) == 1, 're-check branches after the found edge: %s' % [r[0] for r in rechecks], vb.loc(tbi))
    if len(rechecks) != 1:
        return
    rbi, ent, eq_edge, ne_edge = rechecks[0]
    ea, ec = linear(ent[2])
    pos_lin = ({k: v // 8 for k, v in ea.items()}, ec // 8) if all(v % 8 == 0 for v in ea.values()) and ec % 8 == 0 else None
    # the equal edge returns (that entry, its position) and leaves the loop
    er = vb.reachable_from([eq_edge], removed={rbi})
    fds = [d for d in tb.defs_of_var(0) if d[0] in er]
    pos_ok, pdetail, pos = False, '', None
    if H in er:
        pdetail = 'the loop head is reachable from the equal edge of the re-check'
    elif len(fds) == 1:
        r = strip_casts(fds[0][1])
        if r[0] == 'agg' and len(r[2]) == 2:
            rent, pos = entry_of(r[2][0]), strip_casts(norm(r[2][1]))
            pos_ok = norm(rent) == norm(ent) and linear(pos) == pos_lin and position_form(pos)
            pdetail = 'position %s ; entry %s' % (show(pos)[:220], show(rent)[:120])
        else:
            pdetail = show(r)[:200]
    else:
        pdetail = '%d definitions of the return value after the re-check' % len(fds)
    ctx.ob('5c position-from-the-tested-mask', 'K7-bound', fn,
           'the re-checked entry is the one returned: (entry read at 8*position, position) with position = group + skip + trailing_zeros(tested mask) / bits-per-lane (lowest matching lane first), and the return leaves the loop',
           pos_ok, pdetail, vb.loc(rbi))

    # ---- loop (premises of L3): (group, skip) always names the next slot to examine, group + skip
    idefs = tb.defs_of_var(ivar)
    sdefs = tb.defs_of_var(skipvar)
    i_init = [d for d in idefs if d[0] not in LB]
    i_upd = [d for d in idefs if d[0] in LB]
    s_init = [d for d in sdefs if d[0] not in LB]
    s_upd = [d for d in sdefs if d[0] in LB]
    start = None
    ok = len(i_init) == 1 and len(i_upd) >= 1
    if ok:
        start = align_down_of(norm(i_init[0][1]), L)
        ok = start is not None and start[0] == 'arg'
    ctx.ob('6b group-start-is-the-start-position-rounded-down', 'K7-bound', fn,
           'before the loop the group index is floor(start / lanes) * lanes of a parameter', ok, '%s' % [show(norm(d[1]))[:120] for d in i_init])

    def remainder_of(sterm, iterm, x):
        """is sterm == x - floor(x / lanes) * lanes, given that iterm is floor(x / lanes) * lanes (or spelled x % lanes directly)?"""
        rem = strip_casts(norm(sterm))
        if rem[0] == 'bin' and ((rem[1] == 'BitAnd' and K(L - 1) in (strip_casts(rem[2]), strip_casts(rem[3])) and norm(x) in (strip_casts(rem[2]), strip_casts(rem[3])))
                                or (rem[1] == 'Rem' and strip_casts(rem[3]) == K(L) and strip_casts(rem[2]) == norm(x))):
            return True
        if rem[0] == 'bin' and rem[1] == 'Sub':
            xa = align_down_of(rem[3], L)
            if xa is not None and norm(xa) == norm(strip_casts(rem[2])) and linear(norm(xa)) == linear(norm(x)):
                return True
        t = norm(subst_var(sterm, ivar, iterm))
        a, c = linear(t)
        ia, ic = linear(norm(iterm))
        xa, xc = linear(norm(x))
        want = dict(xa)
        for k, v in ia.items():
            want[k] = want.get(k, 0) - v
        return a == {k: v for k, v in want.items() if v} and c == xc - ic

    ok3 = len(s_init) == 1 and len(i_init) == 1 and start is not None and remainder_of(s_init[0][1], i_init[0][1], start)
    ctx.ob('6d skip-starts-as-the-remainder', 'K7-bound', fn, 'before the loop skip = start - group index (the lanes of the first group that lie before the start position)',
           ok3, '%s' % [show(norm(d[1]))[:120] for d in s_init])
    # updates inside the loop: a step (group += lanes, skip = 0) or a resume behind a candidate (group = floor(x / lanes) * lanes,
    # skip = x - group, x = position + 1)
    i_step = [d for d in i_upd if linear(norm(d[1])) == ({('var', ivar): 1}, L)]
    i_res = [d for d in i_upd if d not in i_step]
    s_zero = [d for d in s_upd if strip_casts(norm(d[1])) == K(0)]
    s_res = [d for d in s_upd if d not in s_zero]
    res_ok, rdetail = True, ''
    xs = []
    for d in i_res:
        x = align_down_of(norm(d[1]), L)
        if x is None:
            res_ok, rdetail = False, 'group index set to %s' % show(norm(d[1]))[:160]
            break
        xs.append((d[0], norm(x)))
    if res_ok and pos_lin is not None:
        for bi, x in xs:
            xa, xc = linear(x)
            if (xa, xc) != (pos_lin[0], pos_lin[1] + 1):
                res_ok, rdetail = False, 'the search resumes at %s, not at position + 1' % show(x)[:160]
    if res_ok:
        for d in s_res:
            mates = [(bi, x, di) for (bi, x), di in zip(xs, i_res) if bi == d[0] or vb.dominates(bi, d[0])]
            if not mates or not remainder_of(d[1], mates[0][2][1], mates[0][1]):
                res_ok, rdetail = False, 'skip set to %s' % show(norm(d[1]))[:160]
        if len(i_res) != len(s_res):
            res_ok, rdetail = False, '%d resume definitions of the group index, %d of skip' % (len(i_res), len(s_res))
    ctx.ob('6c group-index-steps-or-resumes-behind-the-candidate', 'K7-bound', fn,
           'inside the loop the group index only advances by the lane count (%d) or is set to floor((position + 1) / lanes) * lanes' % L, bool(i_step) and res_ok and pos_lin is not None,
           rdetail or '%s' % [show(norm(d[1]))[:100] for d in i_upd])
    ctx.ob('6e skip-is-cleared-or-the-remainder-of-the-resume-position', 'K7-bound', fn,
           'inside the loop skip is only set to zero (with a step) or to (position + 1) - group index (with a resume)', bool(s_zero) and res_ok, rdetail or '%s' % [show(norm(d[1]))[:80] for d in s_upd])
    # every way back to the loop head updates the pair consistently
    bad = []
    for name, upd in (('group index', i_step), ('skip', s_zero)):
        blocks = set(d[0] for d in upd)
        if vb.find_path([miss_edge], {H}, removed=blocks, sensitive=False) is not None and miss_edge not in blocks:
            bad.append(name + ' not stepped after a zero mask')
    for name, upd in (('group index', i_res), ('skip', s_res)):
        blocks = set(d[0] for d in upd)
        if vb.find_path([ne_edge], {H}, removed=blocks, sensitive=False) is not None and ne_edge not in blocks:
            bad.append(name + ' not set to the resume position after a failed re-check')
    if vb.find_path([ne_edge], {H}, sensitive=False) is None:
        bad.append('a failed re-check does not go on searching')
    if any(r in vb.reachable_from([ne_edge], removed={H, rbi}) for r in vb.return_blocks()):
        bad.append('a failed re-check can return without searching on')
    ctx.ob('6f every-round-advances', 'K1-must-pass', fn,
           'every path from a zero mask back to the loop head steps the group and clears skip; every path from a failed re-check back to the loop head sets both to the slot behind the candidate, and there is no other way on from a failed re-check',
           not bad, '; '.join(bad))
    # continue condition
    conds = []
    for bi in sorted(LB):
        t = vb.term(bi)
        if t['k'] == 'switch' and any(x not in LB for x in t['ts']) and bi not in (tbi, rbi):
            conds.append(bi)
    cont_ok, N, cdetail = False, None, ''
    if len(conds) == 1 and vb.dominates(conds[0], tbi):
        t = vb.term(conds[0])
        d = strip_casts(norm(tb.operand(t['a'])))
        stay = [x for x in t['ts'] if x in LB]
        if d[0] == 'bin' and d[1] in ('Le', 'Lt', 'Ge', 'Gt') and len(t['ts']) == 2 and t.get('vals') == [0] and len(stay) == 1:
            true_stays = stay[0] == t['ts'][1]
            lhs, rhs = d[2], d[3]
            op = d[1]
            if op in ('Ge', 'Gt'):
                lhs, rhs, op = rhs, lhs, {'Ge': 'Le', 'Gt': 'Lt'}[op]
            la_, lc_ = linear(lhs)
            ra_, rc_ = linear(rhs)
            if la_ == {('var', ivar): 1} and not ra_ and true_stays:
                c = lc_ + (1 if op == 'Lt' else 0)
                N = rc_
                cont_ok = 1 <= c <= L and N % L == 0
                cdetail = 'i + %d <= %d' % (c, N)
            else:
                cdetail = show(d)[:160]
        else:
            cdetail = show(d)[:160]
    else:
        cdetail = 'loop exits: %s' % conds
    ctx.ob('6g loop-runs-while-a-group-fits', 'K7-bound', fn, 'the only exit of the loop besides a returned candidate is group + c > slots with 1 <= c <= lanes, slots a multiple of the lane count', cont_ok, cdetail)
    pb = page_bytes(vb)
    ctx.ob('6h slots-times-entry-size-is-the-page', 'K8-constants', fn, 'slots * 8 equals the byte length of the page array type', N is not None and pb == N * 8, 'slots %s, page bytes %s' % (N, pb))
    # miss: the loop exit answers the empty entry
    xr = set()
    if len(conds) == 1:
        xr = vb.reachable_from([x for x in vb.term(conds[0])['ts'] if x not in LB])
    mds = [d for d in tb.defs_of_var(0) if d[0] in xr and d[0] not in er]
    ok = len(mds) == 1 and entry_of(strip_casts(mds[0][1])[2][0]) == K(0) if mds and strip_casts(mds[0][1])[0] == 'agg' else False
    ctx.ob('6i miss-answers-the-empty-entry', 'K9-agreement', fn, 'leaving the loop without a candidate returns the empty entry', ok, '%s' % [show(d[1])[:100] for d in mds])

    # ---- scalar reference routine
    if sb is None:
        return
    sfn = sb.path
    ts = TermBuilder(F, sb)
    sloops = natural_loops(sb)
    rds = ts.defs_of_var(0) if ts.local(0) == ('var', 0) else []
    found = [d for d in rds if strip_casts(d[1])[0] == 'agg' and len(strip_casts(d[1])[2]) == 2 and entry_of(strip_casts(d[1])[2][0])[0] == 'mem']
    missd = [d for d in rds if d not in found]
    # the same routine written with iterator adaptors: (start..slots).map(|i| (read(i), i)).find(|(e, _)| test(e)).unwrap_or(miss)
    chain = None
    r0 = strip_casts(ts.local(0))
    if not sloops and r0[0] == 'call' and re.search(r'Option::<.*>::unwrap_or$', r0[1]) and len(r0[2]) == 2:
        f_ = strip_casts(r0[2][0])
        if f_[0] == 'call' and f_[1].endswith('Iterator::find') and len(f_[2]) == 2:
            m_ = strip_casts(f_[2][0])
            if m_[0] == 'call' and m_[1].endswith('Iterator::map') and len(m_[2]) == 2 and m_[2][0][0] == 'agg' and m_[2][0][1].endswith('ops::Range'):
                cl0, cl1 = m_[2][1], f_[2][1]
                if cl0[0] == 'agg' and cl1[0] == 'agg' and cl0[1].startswith('Closure:') and cl1[1].startswith('Closure:'):
                    chain = (m_[2][0][2], F.bodies.get(cl0[1][8:]), cl0, F.bodies.get(cl1[1][8:]), cl1, r0[2][1])
    ctx.ob('7a scalar-anchor', 'anchor', sfn, 'the scalar routine has one loop, one "found" return of (entry, index) and one other return (or is the adaptor chain range.map(read).find(test).unwrap_or(miss))',
           (len(sloops) == 1 and len(found) == 1 and len(missd) == 1) or (chain is not None and chain[1] is not None and chain[3] is not None),
           'loops %d found %d other %d' % (len(sloops), len(found), len(missd)), sb.loc())

    def uncapture(t):
        """fld(Closure(captures..), .^k) -> the k-th captured term"""
        if not isinstance(t, tuple):
            return t
        if len(t) == 3 and t[0] == 'fld' and isinstance(t[1], tuple) and t[1][:1] == ('agg',) and str(t[1][1]).startswith('Closure:') and re.match(r'^\.\^\d+$', str(t[2])):
            k_ = int(t[2][2:])
            if k_ < len(t[1][2]):
                return uncapture(t[1][2][k_])
        return tuple(uncapture(x) if isinstance(x, tuple) else x for x in t)
    guards = []
    if chain is not None and chain[1] is not None and chain[3] is not None:
        rng, b0, a0, b1, a1, miss_t = chain
        idx = ('var', -1)
        item = uncapture(TermBuilder(F, b0, args=(a0, idx)).local(0)) if straight_line(b0) and b0.argc == 2 else ('?',)
        ok = strip_casts(rng[0])[0] == 'arg' and strip_casts(rng[1])[0] == 'k'
        ctx.ob('7b scalar-ranges-from-start-to-slots', 'K7-bound', sfn, 'the index of the reference loop iterates the range start..slots (step one, ascending)', ok, show(rng[0])[:80] + '..' + show(rng[1])[:80])
        sN = strip_casts(rng[1])[1] if ok else None
        item = strip_casts(item)
        ent = strip_casts(norm(entry_of(item[2][0]))) if item[0] == 'agg' and len(item[2]) == 2 else ('?',)
        ok = item[0] == 'agg' and len(item[2]) == 2 and strip_casts(norm(item[2][1])) == idx and ent[0] == 'mem' and ent[3] == 8 and linear(ent[2]) == ({idx: 8}, 0)
        ctx.ob('7c scalar-returns-the-entry-at-its-index', 'K4-provenance', sfn, 'found: (entry read at 8*index, index)', ok, show(item)[:160])
        # the test: what has to hold for the closure to answer true
        t1 = TermBuilder(F, b1, args=(a1, item)) if b1.argc == 2 else None
        rets = t1.defs_of_var(0) if t1 is not None and t1.local(0) in (('var', 0), ('cvar', 0)) else ([(None, t1.local(0))] if t1 is not None else [])
        yes_defs = [d for d in rets if strip_casts(d[1]) != K(0)]
        if len(yes_defs) == 1:
            yb = yes_defs[0][0]
            guards.append((None, uncapture(yes_defs[0][1]), True))
            for bi in sorted(b1.normal_blocks()):
                t = b1.term(bi)
                if t['k'] != 'switch' or yb is None:
                    continue
                st = switch_test(b1, t1, bi)
                if st is None:
                    continue
                yes = [x for x in set(t['ts']) if yb in b1.reachable_from([x]) or x == yb]
                if len(yes) == 1 and len(set(t['ts'])) > 1:
                    guards.append((bi, uncapture(st[0]), yes[0] == st[1]))
        else:
            guards.append((None, ('?',), True))
        mr = strip_casts(miss_t)
        miss_outside = True
    elif len(sloops) == 1 and len(found) == 1 and len(missd) == 1:
        SH, SLB, _ = sloops[0]
        r = strip_casts(found[0][1])
        ent, idx = entry_of(r[2][0]), strip_casts(norm(r[2][1]))
        rng = None
        q = idx
        while q[0] == 'fld':
            q = q[1]
        if q[0] == 'call' and q[1].endswith('::next') and q[2] and q[2][0][0] == 'agg' and q[2][0][1].endswith('ops::Range'):
            rng = q[2][0][2]
        ok = rng is not None and strip_casts(rng[0])[0] == 'arg' and strip_casts(rng[1])[0] == 'k'
        ctx.ob('7b scalar-ranges-from-start-to-slots', 'K7-bound', sfn, 'the index of the reference loop iterates the range start..slots (step one, ascending)', ok, show(idx)[:160])
        sN = strip_casts(rng[1])[1] if ok else None
        ok = ent[0] == 'mem' and ent[3] == 8 and linear(ent[2]) == ({idx: 8}, 0)
        ctx.ob('7c scalar-returns-the-entry-at-its-index', 'K4-provenance', sfn, 'found: (entry read at 8*index, index)', ok, show(ent)[:160])
        # guards of the found return
        fb = found[0][0]
        back_edges = frozenset((u, SH) for u in SLB if SH in sb.succ(u))
        for bi in sorted(SLB):
            t = sb.term(bi)
            if t['k'] != 'switch':
                continue
            st = switch_test(sb, ts, bi)
            if st is None:
                continue
            yes = [x for x in set(t['ts']) if fb in sb.reachable_from([x], removed_edges=back_edges)]
            if len(yes) == len(set(t['ts'])):
                continue
            if len(yes) == 1:
                guards.append((bi, st[0], yes[0] == st[1]))
        mr = strip_casts(missd[0][1])
        miss_outside = missd[0][0] not in SLB
    else:
        return
    # `!x` holding is x not holding
    g2 = []
    for bi, tm, nonzero in guards:
        tm = strip_casts(norm(tm))
        while isinstance(tm, tuple) and tm[0] == 'un' and tm[1] == 'Not':
            tm, nonzero = strip_casts(norm(tm[2])), not nonzero
        g2.append((bi, tm, nonzero))
    guards = g2
    eqg = [g for g in guards if strip_casts(g[1])[0] == 'bin']
    pk_ok = em_ok = False
    s_ab = s_key = s_ib = s_page = None
    others = []
    for bi, tm, nonzero in guards:
        tm = strip_casts(norm(tm))
        if tm[0] == 'disc':
            continue            # the iterator's Some/None
        if tm == ent:
            # `switch entry == 0` folded into a test of the entry itself: found lies on the non-zero edge
            if nonzero:
                em_ok = True
            else:
                others.append('returned only if the entry IS zero')
            continue
        if tm[0] == 'bin' and tm[1] == 'Eq':
            x, y = strip_casts(tm[2]), strip_casts(tm[3])
            for a, b_ in ((x, y), (y, x)):
                if a == K(0) and b_ == ent and not nonzero:
                    em_ok = True
                    break
                if (a[0] == 'bin' and a[1] == 'Shr' and strip_casts(a[2]) == ent and b_[0] == 'bin' and b_[1] == 'Shr'
                        and strip_casts(norm(a[3])) == strip_casts(norm(b_[3])) and strip_casts(b_[2])[0] == 'bin' and strip_casts(b_[2])[1] == 'Shl' and nonzero):
                    pk_ok = True
                    s_ab = strip_casts(norm(a[3]))
                    s_key, s_ib = strip_casts(strip_casts(b_[2])[2]), strip_casts(strip_casts(b_[2])[3])
                    break
            else:
                others.append(show(tm)[:100])
        else:
            others.append(show(tm)[:100])
    ctx.ob('7d scalar-match-is-partial-key-equality', 'K3-guard', sfn, 'found is returned only if entry >> address bits == (key << index bits) >> address bits', pk_ok, str(others))
    ctx.ob('7e scalar-rejects-empty-entries', 'K3-guard', sfn, 'found is returned only if the entry is not zero (empty)', em_ok, str(others))
    ctx.ob('7f scalar-has-no-further-filter', 'K3-guard', sfn, 'no other condition decides whether a slot is returned', not others, str(others))
    ok = mr[0] == 'agg' and entry_of(mr[2][0]) == K(0) and miss_outside
    ctx.ob('7g scalar-miss-answers-the-empty-entry', 'K9-agreement', sfn, 'after the range is exhausted the empty entry is returned', ok, show(mr)[:120])

    # ---- agreement of the two routines (premises of L1, shared constants)
    if pk_ok:
        same = (s_key == key_t, norm(s_ib) == norm(ib_t), ab_v is not None and s_ab == ab_v, ent[1] == page)
        ctx.ob('8a both-routines-compare-the-same-key-bits', 'K9-agreement', fn,
               'key, index bits, address bits and page expressions of the scalar compare are those of the vector compare (arguments are handed on unchanged)',
               all(same), 'key %s index-bits %s address-bits %s page %s' % same)
    ctx.ob('8b both-routines-cover-the-same-slots', 'K8-constants', fn, 'slot count of the vector loop == end of the scalar range; both start from the same parameter',
           N is not None and sN == N and start is not None and rng is not None and strip_casts(rng[0]) == start, 'vector %s scalar %s' % (N, sN))

    # ---- dispatch: who may call the two routines
    callers_v = sorted(set(F.callers(vb.path)))
    callers_s = sorted(set(F.callers(sb.path)))
    wrappers = []
    bad = []
    for c in set(callers_v + callers_s):
        if c == vb.path:
            continue
        cb = F.bodies.get(c)
        if cb is None:
            continue
        tc = TermBuilder(F, cb)
        r = strip_casts(tc.local(0))
        if r[0] == 'call' and r[1] in (vb.path, sb.path) and tuple(r[2]) == tuple(('arg', i + 1) for i in range(cb.argc)) and cb.argc == vb.argc:
            wrappers.append(c)
        else:
            bad.append(c)
    ctx.ob('9a routines-reached-only-through-the-dispatcher', 'K4-confinement', fn,
           'the two routines are called only by a wrapper that hands its arguments on unchanged (and the scalar one by the zero-pattern fallback)',
           not bad and len(wrappers) >= 1, 'other callers: %s' % bad)
    ctx.info['C19.dispatchers'] = wrappers
    ctx.info['C19.terms'] = {'compare_target': show(target)[:300], 'lane0': show(preds[0])[:300], 'tested_mask': show(cmp_t)[:120],
                             'lanes': L, 'bits_per_lane': B, 'slots': N}
