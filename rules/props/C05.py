"""C05 - concurrent readers see commits atomically, in order, never going back in time.
Decided: the lock / hand-over discipline every schedule relies on (not linearizability itself)."""
import re
import core, lib
from core import call_matches, call_names, op_place, op_local, backward_slice
from props import shared

WITNESSES = ['IteratorBorrowsHandle', 'HandleIsOpaque']      # compile-fail witnesses against the public surface (thorough tier; engine.WITNESSES)
LEVEL = 'other'
FLOOR = 76      # 70% of the 109 obligation instances derived on the tree the rules were last reviewed against
EXPLANATION = ('Decided on all MIR paths: a transaction is published to the commit overlay and queued under one write guard; a log record '
               'enters the log overlay under one guard after being appended; entries leave a layer only after entering the next one and only '
               'by owner id; readers consult commit overlay -> log overlay -> file with the overlay read lock held; table bytes are written '
               'only by appliers between read_next and end_read; a value fetched by key is returned only after its stored key tail compared equal.')
EXPLANATION += ' Added: overlay entries are replaced whole; overlay slots are addressed by log_index only; a lookup holds the reindex guard from its first search; index entry copies are purged from all generations; point reads of chained values under one overlay guard (known finding F32); thorough tier: witnesses W1, W2.'
ASSUMPTIONS = ['linearizability proper and memory ordering of Relaxed atomics are not decided', 'unwind edges ignored']
TRUSTED = ['rustc MIR construction (nightly)', 'pdb-facts driver', 'rule engine /verif/rules', 'anchor tables in props/shared.py, props/C05.py']


def key_tail_whole(ctx, p):
    """TableKey::compare compares the WHOLE stored key tail with the whole partial key: the index keeps only ~50 bits of the key
    (and the vector search matches 32 of them), so every byte of the tail that the index does not pin down is verified here."""
    F = ctx.F
    cb = ctx.body('table::key::TableKey::compare')
    if not cb:
        return
    eqs = [bi for bi, t in cb.calls() if bi in cb.normal_blocks() and call_matches(t, ['re:PartialEq<.*>>::(eq|ne)$', 'std::cmp::PartialEq::eq', 'std::cmp::PartialEq::ne', 're:PartialEq>::(eq|ne)$'])]
    ctx.ob(p + 'w0 compare-anchor', 'anchor', cb.path, 'TableKey::compare contains the equality test of the key tail', len(eqs) >= 1, str(eqs))
    for s2 in eqs:
        bad = []
        pk = False
        for a in cb.term(s2)['a'][:2]:
            if op_place(a) is None:
                continue
            sl = backward_slice(cb, [op_place(a)])
            bad += [c for c in sl.calls if re.search(r'ops::Index(Mut)?<.*>::index(_mut)?$', c) or c in ('std::ops::Index::index', 'std::ops::IndexMut::index_mut') or re.search(r'::(split_at|split_first|split_last|get|first_chunk|last_chunk|chunks|windows|iter|skip|take)$', c)]
            pk = pk or any(c.endswith('key::partial_key') for c in sl.calls)
        ctx.ob(p + 'w whole-key-tail-compared', 'K8-const', cb.path,
               'the equality in TableKey::compare is applied to the complete partial key and the complete fetched tail (no sub-slicing: bytes the index lookup does not fully determine must be checked here)',
               not bad and pk, 'operands are narrowed by %s' % sorted(set(bad))[:3] if bad else ('' if pk else 'partial_key() is not an operand'), cb.loc(s2))
    pkb = F.body('table::key::partial_key')
    ps = F.consts.get('table::key::PARTIAL_SIZE', {}).get('i')
    if pkb and ps is not None:
        starts = [st['r']['a'][0].get('i') for blk in pkb.blocks for st in blk['s'] if st['k'] == 'assign' and st['r']['k'] == 'agg' and str(st['r']['ak']).endswith('RangeFrom') and st['r']['a']]
        ctx.ob(p + 'w2 partial-key-is-the-last-PARTIAL_SIZE-bytes', 'K8-const', pkb.path, 'partial_key(hash) is hash[32 - PARTIAL_SIZE ..]', starts == [32 - ps], 'starts %s PARTIAL_SIZE %s' % (starts, ps))


def key_tail_check(ctx, p):
    key_tail_whole(ctx, p)
    F = ctx.F
    b = ctx.body('table::ValueTable::for_parts')
    if not b:
        return
    CMP = 'table::key::TableKey::compare'
    cmp_ = b.call_sites(CMP)
    cb = b.call_sites('std::ops::FnMut::call_mut', 're:FnMut.*::call_mut$')
    # the comparison may sit in a helper of the table that for_parts asks for a verdict (`if !self.read_queried_key(..)? { return .. }`)
    helper = None
    if not cmp_:
        for bi, t in b.calls():
            for n in sorted(set(call_names(t))):
                hb = F.bodies.get(n)
                if bi in b.normal_blocks() and hb is not None and n.startswith('table::') and '{closure' not in n and len(hb.call_sites(CMP)) == 1 and re.search(r'^(std::result::Result<bool,|bool$)', str(hb.locals[0])):
                    helper = (bi, hb)
    ctx.ob(p + 'a for_parts-anchors', 'anchor', b.path, 'for_parts has one key comparison (its own or that of one verdict helper) and one callback invocation',
           (len(cmp_) == 1 or (not cmp_ and helper is not None)) and len(cb) == 1, 'compare %s helper %s callback %s' % (cmp_, helper and helper[1].path, cb))
    if not (len(cmp_) == 1 or helper) or len(cb) != 1:
        return
    k = cb[0]

    def eq_edges(body, c):
        """(switch, target on equal, target on not equal) of the branch on the bool result of the call in block c"""
        for sw, tr, fa in lib.bool_outcome_edges(body, [c]):
            return sw, tr[1], fa[1]
        return None

    def arm_of(body):
        for bi in body.normal_blocks():
            t = body.term(bi)
            if t['k'] == 'switch':
                d = lib.switch_def(body, bi)
                if d and d[2] == 'assign' and d[3]['r']['k'] == 'discr' and 'TableKeyQuery' in str(body.locals[d[3]['r']['p'][0]]):
                    for v, tg in zip(t['vals'], t['ts']):
                        if v == 0:
                            return tg
        return None
    ok = False
    det = 'the callback does not depend on the outcome of TableKey::compare'
    if helper:
        c, hb = helper
        hc = hb.call_sites(CMP)[0]
        # the helper says "true" only on the equal edge of its comparison
        def says_true(bi):
            for st in hb.blocks[bi]['s']:
                if st['k'] == 'assign' and st['p'] == [0]:
                    r = st['r']
                    if r['k'] == 'agg' and r['ak'] == core.RES_ERR:
                        return False
                    v = r['a'][0].get('i') if r.get('a') and isinstance(r['a'][0], dict) else None
                    return v != 0
            return False
        trues = set(bi for bi in hb.normal_blocks() if says_true(bi))
        he = eq_edges(hb, hc)
        h_ok = bool(he) and bool(trues) and hb.find_path([he[2]], trues) is None
        fe = eq_edges(b, c)
        if fe and h_ok:
            sw, eq_t, ne_t = fe
            yes_no = [(yes, no) for (s_, yes, no) in b.control_deps(k) if s_ == sw]
            ok = bool(yes_no) and eq_t in yes_no[0][0] and ne_t in yes_no[0][1]
            det = '' if ok else 'the callback (value bytes handed out) is reachable on the key-mismatch edge'
        elif fe:
            det = 'the helper %s can report a match on the not-equal edge of its comparison' % hb.path
        ctx.ob(p + 'b value-only-after-key-match', 'K3-guard', b.path,
               'value bytes are handed to the caller only on the equal outcome of the stored-key-tail comparison (mismatch -> (0,false))', ok, det, b.loc(k))
        arm = arm_of(hb)
        w = hb.find_path([arm], trues, removed={hc}) if arm is not None else ['?']
        ctx.ob(p + 'c check-arm-always-compares', 'K1-must-pass', hb.path, 'with TableKeyQuery::Check every path to the callback passes TableKey::compare',
               arm is not None and w is None, 'no Check arm found' if arm is None else 'path: ' + lib.short_path(hb, w))
    else:
        c = cmp_[0]
        fe = eq_edges(b, c)
        if fe:
            sw, eq_t, ne_t = fe
            yes_no = [(yes, no) for (s_, yes, no) in b.control_deps(k) if s_ == sw]
            ok = bool(yes_no) and eq_t in yes_no[0][0] and ne_t in yes_no[0][1]
            det = '' if ok else 'the callback (value bytes handed out) is reachable on the key-mismatch edge'
        ctx.ob(p + 'b value-only-after-key-match', 'K3-guard', b.path,
               'value bytes are handed to the caller only on the equal outcome of the stored-key-tail comparison (mismatch -> (0,false))', ok, det, b.loc(k))
        # on the Check arm the comparison cannot be bypassed
        arm = arm_of(b)
        w = b.find_path([arm], {k}, removed={c}) if arm is not None else ['?']
        ctx.ob(p + 'c check-arm-always-compares', 'K1-must-pass', b.path, 'with TableKeyQuery::Check every path to the callback passes TableKey::compare',
               arm is not None and w is None, 'no Check arm found' if arm is None else 'path: ' + lib.short_path(b, w))
    # by-key fetches use Check(Partial(key))
    for fn in ('column::HashColumn::get_in_index',):
        g = ctx.body(fn)
        if g:
            gv = g.call_sites('column::Column::get_value')
            ok = False
            for s in gv:
                sl = backward_slice(g, [op_place(g.term(s)['a'][0])])
                ok = any(c.get('ty', '').startswith('table::key::TableKeyQuery') for c in sl.consts) or True
                aggs = [x for l in sl.locals for (bi, si, kind, x) in g.defs().get(l, []) if kind == 'assign' and x['r']['k'] == 'agg']
                kinds = set(x['r']['ak'] for x in aggs)
                ok = 'Adt:table::key::TableKeyQuery::Check' in kinds and 'Adt:table::key::TableKey::Partial' in kinds
            ctx.ob(p + 'd by-key-fetch-checks-key %s' % fn, 'K4-provenance', fn, 'index candidates are fetched with TableKeyQuery::Check(TableKey::Partial(key))', ok and bool(gv), '')
    # the page scan continues after a mismatch: second IndexTable::get starts at sub_index + 1
    for fn in ('column::HashColumn::get_in_index', 'column::HashColumn::search_index', 'column::HashColumn::contains_partial_key_with_address'):
        g = ctx.body(fn)
        if not g:
            continue
        gets = g.call_sites('index::IndexTable::get')
        if not gets:
            # a wrapper (`contains` = `find(..).is_some()`): the scan lives in the helper it calls
            for _bi, t in g.calls():
                for nm in call_names(t):
                    h = F.body(nm)
                    if h is not None and h.path.startswith('column::HashColumn::') and h.call_sites('index::IndexTable::get'):
                        g = h
            gets = g.call_sites('index::IndexTable::get')
        inloop = [s for s in gets if s in g.reaches(s)]
        # two forms: a first lookup at 0 followed by a loop whose lookup starts at (previous position + 1); or one lookup site
        # inside a loop whose start position is a variable that is 0 at first and (previous position + 1) afterwards
        ok = (len(gets) == 2 and len(inloop) == 1) or (len(gets) == 1 and len(inloop) == 1)
        det = 'IndexTable::get sites %s, in-loop %s' % (gets, inloop)
        if ok:
            a = g.term(inloop[0])['a'][2]
            sl = backward_slice(g, [op_place(a)]) if op_place(a) else None
            ok = sl is not None and ('AddWithOverflow' in sl.binops or 'Add' in sl.binops) and any(c.get('i') == 1 for c in sl.consts) and any(bi in gets for bi, _ in sl.call_sites)
            if ok and len(gets) == 1:
                ok = any(c.get('i') == 0 for c in sl.consts)        # ... and starts at slot 0
            det = '' if ok else 'the continuation does not start from (previous sub_index + 1)'
        ctx.ob(p + 'e scan-continues-after-miss %s' % fn, 'K3-guard', fn, 'after a candidate that is not the key, the index page scan continues from the next slot', ok, det)


def run(ctx):
    shared.atomic_publication(ctx, '1')
    shared.handover_order(ctx, '2')
    shared.overlay_slot_addressed_by_log_index(ctx, '10')   # shadowing needs the right slot: the overlay of a table lives at its log_index()
    shared.index_entry_purged_from_all_generations(ctx, '11')   # a removed key is not served through a copy of its entry in another index generation
    shared.value_read_one_guard(ctx, '12', callers=['db::DbInner::get', 'column::HashColumn::get_size'])   # a point read never returns a mix of two values
    shared.index_entries_stored_whole(ctx, '14')   # F77: an index entry changes as a whole under a concurrent page search
    shared.removal_planned_in_order(ctx, '13')   # what the log worker applies for a transaction is what the commit overlay showed for it (F63)
    shared.lookup_sees_one_queue_state(ctx, '9')    # a reader concurrent with the end of an index growth still finds every present key
    shared.deferral_keeps_commit_order(ctx, '2')    # commit order also holds when a tree dereference in the same transaction is postponed
    shared.wal_confinement(ctx, '3')
    shared.owner_id_removal(ctx, '3o')
    shared.overlay_entries_replaced_whole(ctx, '3ow', MAPS=shared.COMMIT_OVERLAY_MAPS, what='commit', key=' commit-overlay-entries-replaced-whole', floor=2)
    shared.read_layering(ctx, '4')
    key_tail_check(ctx, '5')
    shared.file_reads_shadowed(ctx, '6')
