"""Value-provenance terms: the expression tree that defines a MIR local, read off the reaching definitions
(a dataflow fact, nothing is evaluated). Locals with one definition are replaced by their defining rvalue,
locals with several definitions (loop-carried variables, the return place) become ('var', local) with the list of
their definitions kept aside. Straight-line crate callees (no branch besides overflow assertions) are inlined;
everything else stays an uninterpreted ('call', name, args).

Term forms (hashable tuples):
  ('k', int)                       integer constant            ('k', None, ty)  other constant
  ('arg', n)                       n-th parameter of the root function (1-based, as in MIR)
  ('bin', op, a, b)                Add Sub Mul Div Rem Shl Shr BitAnd BitOr BitXor Eq Ne Lt Le Gt Ge   (XWithOverflow -> X)
  ('un', op, a)                    Not Neg
  ('cast', to_ty, a)               integer casts (IntToInt); pointer casts and unsizing are transparent
  ('fld', base, proj)              field projection that could not be resolved into an aggregate
  ('agg', kind, (a, ...))          aggregates
  ('call', name, (a, ...))         uninterpreted call (resolved callee name)
  ('var', local)                   local with several definitions (see TermBuilder.var_defs)
  ('slice', base, from, to|None)   sub-slice of an array/slice by a range
  ('mem', base, byte_off, width)   little-endian integer of `width` bytes read at byte_off of base
  ('ptr', base, byte_off)          pointer into base
  ('max', a, b) ('min', a, b) ('tz', a) ('lz', a)
"""
import re

WOV = {'AddWithOverflow': 'Add', 'SubWithOverflow': 'Sub', 'MulWithOverflow': 'Mul',
       'AddUnchecked': 'Add', 'SubUnchecked': 'Sub', 'MulUnchecked': 'Mul', 'ShlUnchecked': 'Shl', 'ShrUnchecked': 'Shr'}
COMMUT = {'Add', 'Mul', 'BitAnd', 'BitOr', 'BitXor', 'Eq', 'Ne'}

IDENT_CALLS = re.compile(r'(^|::)(Into::into|From::from|TryInto::try_into|TryFrom::try_from|Result::<T, E>::unwrap|Result::<T, E>::expect|'
                         r'Option::<T>::unwrap|Option::<T>::expect|Clone::clone|Borrow::borrow|AsRef::as_ref|Deref::deref|IntoIterator::into_iter|'
                         r'convert::identity)$|<T as std::convert::(Into|TryInto)<U>>::(into|try_into)$|^std::result::Result::<T, E>::unwrap$|^std::option::Option::<T>::unwrap$')


def K(n):
    return ('k', n)


def strip_casts(t):
    while isinstance(t, tuple) and t and t[0] == 'cast':
        t = t[2]
    return t


def norm(t):
    """light normalisation: commutative operands ordered, x+0, x*1, nested constant folding of + and *."""
    if not isinstance(t, tuple) or not t:
        return t
    if t[0] == 'bin':
        op, a, b = t[1], norm(t[2]), norm(t[3])
        if a[0] == 'k' and b[0] == 'k' and a[1] is not None and b[1] is not None and len(a) == 2 and len(b) == 2:
            x, y = a[1], b[1]
            try:
                v = {'Add': x + y, 'Sub': x - y, 'Mul': x * y, 'Shl': x << y if 0 <= y < 128 else None, 'Shr': x >> y if 0 <= y < 128 else None,
                     'Div': x // y if y else None, 'Rem': x % y if y else None, 'BitAnd': x & y, 'BitOr': x | y, 'BitXor': x ^ y}.get(op)
            except Exception:
                v = None
            if v is not None:
                return K(v)
        if op == 'Add' and b == K(0):
            return a
        if op == 'Add' and a == K(0):
            return b
        if op == 'Sub' and b == K(0):
            return a
        if op == 'Mul' and b == K(1):
            return a
        if op == 'Mul' and a == K(1):
            return b
        if op in COMMUT and repr(a) > repr(b):
            a, b = b, a
        return ('bin', op, a, b)
    if t[0] in ('cast', 'un'):
        return (t[0], t[1], norm(t[2]))
    if t[0] in ('agg', 'call'):
        return (t[0], t[1], tuple(norm(x) for x in t[2]))
    if t[0] in ('max', 'min'):
        a, b = norm(t[1]), norm(t[2])
        if repr(a) > repr(b):
            a, b = b, a
        return (t[0], a, b)
    if t[0] in ('mem', 'ptr', 'slice', 'fld', 'tz', 'lz'):
        return tuple([t[0]] + [norm(x) if isinstance(x, tuple) else x for x in t[1:]])
    return t


def addends(t):
    """flatten a sum into (list of non-constant addends, constant part); casts are looked through"""
    t = strip_casts(t)
    if isinstance(t, tuple) and t[0] == 'bin' and t[1] == 'Add':
        a1, c1 = addends(t[2])
        a2, c2 = addends(t[3])
        return a1 + a2, c1 + c2
    if isinstance(t, tuple) and t[0] == 'k' and len(t) == 2 and t[1] is not None:
        return [], t[1]
    return [t], 0


def walk(t):
    yield t
    if isinstance(t, tuple):
        for x in t[1:]:
            if isinstance(x, tuple):
                if x and isinstance(x[0], str):
                    yield from walk(x)
                else:
                    for y in x:
                        if isinstance(y, tuple):
                            yield from walk(y)


def show(t, depth=0):
    if not isinstance(t, tuple):
        return str(t)
    if depth > 12:
        return '..'
    h = t[0]
    if h == 'k':
        return str(t[1]) if len(t) == 2 else 'const:%s' % t[2]
    if h == 'arg':
        return 'arg%d' % t[1]
    if h == 'var':
        return 'var_%d' % t[1]
    if h == 'bin':
        return '%s(%s, %s)' % (t[1], show(t[2], depth + 1), show(t[3], depth + 1))
    if h in ('un', 'cast'):
        return '%s<%s>(%s)' % (h, t[1], show(t[2], depth + 1))
    if h in ('agg', 'call'):
        return '%s(%s)' % (t[1].split('::')[-1] if h == 'call' else t[1], ', '.join(show(x, depth + 1) for x in t[2]))
    return '%s(%s)' % (h, ', '.join(show(x, depth + 1) if isinstance(x, tuple) else str(x) for x in t[1:]))


def straight_line(body):
    """no branching besides assertions / unwinding: the callee computes one expression"""
    for bi in body.normal_blocks():
        t = body.term(bi)
        if t['k'] in ('switch',):
            return False
    return True


class TermBuilder:
    def __init__(self, F, body, args=None, depth=4):
        self.F, self.body, self.depth = F, body, depth
        self.VAR = 'var' if args is None else 'cvar'      # multi-definition locals of an inlined callee are told apart from the root's
        self.args = args            # substituted actual terms when inlined, else None (-> ('arg', n))
        self.defs = {}              # local -> [(block, kind, payload)]
        self.pos = {}               # id(payload) -> (block, statement index); a terminator sits behind the statements
        for bi in sorted(body.normal_blocks()):
            blk = body.blocks[bi]
            for si, s in enumerate(blk['s']):
                if s['k'] == 'assign' and len(s['p']) == 1:
                    self.defs.setdefault(s['p'][0], []).append((bi, 'rv', s['r']))
                    self.pos[id(s['r'])] = (bi, si)
                elif s['k'] == 'assign':
                    self.defs.setdefault(s['p'][0], []).append((bi, 'partial', s))
                    self.pos[id(s)] = (bi, si)
            t = blk['t']
            if t['k'] == 'call' and t.get('d') and len(t['d']) == 1:
                self.defs.setdefault(t['d'][0], []).append((bi, 'call', t))
                self.pos[id(t)] = (bi, len(blk['s']))
            elif t['k'] == 'call' and t.get('d'):
                self.defs.setdefault(t['d'][0], []).append((bi, 'partial', t))
                self.pos[id(t)] = (bi, len(blk['s']))
        self.memo = {}
        self.var_defs = {}
        self._rd = {}               # local -> {block: (IN set, OUT set)} of definition indices ('entry' = none yet)
        self._expanding = set()

    # -- reaching definitions of multi-definition locals
    def reaching(self, l, site):
        """indices (into self.defs[l]) of the definitions of l that reach the program point `site` = (block, statement index)"""
        ds = self.defs.get(l, [])
        bi, si = site
        here = [(self.pos[id(pl)][1], k) for k, (b, kind, pl) in enumerate(ds) if b == bi and self.pos[id(pl)][1] < si]
        if here:
            return frozenset([max(here)[1]])
        if l not in self._rd:
            b = self.body
            nb = sorted(b.normal_blocks())
            last = {}
            for k, (db, kind, pl) in enumerate(ds):
                if db not in last or self.pos[id(pl)][1] > self.pos[id(ds[last[db]][2])][1]:
                    last[db] = k
            IN = {x: set() for x in nb}
            OUT = {x: set() for x in nb}
            IN[0] = {'entry'}
            changed = True
            while changed:
                changed = False
                for x in nb:
                    i = set(IN[x])
                    for p in b.pred(x):
                        if p in OUT:
                            i |= OUT[p]
                    o = {last[x]} if x in last else set(i)
                    if i != IN[x] or o != OUT[x]:
                        IN[x], OUT[x] = i, o
                        changed = True
            self._rd[l] = IN
        return frozenset(self._rd[l].get(bi, set()))

    def var_at(self, l, site):
        """the value of a multi-definition local read at `site`: its only reaching definition, else a variable"""
        if site is None:
            return (self.VAR, l)
        rd = self.reaching(l, site)
        ds = self.defs.get(l, [])
        if len(rd) == 1 and 'entry' not in rd:
            k = next(iter(rd))
            b_, kind, pl = ds[k]
            if kind != 'partial' and (l, k) not in self._expanding:
                self._expanding.add((l, k))
                try:
                    return self.rvalue(pl) if kind == 'rv' else self.call(pl)
                finally:
                    self._expanding.discard((l, k))
        if rd == frozenset(range(len(ds))) or self.VAR != 'var':
            return (self.VAR, l)            # every definition reaches: the loop-carried value
        if rd == frozenset(['entry']) and 1 <= l <= self.body.argc:
            return self.args[l - 1] if self.args is not None else ('arg', l)
        return (self.VAR, l, tuple(sorted(str(x) for x in rd)))

    # -- operands / places
    def operand(self, o, site=None):
        k = o.get('o')
        if k == 'k':
            if 'i' in o:
                return K(o['i'])
            if 'fn' in o:
                return ('k', None, 'fn:' + o['fn'])
            return ('k', None, o.get('ty', '?') + (':' + str(o['v']) if 'v' in o else ''))
        return self.place(o['p'], site)

    def place(self, p, site=None):
        t = self.local(p[0], site)
        for pr in p[1:]:
            t = self.project(t, pr)
        return t

    def project(self, t, pr):
        if pr == '*':
            return t
        m = re.match(r'^\.#(\d+)$', pr)
        if m:
            n = int(m.group(1))
            if t[0] == 'ovf':
                return t[1] if n == 0 else ('ovflag', t[1])
            if t[0] == 'agg':
                return t[2][n] if n < len(t[2]) else ('fld', t, pr)
            return ('fld', t, pr)
        m = re.match(r'^\.[\w:<>, ]+\.(\d+)$', pr)
        if m and t[0] == 'agg' and t[1].startswith('Adt'):
            n = int(m.group(1))
            if n < len(t[2]):
                return t[2][n]
        return ('fld', t, pr)

    def local(self, l, site=None):
        if site is not None and self.memo.get(l) == (self.VAR, l):
            return self.var_at(l, site)
        if l in self.memo:
            return self.memo[l]
        argc = self.body.argc
        if 1 <= l <= argc and l not in self.defs:
            r = self.args[l - 1] if self.args is not None else ('arg', l)
            self.memo[l] = r
            return r
        ds = self.defs.get(l, [])
        if len(ds) != 1 or ds[0][1] == 'partial':
            self.memo[l] = (self.VAR, l)
            if l not in self.var_defs:
                self.var_defs[l] = None           # computed lazily (cycles)
            return self.var_at(l, site) if site is not None else self.memo[l]
        self.memo[l] = (self.VAR, l)                 # cycle guard
        bi, kind, pl = ds[0]
        r = self.rvalue(pl) if kind == 'rv' else self.call(pl)
        self.memo[l] = r
        return r

    def defs_of_var(self, l):
        """[(block, term)] of a multi-definition local"""
        if self.var_defs.get(l) is None:
            out = []
            for bi, kind, pl in self.defs.get(l, []):
                if kind == 'rv':
                    out.append((bi, self.rvalue(pl)))
                elif kind == 'call':
                    out.append((bi, self.call(pl)))
                else:
                    out.append((bi, ('partial', l)))
            self.var_defs[l] = out
        return self.var_defs[l]

    def rvalue(self, r):
        k = r['k']
        site = self.pos.get(id(r))
        if k == 'use':
            return self.operand(r['a'][0], site)
        if k == 'ref' or k == 'addr':
            return self.place(r['p'], site)
        if k == 'bin':
            op = r['op']
            a, b = self.operand(r['a'][0], site), self.operand(r['a'][1], site)
            if op in WOV:
                return ('ovf', ('bin', WOV[op], a, b)) if op.endswith('WithOverflow') else ('bin', WOV[op], a, b)
            return ('bin', op, a, b)
        if k == 'un':
            return ('un', r['op'], self.operand(r['a'][0], site))
        if k == 'cast':
            a = self.operand(r['a'][0], site)
            if r.get('ck') == 'IntToInt':
                return ('cast', r.get('to'), a)
            return a
        if k == 'agg':
            return ('agg', r.get('ak', '?'), tuple(self.operand(x, site) for x in r['a']))
        if k == 'discr':
            return ('disc', self.place(r['p'], site))
        if k == 'len':
            return ('len', self.place(r['p'], site))
        if k == 'copy_for_deref':
            return self.place(r['p'], site)
        return ('rv', k, repr(sorted(r.items()))[:80])

    def call(self, t):
        site = self.pos.get(id(t))
        args = tuple(self.operand(a, site) for a in t['a'])
        names = [t.get('r'), t.get('f')]
        name = names[0] or names[1] or '?'
        full = t.get('ra') or t.get('fa') or name
        # modelled std functions
        if any(n and IDENT_CALLS.search(n) for n in names) and len(args) >= 1:
            return args[0]
        if name.endswith('::index') and 'Index' in (t.get('f') or '') and len(args) == 2:
            rg = args[1]
            if rg[0] == 'agg' and 'RangeFrom' in rg[1]:
                return ('slice', args[0], rg[2][0], None)
            if rg[0] == 'agg' and rg[1].endswith('ops::Range'):
                return ('slice', args[0], rg[2][0], rg[2][1])
            return ('call', name, args)
        if re.search(r'::from_le_bytes$', name) and args and args[0][0] == 'slice':
            s = args[0]
            w = None
            m = re.search(r'impl (u|i)(\d+)>', full)
            if m:
                w = int(m.group(2)) // 8
            return ('mem', s[1], s[2], w)
        if re.search(r'slice::<impl \[T\]>::as_ptr$', name) and args:
            s = args[0]
            if s[0] == 'slice':
                return ('ptr', s[1], s[2])
            return ('ptr', s, K(0))
        if name in ('std::cmp::max', 'core::cmp::max', 'std::cmp::Ord::max') and len(args) == 2:
            return ('max', args[0], args[1])
        if name in ('std::cmp::min', 'core::cmp::min', 'std::cmp::Ord::min') and len(args) == 2:
            return ('min', args[0], args[1])
        if re.search(r'::trailing_zeros$', name):
            return ('tz', args[0])
        if re.search(r'::leading_zeros$', name):
            return ('lz', args[0])
        m = re.search(r'::(wrapping|saturating|unchecked)_(add|sub|mul|shl|shr)$', name)
        if m and m.group(1) in ('wrapping', 'unchecked') and len(args) == 2:
            return ('bin', m.group(2).capitalize(), args[0], args[1])
        # crate callee: inline if straight-line
        callee = None
        for n in names:
            if n and n in self.F.bodies:
                callee = self.F.bodies[n]
                break
        if callee is not None and self.depth > 0 and straight_line(callee) and callee.argc == len(args):
            tb = TermBuilder(self.F, callee, args=list(args), depth=self.depth - 1)
            r = tb.local(0)
            if not any(isinstance(x, tuple) and x and x[0] in ('cvar', 'partial') for x in walk(r)):
                return r
        return ('call', full if re.search(r'arch::', name) else name, args)
