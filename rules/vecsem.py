"""Lane provenance of 128-bit integer vectors: which memory / scalar feeds which 32-bit lane.
A trusted table of the data movement of the SSE2 intrinsics the crate uses (and their close siblings), applied to the
provenance terms of symterm.py. Nothing is evaluated: a vector is a list of four lane terms

    ('lo', e) / ('hi', e)      low / high half of the 64-bit term e
    ('t32', s)                 the scalar term s truncated to 32 bits
    ('eq32', a, b)             all-ones when lane a == lane b (result lanes of a compare)
    ('zero',)

An intrinsic that is not in the table raises Unknown (the rule that needed the lanes fails closed and names it)."""
import re
from symterm import K, strip_casts, norm


class Unknown(Exception):
    pass


def intrinsic(t):
    """('name', generic-args-list) of a call term to a core::arch intrinsic, else None"""
    if not (isinstance(t, tuple) and t and t[0] == 'call'):
        return None
    m = re.search(r'arch::(?:x86_64|x86)::(_mm\w*)(?:::<(.*)>)?$', t[1])
    if not m:
        return None
    g = [int(x) for x in re.findall(r'-?\d+', m.group(2) or '')]
    return m.group(1), g


def elems64(ls):
    """two 64-bit element terms of a 4-lane vector (lanes must pair up as lo/hi of the same term)"""
    out = []
    for j in (0, 2):
        a, b = ls[j], ls[j + 1]
        if a[0] == 'lo' and b[0] == 'hi' and a[1] == b[1]:
            out.append(a[1])
        elif a[0] == 'zero' and b[0] == 'zero':
            out.append(K(0))
        else:
            raise Unknown('64-bit element made of unrelated lanes')
    return out


def from64(es):
    out = []
    for e in es:
        if e == K(0):
            out += [('zero',), ('zero',)]
        else:
            out += [('lo', e), ('hi', e)]
    return out


def lanes(t):
    it = intrinsic(t)
    if it is None:
        raise Unknown('not a vector intrinsic: %r' % (t[:2] if isinstance(t, tuple) else t,))
    name, g = it
    a = t[2]
    if name in ('_mm_loadu_si128', '_mm_load_si128', '_mm_lddqu_si128'):
        p = a[0]
        if p[0] != 'ptr':
            raise Unknown('load from an untracked pointer')
        base, off = p[1], p[2]
        return from64([('mem', base, norm(off), 8), ('mem', base, norm(('bin', 'Add', off, K(8))), 8)])
    if name == '_mm_set1_epi32':
        return [('t32', strip_casts(a[0]))] * 4
    if name == '_mm_set_epi32':
        return [('t32', strip_casts(x)) for x in reversed(a)]
    if name == '_mm_setr_epi32':
        return [('t32', strip_casts(x)) for x in a]
    if name == '_mm_set_epi64x':
        return from64([strip_casts(a[1]), strip_casts(a[0])])
    if name == '_mm_set1_epi64x':
        return from64([strip_casts(a[0])] * 2)
    if name == '_mm_setzero_si128':
        return [('zero',)] * 4
    if name == '_mm_cvtsi32_si128':
        return [('t32', strip_casts(a[0])), ('zero',), ('zero',), ('zero',)]
    if name == '_mm_cvtsi64_si128':
        return from64([strip_casts(a[0]), K(0)])
    if name in ('_mm_srl_epi64', '_mm_sll_epi64'):
        v, c = lanes(a[0]), lanes(a[1])
        cnt = elems64(c)[0]
        op = 'Shr' if name == '_mm_srl_epi64' else 'Shl'
        return from64([('bin', op, e, cnt) for e in elems64(v)])
    if name in ('_mm_srli_epi64', '_mm_slli_epi64'):
        v = lanes(a[0])
        if not g:
            raise Unknown(name + ' without immediate')
        op = 'Shr' if name == '_mm_srli_epi64' else 'Shl'
        return from64([('bin', op, e, K(g[0])) for e in elems64(v)])
    if name == '_mm_shuffle_epi32':
        v = lanes(a[0])
        if not g:
            raise Unknown('_mm_shuffle_epi32 without immediate')
        return [v[(g[0] >> (2 * j)) & 3] for j in range(4)]
    if name == '_mm_unpacklo_epi64':
        x, y = lanes(a[0]), lanes(a[1])
        return x[0:2] + y[0:2]
    if name == '_mm_unpackhi_epi64':
        x, y = lanes(a[0]), lanes(a[1])
        return x[2:4] + y[2:4]
    if name == '_mm_unpacklo_epi32':
        x, y = lanes(a[0]), lanes(a[1])
        return [x[0], y[0], x[1], y[1]]
    if name == '_mm_unpackhi_epi32':
        x, y = lanes(a[0]), lanes(a[1])
        return [x[2], y[2], x[3], y[3]]
    if name == '_mm_cmpeq_epi32':
        x, y = lanes(a[0]), lanes(a[1])
        return [('eq32', p, q) for p, q in zip(x, y)]
    raise Unknown('intrinsic %s is not in the lane table' % name)


def movemask(t):
    """('mask', bits_per_lane, (pred0..pred3)) for a call to a movemask intrinsic over compare lanes"""
    it = intrinsic(t)
    if it is None or it[0] not in ('_mm_movemask_epi8', '_mm_movemask_ps'):
        return None
    a = t[2][0]
    if it[0] == '_mm_movemask_ps':
        ca = intrinsic(a)
        if ca and ca[0] == '_mm_castsi128_ps':
            a = a[2][0]
        bits = 1
    else:
        bits = 4        # one bit per byte, four bytes per 32-bit lane
    ls = lanes(a)
    if not all(l[0] == 'eq32' for l in ls):
        raise Unknown('movemask over lanes that are not compare results')
    return ('mask', bits, tuple(ls))
