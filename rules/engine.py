"""Rule engine driver: fact extraction/caching, obligation bookkeeping, known findings, evidence."""
import os, sys, json, time, fcntl, glob, subprocess, shutil, re
import core

VERIF = os.path.dirname(os.path.dirname(os.path.abspath(__file__)))
REPO = os.environ.get('PDB_REPO', '/repo')
CACHE = os.environ.get('PDB_CACHE', os.path.join(VERIF, '.cache'))

CONFIGS = {
    # name -> (cargo args, crates to dump, packages)
    'default': ([], 'parity_db', '-p parity-db'),
    'instrumentation': (['--features', 'instrumentation'], 'parity_db', '-p parity-db'),
    # the shape `cargo build --release` compiles: no debug assertions, no overflow checks
    'release-shape': ([], 'parity_db', '-p parity-db'),
}
EXTRA_RUSTFLAGS = {'release-shape': '-C debug-assertions=off -C overflow-checks=off'}

BODY_FLOOR = 900      # 929 bodies counted on the pinned tree (default config)


def get_facts(cfg='default'):
    """Facts for /repo's current working tree in configuration cfg; extracted by the driver
    unless a fact file for exactly this source content (sha256) exists."""
    os.makedirs(CACHE, exist_ok=True)
    def cur_hash():
        h = core.source_hash(REPO)
        drv = os.path.join(VERIF, 'driver', 'target', 'release', 'pdb-facts')
        if os.path.exists(drv):
            import hashlib
            h = hashlib.sha256((h + hashlib.sha256(open(drv, 'rb').read()).hexdigest()).encode()).hexdigest()      # facts depend on the driver too
        return h
    h = cur_hash()
    lock = open(os.path.join(CACHE, 'extract-%s.lock' % cfg), 'w')
    fcntl.flock(lock, fcntl.LOCK_EX)
    try:
        out = os.path.join(CACHE, 'facts-%s' % cfg)
        stamp = os.path.join(out, 'SOURCE_HASH')
        files = glob.glob(os.path.join(out, 'parity_db.*.facts.json'))
        fresh = False
        if files and os.path.exists(stamp) and open(stamp).read().strip() == h:
            fresh = True
        if not fresh:
            t0 = time.time()
            if os.path.exists(stamp):
                os.remove(stamp)
            args, crates, pkgs = CONFIGS[cfg]
            env = dict(os.environ)
            env['PDB_FACTS_CRATES'] = crates
            env['PDB_PKGS'] = pkgs
            env['PDB_REPO'] = REPO
            env['PDB_EXTRA_RUSTFLAGS'] = EXTRA_RUSTFLAGS.get(cfg, '')
            r = subprocess.run([os.path.join(VERIF, 'bin', 'extract_facts.sh'), cfg, out] + args,
                               env=env, stdout=subprocess.PIPE, stderr=subprocess.STDOUT, text=True)
            if r.returncode != 0:
                sys.stdout.write(r.stdout)
                raise SystemExit('FATAL: fact extraction failed for config %s (the tree must compile)' % cfg)
            files = glob.glob(os.path.join(out, 'parity_db.*.facts.json'))
            if not files:
                raise SystemExit('FATAL: driver wrote no fact file for config %s' % cfg)
            if os.path.getmtime(files[0]) < t0 - 1:
                raise SystemExit('FATAL: stale fact file for config %s' % cfg)
            # the tree may have been edited while extracting: stamp with the hash read before
            if cur_hash() == h:
                open(stamp, 'w').write(h)
        f = core.Facts(files[0])
        f.cfg = cfg
        f.source_hash = h
        if len(f.bodies) < BODY_FLOOR:
            raise SystemExit('FATAL: only %d bodies analysed (< floor %d): incomplete build?' % (len(f.bodies), BODY_FLOOR))
        return f
    finally:
        fcntl.flock(lock, fcntl.LOCK_UN)
        lock.close()


class Ob:
    __slots__ = ('key', 'rule', 'fn', 'desc', 'ok', 'detail', 'loc', 'cfg')
    def __init__(self, key, rule, fn, desc, ok, detail, loc, cfg):
        self.key, self.rule, self.fn, self.desc, self.ok, self.detail, self.loc, self.cfg = key, rule, fn, desc, ok, detail, loc, cfg


class Ctx:
    """Collects obligations of one property check."""
    def __init__(self, prop, tier, facts_by_cfg):
        self.prop = prop
        self.tier = tier
        self.facts_by_cfg = facts_by_cfg
        self.F = facts_by_cfg['default']
        self.cfg = 'default'
        self.obs = []
        self.notes = []
        self.info = {}

    def use(self, cfg):
        self.F = self.facts_by_cfg[cfg]
        self.cfg = cfg

    def body(self, path):
        """anchor lookup: a missing anchor is a loud failure (fail closed)."""
        b = self.F.body(path)
        if b is None:
            self.ob('anchor-missing:' + path, 'anchor', path, 'anchor function must exist', False,
                    'no body with def-path %s in crate (renamed/removed? update the rule table)' % path)
            return b
        # a function that became a one-line wrapper of a variant of itself (`open_inner(o, m)` -> `open_inner_in_version(o, m, None)`):
        # the rules written for it apply to the body that now holds the code
        for _ in range(3):
            crate_calls = sorted(set(n for bi, t in b.calls() if bi in b.normal_blocks() for n in core.call_names(t) if n in self.F.bodies))
            # (only prepositional variants: `x_in_version`, `x_with_options`, .. - `commit` calling `commit_changes` is not a wrapper of itself)
            if len(crate_calls) == 1 and re.match(re.escape(b.path) + r'_(in|with|for|at|by|from|using)_\w+$', crate_calls[0]) and len(b.normal_blocks()) <= 6:
                b = self.F.body(crate_calls[0])
                self.delegated = getattr(self, 'delegated', []) + [(path, b.path)]
            else:
                break
        return b

    def ob(self, key, rule, fn, desc, ok, detail='', loc=None):
        """record an obligation. key: stable id (no line numbers)."""
        full = '%s %s' % (self.prop, key)
        self.obs.append(Ob(full, rule, fn, desc, bool(ok), detail, loc, self.cfg))
        return bool(ok)

    def note(self, s):
        self.notes.append(s)


def load_known_findings():
    """known_findings.txt lines:  'finding: property=<id> key=<exact key> :: <what fails>'
    and 'fixed: property=<id> <commit> <what failed>' (suppresses nothing)."""
    kf = {}
    p = os.path.join(VERIF, 'known_findings.txt')
    if os.path.exists(p):
        for line in open(p):
            line = line.strip()
            if not line.startswith('finding:'):
                continue
            m = re.match(r'finding:\s+property=(\S+)\s+key=(.+?)\s+::\s+(.*)$', line)
            if m:
                kf[m.group(2).strip()] = (m.group(1), m.group(3))
    return kf


def finish(ctx, t0, level, floor, explanation, assumptions, trusted_base, extra_cov=None):
    prop = ctx.prop
    kf = load_known_findings()
    viol, known = [], []
    seen = set()
    for o in ctx.obs:
        if o.ok:
            continue
        if o.key in kf and kf[o.key][0] == prop:
            if o.key not in seen:
                known.append(o)
        else:
            viol.append(o)
        seen.add(o.key)
    nobs = len(ctx.obs)
    if nobs < floor:
        viol.append(Ob('%s obligation-floor' % prop, 'floor', '-', 'number of obligation instances must not fall below the hand-confirmed floor',
                       False, 'only %d obligation instances derived, floor is %d: a rule stopped matching (vacuous pass refused)' % (nobs, floor), None, 'all'))
    for o in known:
        print('KNOWN-FINDING: property=%s %s :: %s' % (prop, o.key, kf[o.key][1]))
    # evidence describes /repo; runs against a scratch copy (self-test, seeded changes) keep theirs with their cache
    evdir = os.path.join(VERIF, 'evidence') if os.path.realpath(REPO) == '/repo' else os.path.join(CACHE, 'evidence')
    os.makedirs(evdir, exist_ok=True)
    vpath = os.path.join(evdir, '%s.violations.json' % prop)
    if viol:
        print('---- %s: %d violation(s) ----' % (prop, len(viol)))
        for o in viol:
            print('VIOLATED [%s] %s' % (o.rule, o.key))
            print('   function : %s  (%s)' % (o.fn, o.loc or '-'))
            print('   rule     : %s' % o.desc)
            print('   detail   : %s' % o.detail)
            print('   config   : %s' % o.cfg)
        json.dump([{'key': o.key, 'rule': o.rule, 'function': o.fn, 'loc': o.loc, 'desc': o.desc, 'detail': o.detail, 'config': o.cfg}
                   for o in viol], open(vpath, 'w'), indent=1)
    elif os.path.exists(vpath):
        os.remove(vpath)
    discharged = sum(1 for o in ctx.obs if o.ok)
    samples = []
    for o in ctx.obs[:400]:
        samples.append({'key': o.key, 'rule': o.rule, 'function': o.fn, 'loc': o.loc, 'obligation': o.desc,
                        'verdict': 'discharged' if o.ok else ('known-finding' if o.key in kf else 'VIOLATED'),
                        'detail': o.detail[:300], 'config': o.cfg})
    F = ctx.facts_by_cfg['default']
    cov = {
        'obligations': nobs,
        'discharged': discharged,
        'known_findings': len(known),
        'checker_cmd': './check %s --tier %s' % (prop, ctx.tier),
        'trusted_base': trusted_base,
        'samples': samples,
        'explanation': explanation,
        'functions_analysed': len(F.bodies),
        'call_terminators': F.ncalls,
        'configs': sorted(ctx.facts_by_cfg.keys()),
        'source_sha256': F.source_hash,
        'obligation_floor': floor,
        'exhaustive': True,
        'rules_applied': sorted(set(o.rule for o in ctx.obs)),
        'notes': ctx.notes,
    }
    if getattr(F, 'renames', None):
        cov['renames_recognised'] = F.renames      # current name -> name in rules/registry.json (same type / signature, unique)
    if ctx.info:
        cov['info'] = ctx.info
    if extra_cov:
        cov.update(extra_cov)
    # proof level requires discharged == obligations; with known findings (or violations) the
    # run is reported at level 'other' - the proof is not complete on this tree.
    lvl = level
    if level == 'proof' and discharged != nobs:
        lvl = 'other'
    ev = {
        'property_id': prop,
        'tier': ctx.tier,
        'seed': int(os.environ.get('VERIF_SEED', '0') or 0),
        'level': lvl,
        'coverage': cov,
        'assumptions': assumptions,
        'wall_s': round(time.time() - t0, 2),
        'violations': len(viol),
    }
    json.dump(ev, open(os.path.join(evdir, '%s.json' % prop), 'w'), indent=1)
    print('%s: %d obligations, %d discharged, %d known findings, %d violations  [%s, %d bodies, %.1fs]' % (
        prop, nobs, discharged, len(known), len(viol), ctx.tier, len(F.bodies), time.time() - t0))
    if viol:
        print('VIOLATION property=%s replay=%s' % (prop, vpath))
        return 1
    return 0


# ---------------------------------------------------------------------------- type-level witnesses (thorough tier)
WITNESSES = {
    # name of the doc-test item -> (error code, what it witnesses)
    'IteratorBorrowsHandle': ('E0597', 'a BTreeIterator borrows the Db it was made from and cannot outlive it'),
    'HandleIsOpaque': ('E0616', 'nothing behind the Db handle (overlay, queues, log, columns) is reachable from outside the crate'),
    'TreeReadOnlyUnderLock': ('E0599', 'the methods of TreeReader are reachable only through the reader lock that get_tree hands out'),
}


def witness_results():
    """Runs the compile-fail witnesses of /verif/witness against REPO (doc tests under the nightly toolchain, which honours the
    error codes). Returns {name: (fails_as_expected, twin_compiles)}; cached per source hash. The crate is instantiated in the
    cache directory with a path dependency on REPO, so scratch copies are tested against themselves."""
    os.makedirs(CACHE, exist_ok=True)
    src = os.path.join(VERIF, 'witness', 'src', 'lib.rs')
    import hashlib
    h = hashlib.sha256((core.source_hash(REPO) + hashlib.sha256(open(src, 'rb').read()).hexdigest()).encode()).hexdigest()
    lock = open(os.path.join(CACHE, 'witness.lock'), 'w')
    fcntl.flock(lock, fcntl.LOCK_EX)
    try:
        res_file = os.path.join(CACHE, 'witness-result.json')
        if os.path.exists(res_file):
            try:
                j = json.load(open(res_file))
                if j.get('hash') == h:
                    return {k: tuple(v) for k, v in j['res'].items()}
            except Exception:
                pass
        crate = os.path.join(CACHE, 'witness-crate')
        shutil.rmtree(crate, ignore_errors=True)
        os.makedirs(os.path.join(crate, 'src'))
        shutil.copy2(src, os.path.join(crate, 'src', 'lib.rs'))
        open(os.path.join(crate, 'Cargo.toml'), 'w').write(
            '[package]\nname = "pdb-witness"\nversion = "0.0.0"\nedition = "2021"\npublish = false\n\n[dependencies]\nparity-db = { path = "%s" }\n\n[workspace]\n' % os.path.realpath(REPO))
        shutil.copy2(os.path.join(REPO, 'Cargo.lock'), os.path.join(crate, 'Cargo.lock'))
        env = dict(os.environ, CARGO_NET_OFFLINE='true', CARGO_TARGET_DIR=os.path.join(CACHE, 'witness-target'))
        r = subprocess.run(['cargo', '+nightly', 'test', '--doc', '--offline'], cwd=crate, env=env, stdout=subprocess.PIPE, stderr=subprocess.STDOUT, text=True)
        res = {}
        for name in WITNESSES:
            cf = re.search(r'^test src/lib\.rs - %s \(line \d+\) - compile fail \.\.\. (\w+)' % name, r.stdout, re.M)
            tw = re.search(r'^test src/lib\.rs - %s \(line \d+\) - compile \.\.\. (\w+)' % name, r.stdout, re.M)
            res[name] = (bool(cf and cf.group(1) == 'ok'), bool(tw and tw.group(1) == 'ok'))
        if not re.search(r'^test result:', r.stdout, re.M):
            sys.stdout.write(r.stdout[-3000:])
            raise SystemExit('FATAL: the witness crate did not build / run (cargo +nightly test --doc)')
        json.dump({'hash': h, 'res': res}, open(res_file, 'w'))
        return res
    finally:
        fcntl.flock(lock, fcntl.LOCK_UN)


def witness_obligations(ctx, names):
    res = witness_results()
    for n in names:
        code, what = WITNESSES[n]
        fails, twin = res.get(n, (False, False))
        ctx.ob('W %s' % n, 'K10-compile-fail-witness', 'witness/src/lib.rs', '%s: the violating program is rejected with %s, and its twin without the offending line compiles' % (what, code),
               fails and twin, '' if fails and twin else ('the violating program compiles (or fails with another error)' if not fails else 'the twin does not compile: the witness fails for the wrong reason'))
