"""K6a error discipline: classification of every fallible call site of the crate."""
import re
import core, lib
from core import op_place, op_local, call_matches, call_names

RES = re.compile(r'^std::result::Result<.*, (error::Error|std::io::Error|std::io::IntoInnerError<.*>|std::boxed::Box<dyn std::any::Any \+ std::marker::Send>|std::sync::Arc<error::Error>)>$')
PROP = re.compile(r'(Result(::)?<.*>::(ok|err|map|map_err|and_then|or_else|as_ref|as_mut|unwrap_or|unwrap_or_else|unwrap_or_default|is_ok|is_err|inspect_err|cloned|copied|transpose|flatten|iter)$'
                  r'|Option(::)?<.*>::(map|map_or|map_or_else|and_then|or_else|unwrap_or.*|is_some|is_none|ok_or.*|transpose)$|Try>?::branch$|FromResidual|IntoIterator)')


def classify(b, bi, t):
    """how the Result produced by call t at block bi is consumed: set of sink kinds
    {'try','ret','discr','switch','unwrap','call:<callee>'}; empty set = dropped."""
    d = t['d'][0]
    taint = {d}
    sinks = set()
    changed = True
    while changed:
        changed = False
        for bj, blk in enumerate(b.blocks):
            for s in blk['s']:
                if s['k'] != 'assign':
                    continue
                r = s['r']
                src = []
                if r['k'] in ('use', 'cast', 'agg', 'bin', 'un', 'repeat'):
                    src = [op_place(a)[0] for a in r['a'] if op_place(a)]
                elif r['k'] in ('ref', 'rawptr', 'copyderef'):
                    src = [r['p'][0]]
                elif r['k'] == 'discr':
                    if r['p'][0] in taint:
                        sinks.add('discr')
                    src = [r['p'][0]]
                if any(x in taint for x in src):
                    if s['p'][0] == 0:
                        sinks.add('ret')
                    if s['p'][0] not in taint:
                        taint.add(s['p'][0]); changed = True
            tm = blk['t']
            if tm['k'] == 'call' and bj != bi:
                if any(op_place(a) and op_place(a)[0] in taint for a in tm['a']):
                    nm = (tm.get('r') or tm.get('f') or '?')
                    if PROP.search(nm):
                        if tm['d'][0] == 0:
                            sinks.add('ret')
                        if 'branch' in nm and 'Try' in nm:
                            sinks.add('try')
                        if tm['d'][0] not in taint:
                            taint.add(tm['d'][0]); changed = True
                    elif re.search(r'::(unwrap|expect|unwrap_err|expect_err)$', nm):
                        sinks.add('unwrap')
                    elif 'drop_in_place' in nm or nm == 'std::mem::drop':
                        pass
                    else:
                        sinks.add('call:' + nm)
            if tm['k'] == 'switch' and op_place(tm['a']) and op_place(tm['a'])[0] in taint:
                sinks.add('switch')
    if t['d'][0] == 0:
        sinks.add('ret')
    return sinks


def fallible_sites(F):
    for b in F.bodies.values():
        for bi, t in b.calls():
            if t['k'] == 'call' and bi in b.normal_blocks() and RES.match(t.get('rty', '')):
                yield b, bi, t
