"""K6a error discipline: classification of every fallible call site of the crate."""
import re
import core, lib
from core import op_place, op_local, call_matches, call_names

RES = re.compile(r'^std::result::Result<.*, (error::Error|std::io::Error|std::io::IntoInnerError<.*>|std::boxed::Box<dyn std::any::Any \+ std::marker::Send>|std::sync::Arc<error::Error>)>$')
PROP = re.compile(r'(Result(::)?<.*>::(ok|err|map|map_err|and_then|or_else|as_ref|as_mut|unwrap_or|unwrap_or_else|unwrap_or_default|is_ok|is_err|inspect_err|cloned|copied|transpose|flatten|iter)$'
                  r'|Option(::)?<.*>::(map|map_or|map_or_else|and_then|or_else|unwrap_or.*|is_some|is_none|ok_or.*|transpose)$|Try>?::branch$|FromResidual|IntoIterator)')


def classify(b, bi, t, depth=1):
    """how the Result produced by call t at block bi is consumed: set of sink kinds
    {'try','ret','discr','switch','unwrap','call:<callee>'}; empty set = dropped.
    A Result handed to a crate helper that takes it as a parameter (`self.step(result)`) is consumed the way the helper consumes
    that parameter."""
    sinks = classify_local(b, t['d'][0], bi)
    if t['d'][0] == 0:
        sinks.add('ret')
    if 'switch' in sinks and not ({'try', 'ret'} & sinks) and str(b.locals[0]).startswith('std::result::Result<'):
        # `match r { Ok(x) => .., Err(_) => Err(Error::X) }`: the error arm leaves through an error exit on every path - the error
        # is converted like map_err + `?` would
        errs = lib.result_err_targets(b, bi)
        exits = core.error_exit_blocks(b)
        if errs and exits and all(b.find_path([tg], b.return_blocks(), removed=set(exits)) is None for tg in errs):
            sinks.add('ret')
    if depth > 0:
        F = b.facts
        for s_ in list(sinks):
            if s_.startswith('call:') and s_[5:] in F.bodies:
                hb = F.bodies[s_[5:]]
                # which parameter of the helper received the value: any parameter of Result type
                for l in range(1, hb.argc + 1):
                    if RES.match(str(hb.locals[l])) or re.match(r'^std::result::Result<', str(hb.locals[l])):
                        inner = classify_local(hb, l, None)
                        if ('call:db::DbInner::store_err' in inner) or ('ret' in inner) or ('try' in inner):
                            sinks |= set(x for x in inner if x.startswith('call:db::DbInner::store_err') or x in ('ret', 'try'))
    return sinks


def classify_local(b, d, bi):
    taint = {d}
    sinks = set()
    changed = True
    while changed:
        changed = False
        for bj, blk in enumerate(b.blocks):
            for s in blk['s']:
                if s['k'] != 'assign':
                    continue
                r = s['r']
                src = []
                if r['k'] in ('use', 'cast', 'agg', 'bin', 'un', 'repeat'):
                    src = [op_place(a)[0] for a in r['a'] if op_place(a)]
                elif r['k'] in ('ref', 'rawptr', 'copyderef'):
                    src = [r['p'][0]]
                elif r['k'] == 'discr':
                    if r['p'][0] in taint:
                        sinks.add('discr')
                    src = [r['p'][0]]
                if any(x in taint for x in src):
                    if s['p'][0] == 0:
                        sinks.add('ret')
                    if s['p'][0] not in taint:
                        taint.add(s['p'][0]); changed = True
            tm = blk['t']
            if tm['k'] == 'call' and bj != bi:
                if any(op_place(a) and op_place(a)[0] in taint for a in tm['a']):
                    nm = (tm.get('r') or tm.get('f') or '?')
                    if PROP.search(nm):
                        if tm['d'][0] == 0:
                            sinks.add('ret')
                        if 'branch' in nm and 'Try' in nm:
                            sinks.add('try')
                        if tm['d'][0] not in taint:
                            taint.add(tm['d'][0]); changed = True
                    elif re.search(r'::(unwrap|expect|unwrap_err|expect_err)$', nm):
                        sinks.add('unwrap')
                    elif 'drop_in_place' in nm or nm == 'std::mem::drop':
                        pass
                    else:
                        sinks.add('call:' + nm)
            if tm['k'] == 'switch' and op_place(tm['a']) and op_place(tm['a'])[0] in taint:
                sinks.add('switch')
    return sinks


def fallible_sites(F):
    for b in F.bodies.values():
        for bi, t in b.calls():
            if t['k'] == 'call' and bi in b.normal_blocks() and RES.match(t.get('rty', '')):
                yield b, bi, t
