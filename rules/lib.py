"""Rule kinds K1..K9 as reusable obligation helpers over core.Body / core.Facts.
Every helper records exactly one obligation in the Ctx (key without line numbers) and returns bool."""
import re
import core
from core import call_matches, call_names, backward_slice, op_local, op_place, place_str

FROM_RESIDUAL = 'std::ops::FromResidual::from_residual'
ATOMIC_STORE = ['re:atomic::Atomic[A-Za-z0-9]*(::<[^>]*>)?::store$']
ATOMIC_LOAD = ['re:atomic::Atomic[A-Za-z0-9]*(::<[^>]*>)?::load$']
ATOMIC_RMW = ['re:atomic::Atomic[A-Za-z0-9]*(::<[^>]*>)?::(swap|fetch_[a-z_]+|compare_exchange(_weak)?)$']
TRY_BRANCH = 'std::ops::Try::branch'


def lines(body, blocks):
    return ' -> '.join('bb%d@L%s' % (b, body.term(b).get('fln') or body.term(b).get('ln')) for b in blocks)


def short_path(body, path, maxn=14):
    if path is None:
        return ''
    if len(path) > maxn:
        path = path[:maxn // 2] + ['...'] + path[-maxn // 2:]
    return ' -> '.join(('bb%d@L%s' % (b, body.term(b).get('fln') or body.term(b).get('ln'))) if isinstance(b, int) else str(b) for b in path)


# ----------------------------------------------------------------------------- assumptions (CFG pruning)

def switch_def(body, bi):
    """for a switch block, return (kind, payload) describing how the discriminant was computed:
    the defining assignment of the discr local if it is in the same block, else None."""
    t = body.term(bi)
    if t['k'] != 'switch':
        return None
    l = op_local(t['a'])
    if l is None:
        return None
    ds = body.defs().get(l, [])
    if len(ds) == 1:
        return ds[0]
    # prefer a def in the same block
    for d in ds:
        if d[0] == bi:
            return d
    return None


def prune_bool_field(body, field, value):
    """edges to remove under the assumption `<place containing field> == value` for switches whose
    discriminant is a direct copy of that field (possibly through one Not)."""
    removed = set()
    for bi in body.normal_blocks():
        t = body.term(bi)
        if t['k'] != 'switch' or t.get('dty') != 'bool':
            continue
        d = switch_def(body, bi)
        if not d or d[2] != 'assign':
            continue
        r = d[3]['r']
        neg = False
        if r['k'] == 'un' and r['op'] == 'Not':
            src = op_local(r['a'][0])
            dd = [x for x in body.defs().get(src, []) if x[2] == 'assign']
            if len(dd) != 1:
                continue
            r = dd[0][3]['r']
            neg = True
        if r['k'] != 'use':
            continue
        p = op_place(r['a'][0])
        if not p or field not in p[1:]:
            continue
        v = bool(value) ^ neg
        # switch vals [0] ts [false_target, true_target]
        if t['vals'] == [0] and len(t['ts']) == 2:
            drop = t['ts'][0] if v else t['ts'][1]
            keep = t['ts'][1] if v else t['ts'][0]
            if drop != keep:
                removed.add((bi, drop))
    return removed


# ----------------------------------------------------------------------------- K1 must-pass

def ok_return_unreachable_avoiding(body, targets, sources=None, removed_edges=frozenset(), extra_removed=(), cut_errors=True):
    """returns None if every path from sources (default entry) to a (success) Return passes a block
    in targets; else a witness path."""
    removed = set(targets) | set(extra_removed)
    if cut_errors:
        removed |= core.error_exit_blocks(body)
    rets = body.return_blocks()
    srcs = [0] if sources is None else list(sources)
    # a source that is itself a target is allowed (start after it)
    starts = []
    for s in srcs:
        if s in removed and sources is not None:
            starts.extend(x for x in body.succ(s) if (s, x) not in removed_edges)
        else:
            starts.append(s)
    return body.find_path(starts, rets, removed=removed, removed_edges=removed_edges)


def must_pass(ctx, key, body, targets, desc, sources=None, removed_edges=frozenset(), cut_errors=True, min_targets=1, rule='K1-must-pass'):
    targets = list(targets)
    if len(targets) < min_targets:
        return ctx.ob(key, rule, body.path, desc, False,
                      'target site(s) not found in %s (needed >= %d, found %d)' % (body.path, min_targets, len(targets)), body.loc())
    w = ok_return_unreachable_avoiding(body, targets, sources, removed_edges, cut_errors=cut_errors)
    return ctx.ob(key, rule, body.path, desc, w is None,
                  '' if w is None else 'success path avoiding the required call: ' + short_path(body, w), body.loc(targets[0]))


def all_paths_pass(body, frm, to_blocks, through, removed_edges=frozenset()):
    """every path from `frm` blocks to any of `to_blocks` passes a block in `through`.
    returns witness path or None."""
    return body.find_path(list(frm), set(to_blocks), removed=set(through) - set(to_blocks), removed_edges=removed_edges)


# ----------------------------------------------------------------------------- K2 order

def precedes(ctx, key, body, first, second, desc, removed_edges=frozenset(), rule='K2-order', need_second=True):
    """every path from entry to any block in `second` passes some block in `first`."""
    first, second = list(first), list(second)
    if not first:
        return ctx.ob(key, rule, body.path, desc, False, 'the site that must come first was not found', body.loc())
    if not second:
        return ctx.ob(key, rule, body.path, desc, not need_second, 'the site that must come second was not found', body.loc())
    # a block in both sets: the earlier site is a statement of the block whose terminator is the later site
    rest = set(second) - set(first)
    w = body.find_path([0], rest, removed=set(first), removed_edges=removed_edges) if rest else None
    return ctx.ob(key, rule, body.path, desc, w is None,
                  '' if w is None else 'path reaching the later site without the earlier one: ' + short_path(body, w), body.loc(second[0]))


def never_after(ctx, key, body, first, later, desc, removed_edges=frozenset(), rule='K2-order'):
    """no path from any block in `first` reaches a block in `later` (e.g. an effect after cleanup)."""
    first, later = list(first), set(later)
    w = None
    for f in first:
        starts = [s for s in body.succ(f) if (f, s) not in removed_edges]
        w = body.find_path(starts, later, removed_edges=removed_edges)
        if w:
            w = [f] + w
            break
    return ctx.ob(key, rule, body.path, desc, w is None, '' if w is None else 'path: ' + short_path(body, w),
                  body.loc(first[0]) if first else body.loc())


# ----------------------------------------------------------------------------- K3 guarded effect

def eq_polarity(body, switch_block):
    """For a switch whose discriminant is (a negation chain of) an Eq/Ne comparison or PartialEq
    call, return (eq_target, ne_target, operands_slice) else None."""
    t = body.term(switch_block)
    if t['k'] != 'switch' or len(t['ts']) != 2 or t['vals'] != [0]:
        return None
    false_t, true_t = t['ts']
    l = op_local(t['a'])
    flip = False
    for _ in range(6):
        ds = body.defs().get(l, [])
        if len(ds) != 1:
            return None
        bi, si, kind, x = ds[0]
        if kind == 'assign':
            r = x['r']
            if r['k'] == 'un' and r['op'] == 'Not':
                flip = not flip
                l = op_local(r['a'][0])
                continue
            if r['k'] == 'use' and op_local(r['a'][0]) is not None and len(op_place(r['a'][0])) == 1:
                l = op_local(r['a'][0])
                continue
            if r['k'] == 'bin' and r['op'] in ('Eq', 'Ne'):
                is_eq = (r['op'] == 'Eq') ^ flip
                return (true_t, false_t, r['a']) if is_eq else (false_t, true_t, r['a'])
            return None
        else:
            if call_matches(x, ['std::cmp::PartialEq::eq', 're:PartialEq.*>::eq$']):
                is_eq = not flip
            elif call_matches(x, ['std::cmp::PartialEq::ne', 're:PartialEq.*>::ne$']):
                is_eq = flip
            else:
                return None
            return (true_t, false_t, x['a']) if is_eq else (false_t, true_t, x['a'])
    return None


def guarding_switches(body, site):
    """switch blocks s (with the successor sets) that decide whether `site` is reached."""
    return body.control_deps(site)


def slice_has(sl, fields=(), calls=(), params=(), consts=()):
    for f in fields:
        if f not in sl.fields:
            return False
    for c in calls:
        if not any((c == n) or (c.startswith('re:') and re.search(c[3:], n)) for n in sl.calls):
            return False
    for p in params:
        if p not in sl.params:
            return False
    for c in consts:
        if not any(k.get('i') == c for k in sl.consts):
            return False
    return True


def eq_guard_site(body, site, fields=(), params=(), calls=()):
    """the comparison block whose EQUAL edge `site` depends on and whose operands derive from the named fields / params / calls"""
    for (s, yes, no) in body.control_deps(site):
        pol = eq_polarity(body, s)
        if not pol:
            continue
        eq_t, ne_t, ops = pol
        if eq_t in yes and ne_t in no:
            roots = [op_place(o) for o in ops if op_place(o) is not None]
            if slice_has(backward_slice(body, roots), fields, calls, params):
                return s
    return None


def eq_guarded(ctx, key, body, site, desc, fields=(), params=(), calls=(), rule='K3-guard'):
    """`site` is reached only through the EQUAL edge of a comparison whose two sides are data-derived
    from the named fields / parameters / calls."""
    found = None
    tried = []
    for (s, yes, no) in body.control_deps(site):
        pol = eq_polarity(body, s)
        if not pol:
            continue
        eq_t, ne_t, ops = pol
        if eq_t in yes and ne_t in no:
            roots = [op_place(o) for o in ops if op_place(o) is not None]
            sl = backward_slice(body, roots)
            tried.append('bb%d' % s)
            if slice_has(sl, fields, calls, params):
                found = s
                break
    return ctx.ob(key, rule, body.path, desc, found is not None,
                  '' if found is not None else 'no equality guard over (%s) dominates this effect on its equal edge (candidate comparisons: %s)' % (
                      ', '.join(list(fields) + ['param#%d' % p for p in params] + list(calls)), ','.join(tried) or 'none'),
                  body.loc(site))


def cond_guarded(ctx, key, body, site, desc, fields=(), params=(), calls=(), consts=(), rule='K3-guard', want_edge=None):
    """`site` is control dependent on a branch whose discriminant is data-derived from all of the
    named fields / params / calls. want_edge: None, or 'nonzero'/'zero' = site only reachable via
    that edge of a two-way switch."""
    found = None
    for (s, yes, no) in body.control_deps(site):
        t = body.term(s)
        if t['k'] != 'switch':
            continue
        l = op_place(t['a'])
        if l is None:
            continue
        sl = backward_slice(body, [l])
        if not slice_has(sl, fields, calls, params, consts):
            continue
        if want_edge:
            if len(t['ts']) != 2 or t['vals'] != [0]:
                continue
            zero_t, nz_t = t['ts']
            good, bad = (nz_t, zero_t) if want_edge == 'nonzero' else (zero_t, nz_t)
            if not (good in yes and bad in no):
                continue
        found = s
        break
    return ctx.ob(key, rule, body.path, desc, found is not None,
                  '' if found is not None else 'no branch derived from (%s) guards this site' % ', '.join(
                      list(fields) + ['param#%d' % p for p in params] + list(calls) + ['const %s' % c for c in consts]),
                  body.loc(site))


# ----------------------------------------------------------------------------- K4 confinement

def strip_closures(path):
    """def-path of the function a closure (of a closure ...) is written in"""
    return re.sub(r'(::\{closure#\d+\})+$', '', path)


def confined_through(F, fn, allowed):
    """fn is in `allowed`, or a helper/closure every caller chain of which passes through a function in `allowed` before it
    reaches a root of the call graph (extracting a helper out of an allowed function, or moving code into a closure of it, is
    transparent). Closures count as the function they are written in."""
    allowed = set(strip_closures(a) for a in allowed)
    if strip_closures(fn) in allowed:
        return True
    seen = {fn}
    stack = [fn]
    while stack:
        x = stack.pop()
        cs = F.callers(x)
        if not cs:
            return False
        for c in cs:
            if strip_closures(c) in allowed or c in seen:
                continue
            seen.add(c)
            stack.append(c)
    return True


def callers_confined(ctx, key, F, pats, allowed, desc, required=(), rule='K4-confinement', include_cleanup=True):
    callers = F.direct_callers_of(*pats)
    extra = sorted(c for c in callers if not confined_through(F, c, allowed))
    reach = F.may_reach(*pats)
    reach_n = set(strip_closures(x) for x in reach)
    missing = sorted(r for r in required if strip_closures(r) not in reach_n)
    ok = not extra and not missing
    det = ''
    if extra:
        det += 'unexpected caller(s): %s. ' % ', '.join(extra)
    if missing:
        det += 'positive control failed, expected caller(s) not found: %s (rule would be vacuous)' % ', '.join(missing)
    fn = extra[0] if extra else (missing[0] if missing else '-')
    b = F.body(fn)
    return ctx.ob(key, rule, fn, desc, ok, det, b.loc() if b else None)


def receiver_fields(body, t, argi=0):
    """struct fields on the provenance of argument argi of call t (receiver resolution)."""
    if len(t['a']) <= argi:
        return set()
    p = op_place(t['a'][argi])
    if p is None:
        return set()
    return backward_slice(body, [p]).fields


def calls_on_field(F, pats, field, argi=0, bodies=None):
    """(body, block) call sites matching pats whose argument argi derives from `field`."""
    res = []
    for b in (bodies if bodies is not None else F.bodies.values()):
        for bi, t in b.all_calls():
            if call_matches(t, pats) and field in receiver_fields(b, t, argi):
                res.append((b, bi))
    return res


# ----------------------------------------------------------------------------- K5 locks

_glive_cache = {}

def _glive(body, removed_edges=frozenset()):
    k = (id(body.facts), body.path, frozenset(removed_edges))
    if k not in _glive_cache:
        _glive_cache[k] = core.guard_liveness(body, extra_guard_types=('log::LogReader<',), removed_edges=frozenset(removed_edges))
    return _glive_cache[k]


def guards_live_at(body, site, removed_edges=frozenset()):
    """list of (local, type, class-fields) of guard holders definitely live just before the
    terminator of block `site`."""
    IN, PRE, acq = _glive(body, removed_edges)
    st = set(PRE.get(site, ()))
    # parameters that own a guard are live from entry until moved/dropped: approximated by
    # liveness seeded in IN[0]; handled by caller via param_guards()
    res = []
    for l in sorted(st):
        ty = body.locals[l]
        cls = set()
        for (bi, t) in acq.get(l, []):
            cls.update(core.lock_class_of_acquisition(body, t))
        res.append((l, ty, cls))
    return res


def held_at(ctx, key, body, site, lock_field, desc, mode=None, rule='K5-held-at', removed_edges=frozenset()):
    """a guard acquired from `lock_field` (e.g. '.DbInner.commit_overlay') is live at `site` on all paths.
    mode: None | 'write' (guard type must be a write/mutex guard)"""
    live = guards_live_at(body, site, removed_edges)
    ok = False
    for (l, ty, cls) in live:
        if lock_field in cls:
            gk = core.guard_kind(ty) or ''
            if mode == 'write' and gk not in ('RwLockWriteGuard', 'MutexGuard'):
                continue
            ok = True
    return ctx.ob(key, rule, body.path, desc, ok,
                  '' if ok else 'no guard of %s is live on all paths at this site; live guards: %s' % (
                      lock_field, ', '.join('_%d:%s' % (l, sorted(c)) for l, t, c in live) or 'none'),
                  body.loc(site))


def _held(body, site, lock_field, mode=None):
    for (l, ty, cls) in guards_live_at(body, site):
        if lock_field in cls:
            gk = core.guard_kind(ty) or ''
            if mode == 'write' and gk not in ('RwLockWriteGuard', 'MutexGuard'):
                continue
            return True
    return False


def held_at_lifted(ctx, key, F, body, site, lock_field, desc, mode=None, rule='K5-held-at', depth=3):
    """like held_at, but a helper that does not take the lock itself is fine if EVERY call chain to it comes from a site where the
    guard is live (the code was moved into a private function; the caller still holds the lock around the call)."""
    def ok_at(b, s, d):
        if _held(b, s, lock_field, mode):
            return True, ''
        if d <= 0:
            return False, 'call chain too deep at %s' % b.path
        callers = [(cb, bi) for cn in F.callers(b.path) for cb in [F.body(cn)] if cb is not None for bi, t in cb.calls()
                   if bi in cb.normal_blocks() and b.path in call_names(t)]
        # a closure body is entered where the closure is used: its defining function
        if not callers and '{closure' in b.path:
            pb = F.body(strip_closures(b.path))
            if pb is not None:
                use = [bi for bi, t in pb.calls() if bi in pb.normal_blocks() and any(b.path == c for c in closure_operands(pb, t))]
                callers = [(pb, bi) for bi in use]
        if not callers:
            return False, 'no guard of %s live at %s in %s and no caller to lift to' % (lock_field, b.loc(s), b.path)
        for cb, bi in callers:
            o, why = ok_at(cb, bi, d - 1)
            if not o:
                return False, 'called from %s at %s without the guard (%s)' % (cb.path, cb.loc(bi), why)
        return True, ''
    ok, why = ok_at(body, site, depth)
    return ctx.ob(key, rule, body.path, desc, ok, why, body.loc(site))


def same_guard_at(ctx, key, body, sites, lock_field, desc, mode=None, rule='K5-one-guard'):
    """one single guard local of lock_field is live at all `sites` (atomic publication)."""
    common = None
    for s in sites:
        ls = set(l for (l, ty, cls) in guards_live_at(body, s) if lock_field in cls and
                 (mode != 'write' or (core.guard_kind(ty) in ('RwLockWriteGuard', 'MutexGuard'))))
        common = ls if common is None else (common & ls)
    ok = bool(common) and len(sites) > 0
    return ctx.ob(key, rule, body.path, desc, ok,
                  '' if ok else 'no single guard of %s spans all %d sites (%s)' % (lock_field, len(sites), ','.join('bb%d' % s for s in sites)),
                  body.loc(sites[0]) if sites else body.loc())


# ----------------------------------------------------------------------------- generic

def exists(ctx, key, fn, desc, ok, detail='', loc=None, rule='K9-agreement'):
    return ctx.ob(key, rule, fn, desc, ok, detail, loc)


# ----------------------------------------------------------------------------- loops (K2 loop form)

ITER_NEXT = ['std::iter::Iterator::next', 're:as std::iter::Iterator>::next$']

def for_loops_over(body, field=None):
    """`for x in <iter derived from field>` loops: returns list of dicts
    {head: block calling Iterator::next, some: target on Some, none: target on None, sw: switch block}"""
    res = []
    for bi in sorted(body.normal_blocks()):
        t = body.term(bi)
        if t['k'] != 'call' or not call_matches(t, ITER_NEXT):
            continue
        if 'desugaring of `for` loop' not in t.get('mx', '') and 'for' not in t.get('mx', ''):
            pass
        if field is not None and field not in receiver_fields(body, t, 0):
            continue
        nxt = t.get('t')
        if nxt is None:
            continue
        # the switch on the Option discriminant of the call result
        sw = nxt
        tt = body.term(sw)
        if tt['k'] != 'switch':
            continue
        some_t = none_t = None
        for v, tg in zip(tt['vals'], tt['ts']):
            if v == 1:
                some_t = tg
            elif v == 0:
                none_t = tg
        if some_t is None or none_t is None:
            continue
        res.append({'head': bi, 'sw': sw, 'some': some_t, 'none': none_t})
    return res


def loop_body_must_call(body, loop, call_blocks, removed_edges=frozenset()):
    """every path from the Some-arm back to the loop head passes one of call_blocks, and the code
    after the loop (None arm) is not reachable from the Some arm without going through the head.
    Returns None if ok else a witness path."""
    removed = set(call_blocks) | core.error_exit_blocks(body)
    w = body.find_path([loop['some']], {loop['head']}, removed=removed, removed_edges=removed_edges)
    if w:
        return w
    # leaving the loop from the body (break) without the call
    w = body.find_path([loop['some']], set(body.return_blocks()) | {loop['none']}, removed=removed | {loop['head']}, removed_edges=removed_edges)
    return w


def F_body(body, name):
    return body.facts.bodies.get(name)


def flush_loop_precedes(ctx, key, body, field, callee_pats, later_sites, desc, removed_edges=frozenset(), rule='K2-loop-order'):
    """a complete `for` loop over `field` whose every iteration calls callee_pats (error -> exit)
    lies on every path to each of later_sites."""
    later_sites = list(later_sites)
    if not later_sites:
        return ctx.ob(key, rule, body.path, desc, False, 'later site not found', body.loc())
    calls = body.call_sites(*callee_pats)
    good = []
    why = []
    for lp in for_loops_over(body, field):
        w = loop_body_must_call(body, lp, calls, removed_edges)
        if w is None and calls:
            good.append(lp)
        else:
            why.append('loop at %s: iteration path without the call: %s' % (body.loc(lp['head']), short_path(body, w)))
    if not good:
        # helper form: a crate function called here that contains such a complete loop on all its Ok paths
        for bi, t in body.calls():
            if bi not in body.normal_blocks():
                continue
            for n in call_names(t):
                cb = F_body(body, n)
                if cb is None or cb is body:
                    continue
                ccalls = cb.call_sites(*callee_pats)
                if not ccalls:
                    continue
                for lp in for_loops_over(cb, field):
                    if loop_body_must_call(cb, lp, ccalls) is None and cb.find_path([0], cb.return_blocks(), removed={lp['head']} | core.error_exit_blocks(cb)) is None:
                        good.append({'head': bi, 'none': t.get('t'), 'combinator': True})
    if not good:
        # combinator form: try_for_each/for_each over the field with a closure that must-call
        for bi, t in body.calls():
            if call_matches(t, ['re:Iterator>?::try_for_each', 'std::iter::Iterator::try_for_each', 'std::iter::Iterator::for_each']) and field in receiver_fields(body, t, 0):
                good.append({'head': bi, 'none': t.get('t'), 'combinator': True})
    ok = False
    det = '; '.join(why) or 'no loop over %s found' % field
    for lp in good:
        bad = None
        for s in later_sites:
            # every path entry -> s passes the loop head and leaves through the None arm
            w = body.find_path([0], {s}, removed={lp['head']} | core.error_exit_blocks(body), removed_edges=removed_edges)
            if w:
                bad = 'path to the later site that bypasses the loop: ' + short_path(body, w)
                break
            if not lp.get('combinator'):
                w = body.find_path([lp['some']], {s}, removed={lp['head']} | core.error_exit_blocks(body), removed_edges=removed_edges)
                if w:
                    bad = 'later site reachable from inside the loop body: ' + short_path(body, w)
                    break
        if bad is None:
            ok = True
            break
        det = bad
    return ctx.ob(key, rule, body.path, desc, ok, '' if ok else det, body.loc(later_sites[0]))


def result_guards(ctx, key, body, call_blocks, site, desc, rule='K3-result-checked'):
    """`site` is control-dependent on a branch whose discriminant derives from the result of one of
    call_blocks (i.e. it only runs on one outcome of that call)."""
    found = False
    cb = set(call_blocks)
    for (s, yes, no) in body.control_deps(site):
        t = body.term(s)
        if t['k'] != 'switch':
            continue
        p = op_place(t['a'])
        if p is None:
            continue
        sl = backward_slice(body, [p])
        if any(bi in cb for (bi, _t) in sl.call_sites):
            found = True
            break
    return ctx.ob(key, rule, body.path, desc, found, '' if found else 'site does not depend on the outcome of the call', body.loc(site))


# ----------------------------------------------------------------------------- lifted call sites

def closure_operands(body, t):
    """def-paths of closures passed as arguments of call t (closure values created in this body)."""
    res = []
    for a in t['a']:
        l = op_local(a)
        if l is None:
            continue
        for (bi, si, kind, x) in body.defs().get(l, []):
            if kind == 'assign' and x['r']['k'] == 'agg' and x['r']['ak'].startswith('Closure:'):
                res.append(x['r']['ak'][len('Closure:'):])
    return res


def sites_reaching(body, pats, lift=True):
    """call blocks of `body` that call something matching pats - directly, through crate-local
    callees (may-reach), or through a closure passed to the call (e.g. Option::and_then(|o| ..))."""
    F = body.facts
    key = ('reach',) + tuple(pats)
    cache = F.__dict__.setdefault('_reach_cache', {})
    if key not in cache:
        cache[key] = F.may_reach(*pats)
    reach = cache[key]
    nb = body.normal_blocks()
    res = []
    for bi, t in body.calls():
        if bi not in nb:
            continue
        if call_matches(t, pats):
            res.append(bi)
            continue
        if not lift:
            continue
        if any(n in reach for n in call_names(t) if n in F.bodies):
            res.append(bi)
            continue
        if any(c in reach for c in closure_operands(body, t)):
            res.append(bi)
            continue
        # a function item handed to a combinator stands for its call (`.and_then(Weak::upgrade)`)
        fns = [a['fn'] for a in t.get('a', []) if isinstance(a, dict) and 'fn' in a]
        if any(call_matches({'f': n, 'r': n}, pats) or n in reach for n in fns):
            res.append(bi)
    return res


def field_mutators(F, field, allowed_rx, bodies=None):
    """calls whose receiver (arg 0) derives from `field` and whose callee does NOT match allowed_rx.
    returns list of (body.path, callee, loc)"""
    rx = re.compile(allowed_rx)
    res = []
    for b in (bodies if bodies is not None else F.bodies.values()):
        for bi, t in b.all_calls():
            if not t['a']:
                continue
            if field in receiver_fields(b, t, 0):
                nm = (t.get('r') or t.get('f') or '?')
                if not rx.search(nm):
                    res.append((b.path, nm, b.loc(bi)))
    return res


def prune_bool_param(body, param_local, value):
    """edges to remove assuming the bool parameter `_param_local` == value (switches whose
    discriminant is a direct copy of it, possibly through one Not)."""
    removed = set()
    for bi in body.normal_blocks():
        t = body.term(bi)
        if t['k'] != 'switch' or t.get('dty') != 'bool':
            continue
        l = op_local(t['a'])
        neg = False
        for _ in range(3):
            if l == param_local:
                break
            ds = [d for d in body.defs().get(l, []) if d[2] == 'assign']
            if len(ds) != 1:
                l = None
                break
            r = ds[0][3]['r']
            if r['k'] == 'un' and r['op'] == 'Not':
                neg = not neg
                l = op_local(r['a'][0])
            elif r['k'] == 'use' and op_place(r['a'][0]) and len(op_place(r['a'][0])) == 1:
                l = op_local(r['a'][0])
            else:
                l = None
                break
        if l != param_local:
            continue
        v = bool(value) ^ neg
        if t['vals'] == [0] and len(t['ts']) == 2:
            drop = t['ts'][0] if v else t['ts'][1]
            keep = t['ts'][1] if v else t['ts'][0]
            if drop != keep:
                removed.add((bi, drop))
    return removed


def forward_taint(body, seeds):
    """locals that may hold (a reference into / a copy of the pointer of) the seed locals:
    closure over copies, moves, reborrows, casts and call results of calls taking a tainted arg."""
    t = set(seeds)
    changed = True
    while changed:
        changed = False
        for bi, b in enumerate(body.blocks):
            for s in b['s']:
                if s['k'] != 'assign':
                    continue
                r = s['r']
                src = []
                if r['k'] in ('use', 'cast', 'agg', 'bin', 'un', 'repeat'):
                    src = [op_place(a)[0] for a in r['a'] if op_place(a)]
                elif r['k'] in ('ref', 'rawptr', 'copyderef', 'discr'):
                    src = [r['p'][0]]
                if any(x in t for x in src) and s['p'][0] not in t:
                    t.add(s['p'][0]); changed = True
            tm = b['t']
            if tm['k'] == 'call':
                if any(op_place(a) and op_place(a)[0] in t for a in tm['a']) and tm['d'][0] not in t:
                    t.add(tm['d'][0]); changed = True
    return t


def prune_bool_upvar(body, upvar_suffix, value):
    """like prune_bool_field for a closure body: the switch discriminant derives (copies / derefs
    only) from the captured place whose name ends with upvar_suffix (e.g. 'self.validate')."""
    ups = body.d.get('upvars') or []
    idx = [i for i, u in enumerate(ups) if u.endswith(upvar_suffix)]
    removed = set()
    if not idx:
        return removed
    want = '.^%d' % idx[0]
    for bi in body.normal_blocks():
        t = body.term(bi)
        if t['k'] != 'switch' or t.get('dty') != 'bool' or t['vals'] != [0] or len(t['ts']) != 2:
            continue
        p = op_place(t['a'])
        if p is None:
            continue
        sl = backward_slice(body, [p], through_calls=False)
        if want in sl.fields and not sl.binops:
            drop = t['ts'][0] if value else t['ts'][1]
            removed.add((bi, drop))
    return removed


def must_pass_chain(ctx, key, body, steps, desc, removed_edges=frozenset(), rule='K1-chain'):
    """steps: list of (name, [sites]). Checks that every success path from entry passes a site of
    step 1, and from (each) chosen site of step i every success path to Return passes a site of
    step i+1 that lies after it. Greedy: for step i+1 use the sites reachable from the step-i site."""
    errs = core.error_exit_blocks(body)
    rets = body.return_blocks()
    cur = None   # list of current anchor sites (any of which may have been passed)
    for i, (name, sites) in enumerate(steps):
        sites = list(sites)
        if not sites:
            return ctx.ob(key, rule, body.path, desc, False, 'step %d (%s): no such call site' % (i + 1, name), body.loc())
        if cur is None:
            w = body.find_path([0], rets, removed=set(sites) | errs, removed_edges=removed_edges)
            if w:
                return ctx.ob(key, rule, body.path, desc, False, 'success path that never reaches %s: %s' % (name, short_path(body, w)), body.loc())
            cur = sites
        else:
            nxt = []
            for s in sites:
                # (a site shared with the previous step is a helper call that performs both steps)
                if s in cur or any(s in body.reaches(c, removed_edges=removed_edges) for c in cur):
                    nxt.append(s)
            if not nxt:
                return ctx.ob(key, rule, body.path, desc, False, 'step %d (%s) has no site after step %d' % (i + 1, name, i), body.loc())
            # the LAST anchor of the previous step that can still be followed: require from every cur site
            # that paths to Return pass some nxt site lying after it
            for c in cur:
                if c in sites:
                    continue
                after = [s for s in nxt if s in body.reaches(c, removed_edges=removed_edges)]
                starts = [x for x in body.succ(c) if (c, x) not in removed_edges]
                w = body.find_path(starts, rets, removed=set(after) | errs, removed_edges=removed_edges)
                if w:
                    return ctx.ob(key, rule, body.path, desc, False,
                                  'after %s at %s a success path returns without passing %s: %s' % (steps[i - 1][0], body.loc(c), name, short_path(body, [c] + w)), body.loc(c))
            cur = nxt
    return ctx.ob(key, rule, body.path, desc, True, '', body.loc())


_OPTION_SHAPE = re.compile(r'Option::<.*>::(as_ref|as_mut|as_deref|as_deref_mut|map|copied|cloned)$|ops::function::FnOnce|Deref')


def _option_helper_of(F, calls, field, depth=2):
    """is one of `calls` a crate function that returns the Option behind `field` with its Some/None-ness unchanged
    (`self.field.as_ref().map(|x| x.write())`: a guard-taking helper)?"""
    for c in calls:
        hb = F.bodies.get(c)
        if hb is None or not str(hb.locals[0]).startswith('std::option::Option<'):
            continue
        sl = backward_slice(hb, [[0]])
        if field in sl.fields and all(_OPTION_SHAPE.search(x) or x in F.bodies and '{closure' in x for x in sl.calls):
            return True
    return False


_VERDICT_CACHE = {}


def option_verdict_helper(F, fn, field):
    """is `fn` a crate function returning a Result whose verdict is decided by the Option behind `field`
    (`fn check(&self) -> Result<()> { match &*self.slot.lock() { Some(e) => Err(..), None => Ok(()) } }`)?
    Returns (some_is_err, none_is_ok): with the Option Some no success return is reachable / with it None no error exit is."""
    k = (id(F), fn, field)
    if k in _VERDICT_CACHE:
        return _VERDICT_CACHE[k]
    _VERDICT_CACHE[k] = (False, False)
    hb = F.bodies.get(fn)
    res = (False, False)
    if hb is not None and '{closure' not in fn and str(hb.locals[0]).startswith('std::result::Result<'):
        errs = core.error_exit_blocks(hb)
        some = prune_option_field(hb, field, True)
        none = prune_option_field(hb, field, False)
        if some and none and errs:
            some_is_err = hb.find_path([0], hb.return_blocks(), removed=set(errs), removed_edges=some) is None
            none_is_ok = hb.find_path([0], set(errs), removed_edges=none) is None
            res = (some_is_err, none_is_ok)
    _VERDICT_CACHE[k] = res
    return res


def option_gate_sites(body, field, builds=None):
    """(gate blocks, examine blocks) of `body` for the Option behind `field`: the blocks entered with the refusal (an aggregate
    `builds` made in the body, or the error arm of a call to a verdict helper - see option_verdict_helper) and the blocks where
    the slot is looked at (its lock call / the helper call)."""
    F = body.facts
    gate, look = [], []
    for bi in body.normal_blocks():
        if builds and any(s['k'] == 'assign' and s['r']['k'] == 'agg' and s['r']['ak'] == builds for s in body.blocks[bi]['s']):
            gate.append(bi)
        t = body.term(bi)
        if t['k'] != 'call':
            continue
        if call_matches(t, ['re:Mutex.*::lock$', 're:RwLock.*::(read|write)$']) and t['a'] and field in receiver_fields(body, t, 0):
            look.append(bi)
        for n in call_names(t):
            if n in F.bodies and option_verdict_helper(F, n, field)[0]:
                hb = F.bodies[n]
                if not builds or any(s['k'] == 'assign' and s['r']['k'] == 'agg' and s['r']['ak'] == builds for b2 in hb.blocks for s in b2['s']):
                    gate.extend(result_err_targets(body, bi)); look.append(bi)
    return sorted(set(gate)), sorted(set(look))


def prune_option_field(body, field, keep_some):
    """assume the Option behind `field` is Some (keep_some) / None: edges to remove for switches on
    a discriminant whose backward slice (no binops) contains `field`."""
    removed = set()
    # the verdict of a helper that turns the Option into a Result (Some => Err, None => Ok), looked at through `?` or a match
    F = body.facts
    for bi, t in body.calls():
        for n in call_names(t):
            if n in F.bodies and n != body.path and str(F.bodies[n].locals[0]).startswith('std::result::Result<'):
                some_is_err, none_is_ok = option_verdict_helper(F, n, field)
                if (keep_some and some_is_err) or (not keep_some and none_is_ok):
                    for sb, v, tg in result_switch_edges(body, bi):
                        if (v == 1) != bool(keep_some):
                            removed.add((sb, tg))
    for bi in body.normal_blocks():
        t = body.term(bi)
        if t['k'] != 'switch':
            continue
        d = switch_def(body, bi)
        if not d or d[2] != 'assign' or d[3]['r']['k'] != 'discr':
            continue
        sl = backward_slice(body, [d[3]['r']['p']])
        if field not in sl.fields and not _option_helper_of(body.facts, sl.calls, field):
            continue
        # which discriminant value stands for "the Option is Some": 1 for an Option; 0 (Ok / Continue) when the Option was turned
        # into a Result with ok_or / ok_or_else and is looked at through `?` or a match on the Result
        ty = str(body.locals[d[3]['r']['p'][0]]).lstrip('&')
        if re.match(r'std::option::Option<[A-Za-z_:]*(Guard)<', ty) and any(re.search(r'::try_(read|write|lock|upgradable_read)(_for|_until|_recursive)?$', c) for c in sl.calls):
            continue        # `try_read()` / `try_lock()`: None says the LOCK is taken, not that the Option behind the field is None
        if ty.startswith('std::option::Option<'):
            some_v = 1
        elif (ty.startswith('std::result::Result<') or ty.startswith('std::ops::ControlFlow<')) and any(re.search(r'Option::<.*>::ok_or(_else)?$', c) for c in sl.calls):
            some_v = 0
        else:
            continue
        for v, tg in zip(t['vals'], t['ts']):
            if (v == some_v) != bool(keep_some):
                removed.add((bi, tg))
        # the otherwise edge stands for the other variant when only one value is listed
        if len(t['vals']) == 1:
            other = t['ts'][-1]
            listed_is_some = (t['vals'][0] == some_v)
            if listed_is_some == bool(keep_some):
                removed.add((bi, other))
    return removed


def exit_requires_flag(ctx, key, body, site, field, desc, rule='K3-loop-exit'):
    """the function can return successfully after `site` only by taking the NON-ZERO edge of a
    branch whose discriminant derives from an atomic load of `field` (e.g. the shutdown flag)."""
    removed = set()
    n = 0
    for bi in body.normal_blocks():
        t = body.term(bi)
        if t['k'] != 'switch' or t['vals'] != [0] or len(t['ts']) != 2:
            continue
        p = op_place(t['a'])
        if p is None:
            continue
        sl = backward_slice(body, [p])
        if field in sl.fields and any(re.search(r'atomic::Atomic.*::load$', c) for c in sl.calls) and not (sl.binops - {'Not'}):
            # polarity through Not chain
            flip = False
            l = p[0]
            for _ in range(4):
                ds = body.defs().get(l, [])
                if len(ds) == 1 and ds[0][2] == 'assign' and ds[0][3]['r']['k'] == 'un' and ds[0][3]['r']['op'] == 'Not':
                    flip = not flip
                    l = op_local(ds[0][3]['r']['a'][0])
                else:
                    break
            set_edge = t['ts'][0] if flip else t['ts'][1]
            removed.add((bi, set_edge))
            n += 1
    starts = list(body.succ(site))
    w = body.find_path(starts, body.return_blocks(), removed=core.error_exit_blocks(body), removed_edges=removed) if n else ['?']
    return ctx.ob(key, rule, body.path, desc, n > 0 and w is None,
                  ('no branch on a load of %s' % field) if n == 0 else ('' if w is None else 'the loop can be left with the flag unset: ' + short_path(body, [site] + w)), body.loc(site))


# ----------------------------------------------------------------------------- K7 panic-site enumeration

PANIC_CALL_RX = re.compile(r'(::unwrap$|::expect$|::unwrap_err$|::expect_err$|^core::panicking::|^std::rt::begin_panic|^core::option::unwrap_failed|^core::result::unwrap_failed|^std::process::abort|::unwrap_unchecked$)')
INDEX_CALL_RX = re.compile(r'(Index(Mut)?<.*>>::index(_mut)?$|^std::ops::Index(Mut)?::index(_mut)?$|::copy_from_slice$|::clone_from_slice$|::split_at(_mut)?$|::swap$|^core::slice::index::|::from_le_bytes$ZZZ)')

def panic_sites(body):
    """every panic-capable construct of a body (normal blocks): list of dicts
    {kind, what, block, loc, macro}. kind in assert:<Msg> | call:unwrap | call:panic | call:index."""
    res = []
    nb = body.normal_blocks()
    for bi in sorted(nb):
        t = body.term(bi)
        mx = t.get('mx', '')
        if t['k'] == 'assert':
            res.append({'kind': 'assert:' + t['msg'], 'what': t['msg'], 'block': bi, 'loc': body.loc(bi), 'mx': mx})
        elif t['k'] == 'call':
            names = call_names(t)
            nm = names[0] if names else '?'
            if any(PANIC_CALL_RX.search(n) for n in names):
                if 'panicking' in nm or 'begin_panic' in nm:
                    res.append({'kind': 'call:panic', 'what': nm, 'block': bi, 'loc': body.loc(bi), 'mx': mx})
                else:
                    res.append({'kind': 'call:unwrap', 'what': (t.get('fa') or nm), 'block': bi, 'loc': body.loc(bi), 'mx': mx})
            elif any(INDEX_CALL_RX.search(n) for n in names) or (t.get('fa') and re.search(r'as std::ops::Index(Mut)?<', t['fa'])):
                res.append({'kind': 'call:index', 'what': (t.get('fa') or nm), 'block': bi, 'loc': body.loc(bi), 'mx': mx})
    return res


# ----------------------------------------------------------------------------- K7 auto-discharge

def _const_range(body, op):
    """if operand is a Range-like aggregate with constant bounds return (kind, start, end)"""
    l = op_local(op)
    if l is None:
        return None
    ds = [d for d in body.defs().get(l, []) if d[2] == 'assign']
    if len(ds) != 1:
        return None
    r = ds[0][3]['r']
    if r['k'] == 'use' and op_local(r['a'][0]) is not None and len(op_place(r['a'][0])) == 1:
        return _const_range(body, r['a'][0])
    if r['k'] != 'agg' or 'Range' not in r['ak']:
        return None
    kind = r['ak'].split('::')[-1]
    vals = [_const_val(body, a) for a in r['a']]
    return (kind, vals)


def _const_val(body, a):
    """the integer an operand always holds: a literal, or arithmetic over literals / associated constants (`INDEX_SIZE * 2`)"""
    if 'i' in a:
        return a['i']
    try:
        import symterm
        tb = getattr(body, '_tb0', None)
        if tb is None:
            tb = symterm.TermBuilder(body.facts, body, depth=0)
            body._tb0 = tb
        t = symterm.strip_casts(symterm.norm(tb.operand(a)))
        if isinstance(t, tuple) and t[0] == 'k' and len(t) == 2 and isinstance(t[1], int):
            return t[1]
    except Exception:
        pass
    return None


def panic_site_autodischarge(body, site):
    """returns a reason string if the panic-capable construct at `site` is safe by local reasoning."""
    t = body.term(site['block'])
    if site['kind'] == 'call:index':
        fa = t.get('fa') or ''
        m = re.search(r'<(?:table::Entry<)?\[([a-z0-9]+); (\d+)\]>? as std::ops::Index(?:Mut)?<std::ops::(Range\w*)', fa)
        if m:
            n = int(m.group(2))
            if m.group(3) == 'RangeFull':
                return 'RangeFull index of a fixed-size array'
            cr = _const_range(body, t['a'][1]) if len(t['a']) > 1 else None
            if cr and all(v is not None for v in cr[1]):
                kind, vals = cr
                if kind == 'Range' and vals[0] <= vals[1] <= n:
                    return 'constant range %d..%d within array of %d' % (vals[0], vals[1], n)
                if kind == 'RangeFrom' and vals[0] <= n:
                    return 'constant range %d.. within array of %d' % (vals[0], n)
                if kind == 'RangeTo' and vals[0] <= n:
                    return 'constant range ..%d within array of %d' % (vals[0], n)
        return None
    if site['kind'] == 'call:unwrap':
        fa = t.get('fa') or ''
        m = re.search(r'Result::<\[u8; (\d+)\], std::array::TryFromSliceError>::(unwrap|expect)$', fa)
        if m:
            n = int(m.group(1))
            # operand derives from try_into of an index with constant range of exactly n bytes
            sl = backward_slice(body, [op_place(t['a'][0])]) if op_place(t['a'][0]) else None
            if sl:
                for (bi, ct) in sl.call_sites:
                    if re.search(r'Index(Mut)?<std::ops::Range', ct.get('fa') or '') and len(ct['a']) > 1:
                        cr = _const_range(body, ct['a'][1])
                        if cr and all(v is not None for v in cr[1]):
                            kind, vals = cr
                            if kind == 'Range' and vals[1] - vals[0] == n:
                                return 'try_into of a constant %d-byte range into [u8; %d]' % (n, n)
                            if kind == 'RangeFrom':
                                mm = re.search(r'<\[u8; (\d+)\] as', ct.get('fa') or '')
                                if mm and int(mm.group(1)) - vals[0] == n:
                                    return 'try_into of a constant tail of %d bytes into [u8; %d]' % (n, n)
        return None
    return None


# ----------------------------------------------------------------------------- comparison predicates guarding a site

_NEG = {'Gt': 'Le', 'Ge': 'Lt', 'Lt': 'Ge', 'Le': 'Gt', 'Eq': 'Ne', 'Ne': 'Eq'}
_FLIP = {'Gt': 'Lt', 'Ge': 'Le', 'Lt': 'Gt', 'Le': 'Ge', 'Eq': 'Eq', 'Ne': 'Ne'}

def const_of(body, o):
    """integer value of an operand that is a constant, or a local defined once as (a cast of) a constant"""
    if 'i' in o:
        return o['i']
    l = op_local(o)
    if l is None or len(op_place(o)) != 1:
        return None
    for _ in range(3):
        ds = body.defs().get(l, [])
        if len(ds) != 1 or ds[0][2] != 'assign':
            return None
        r = ds[0][3]['r']
        if r['k'] in ('use', 'cast') and 'i' in r['a'][0]:
            return r['a'][0]['i']
        if r['k'] in ('use', 'cast') and op_local(r['a'][0]) is not None and len(op_place(r['a'][0])) == 1:
            l = op_local(r['a'][0])
            continue
        return None
    return None


def guard_predicates(body, site):
    """comparisons `x REL const` that must hold for `site` to be reached (from the switches the site
    is control dependent on). Returns list of dicts {rel, const, fields, calls, block}."""
    res = []
    for (s, yes, no) in body.control_deps(site):
        t = body.term(s)
        if t['k'] != 'switch' or t['vals'] != [0] or len(t['ts']) != 2:
            continue
        zero_t, nz_t = t['ts']
        l = op_local(t['a'])
        flip = False
        rel = None
        for _ in range(5):
            ds = body.defs().get(l, [])
            if len(ds) != 1 or ds[0][2] != 'assign':
                break
            r = ds[0][3]['r']
            if r['k'] == 'un' and r['op'] == 'Not':
                flip = not flip
                l = op_local(r['a'][0])
                continue
            if r['k'] == 'use' and op_local(r['a'][0]) is not None and len(op_place(r['a'][0])) == 1:
                l = op_local(r['a'][0])
                continue
            if r['k'] == 'bin' and r['op'] in _NEG:
                a, b2 = r['a']
                op = r['op']
                ca, cb = const_of(body, a), const_of(body, b2)
                if cb is not None and op_place(a) is not None and ca is None:
                    x, c = a, cb
                elif ca is not None and op_place(b2) is not None and cb is None:
                    x, c = b2, ca
                    op = _FLIP[op]
                else:
                    break
                rel = (op, c, x)
            break
        if rel is None:
            continue
        op, c, x = rel
        # which edge leads to the site?
        if nz_t in yes and zero_t in no:
            holds = True
        elif zero_t in yes and nz_t in no:
            holds = False
        else:
            continue
        if flip:
            holds = not holds
        if not holds:
            op = _NEG[op]
        sl = backward_slice(body, [op_place(x)])
        res.append({'rel': op, 'const': c, 'fields': sl.fields, 'calls': sl.calls, 'binops': sl.binops, 'block': s})
    return res


def must_reach_ok(F, pats):
    """bodies in which every entry->Ok-return path passes a call matching pats (directly or through a
    body already in the set). Least fixed point; error exits are cut."""
    key = ('must_ok',) + tuple(pats)
    cache = F.__dict__.setdefault('_must_cache', {})
    if key in cache:
        return cache[key]
    S = set()
    changed = True
    while changed:
        changed = False
        for b in F.bodies.values():
            if b.path in S:
                continue
            T = [bi for bi, t in b.calls() if call_matches(t, pats) or any(n in S for n in call_names(t))]
            if not T or not b.return_blocks():
                continue
            if ok_return_unreachable_avoiding(b, T) is None:
                S.add(b.path); changed = True
    cache[key] = S
    return S


def must_sites(body, pats):
    """call blocks that match pats or call a crate body that must-reach pats on its Ok paths
    (helper extraction is transparent)."""
    S = must_reach_ok(body.facts, pats)
    nb = body.normal_blocks()
    return [bi for bi, t in body.calls() if bi in nb and (call_matches(t, pats) or any(n in S for n in call_names(t)))]


def loop_continues_after_flag(ctx, key, body, site, field, desc, rule='K3-loop-exit'):
    """after the flag `field` was observed SET, the loop around `site` can still reach `site`
    again (the worker keeps going while work remains)."""
    ok = False
    n = 0
    for bi in body.normal_blocks():
        t = body.term(bi)
        if t['k'] != 'switch' or t['vals'] != [0] or len(t['ts']) != 2:
            continue
        p = op_place(t['a'])
        if p is None:
            continue
        sl = backward_slice(body, [p])
        if field in sl.fields and any(re.search(r'atomic::Atomic.*::load$', c) for c in sl.calls) and not (sl.binops - {'Not'}):
            flip = False
            l = p[0]
            for _ in range(4):
                ds = body.defs().get(l, [])
                if len(ds) == 1 and ds[0][2] == 'assign' and ds[0][3]['r']['k'] == 'un' and ds[0][3]['r']['op'] == 'Not':
                    flip = not flip; l = op_local(ds[0][3]['r']['a'][0])
                else:
                    break
            set_t = t['ts'][0] if flip else t['ts'][1]
            n += 1
            if site in body.reachable_from([set_t]):
                ok = True
    return ctx.ob(key, rule, body.path, desc, ok, ('no branch on a load of %s' % field) if n == 0 else ('' if ok else 'once the flag is set the loop body is unreachable: queued work is abandoned'), body.loc(site))


# ----------------------------------------------------------------------------- format templates (K8)

def parse_fmt_template(s):
    """decode the byte template of the current `format_args!` lowering (Arguments::new(template, args)):
    <len><literal bytes> | 0xC0|opts [option bytes] (placeholder) ... 0x00.
    returns list of ('lit', text) / ('arg', raw-option-bytes) or None if it does not parse."""
    b = [ord(c) for c in s]
    i = 0
    out = []
    try:
        while i < len(b):
            x = b[i]
            if x == 0:
                return out if i == len(b) - 1 else None
            if x < 0x80:
                lit = ''.join(chr(c) for c in b[i + 1:i + 1 + x])
                if len(lit) != x:
                    return None
                out.append(('lit', lit))
                i += 1 + x
            elif x >= 0xC0:
                n = 4 * (x & 1) + 2 * ((x >> 1) & 1) + 2 * ((x >> 2) & 1) + 2 * ((x >> 3) & 1)
                out.append(('arg', tuple(b[i:i + 1 + n])))
                i += 1 + n
            else:
                return None
        return out
    except IndexError:
        return None


def fmt_templates(body):
    """all format templates used in a body: list of (block, token list)"""
    res = []
    for bi, blk in enumerate(body.blocks):
        for s in blk['s']:
            if s['k'] == 'assign' and s['r']['k'] == 'use' and 's' in s['r']['a'][0] and 'format string literal' in (s.get('mx') or ''):
                tk = parse_fmt_template(s['r']['a'][0]['s'])
                res.append((bi, tk, s['r']['a'][0]['s']))
    # Arguments::from_str(const "...") form for templates without arguments
    for bi, t in body.all_calls():
        if call_matches(t, ["std::fmt::Arguments::<'a>::from_str"]) and t['a'] and 's' in t['a'][0]:
            res.append((bi, [('lit', t['a'][0]['s'])], t['a'][0]['s']))
    return res


def str_consts(body):
    """string literal constants appearing as operands in a body (not format templates)"""
    out = []
    for bi, blk in enumerate(body.blocks):
        for s in blk['s']:
            if s['k'] == 'assign' and s['r']['k'] in ('use',) and 's' in s['r']['a'][0] and 'format string literal' not in (s.get('mx') or ''):
                if s['r']['a'][0].get('ty') in ('&str', '&&str'):
                    out.append((bi, s['r']['a'][0]['s']))
        t = blk['t']
        if t['k'] == 'call':
            for a in t['a']:
                if a.get('ty') in ('&str', '&&str') and 's' in a:
                    out.append((bi, a['s']))
    return out


def loop_arm_must_call(body, loop, adt_suffix, variant_discr, call_blocks):
    """inside `loop`, on the arm where the element's enum discriminant (of a type ending with
    adt_suffix) equals variant_discr, every path back to the loop head passes one of call_blocks.
    returns (arm_found, witness_path_or_None)"""
    region = body.reachable_from([loop['some']], removed={loop['head']})
    arm = None
    for bi in sorted(region):
        t = body.term(bi)
        if t['k'] != 'switch':
            continue
        d = switch_def(body, bi)
        if not d or d[2] != 'assign' or d[3]['r']['k'] != 'discr':
            continue
        pl = d[3]['r']['p']
        ty = body.locals[pl[0]]
        if not (adt_suffix in ty):
            continue
        for v, tg in zip(t['vals'], t['ts']):
            if v == variant_discr:
                arm = tg
        if arm is None and len(t['vals']) == 1 and t['vals'][0] != variant_discr:
            arm = t['ts'][-1]
        if arm is not None:
            break
    if arm is None:
        return False, None
    w = body.find_path([arm], {loop['head']}, removed=set(call_blocks) | core.error_exit_blocks(body))
    return True, w


def guard_influences(body, site, depth=3, _seen=None):
    """callee names and fields that influence whether `site` is reached: the backward slices of the
    discriminants of the branches `site` is control dependent on; a branch on a boolean flag local
    (assigned only constants) is followed to the guards of the blocks that set it."""
    calls, fields, binops = set(), set(), set()
    _seen = _seen if _seen is not None else set()
    if site in _seen or depth < 0:
        return calls, fields, binops
    _seen.add(site)
    for (s, yes, no) in body.control_deps(site):
        t = body.term(s)
        if t['k'] != 'switch' or op_place(t['a']) is None:
            continue
        sl = backward_slice(body, [op_place(t['a'])])
        calls |= sl.calls
        fields |= sl.fields
        binops |= sl.binops
        # flag indirection
        for l in sl.locals:
            if l < len(body.locals) and body.locals[l] == 'bool':
                ds = body.defs().get(l, [])
                if ds and all(d[2] == 'assign' and d[3]['r']['k'] == 'use' and 'i' in d[3]['r']['a'][0] for d in ds):
                    for d in ds:
                        if d[3]['r']['a'][0]['i'] != 0:
                            c2, f2, b2 = guard_influences(body, d[0], depth - 1, _seen)
                            calls |= c2; fields |= f2; binops |= b2
                elif len(ds) > 1:
                    # `flag = a && b` compiles to `flag = false` on one edge and `flag = <b>` on the other: what decides which
                    # definition is reached (the test of a) influences the flag as well
                    for d in ds:
                        if not (d[2] == 'assign' and d[3]['r']['k'] == 'use' and d[3]['r']['a'][0].get('i') == 0):
                            c2, f2, b2 = guard_influences(body, d[0], depth - 1, _seen)
                            calls |= c2; fields |= f2; binops |= b2
    return calls, fields, binops


def deep_calls(F, calls):
    """callee names in `calls` plus everything the crate bodies (incl. closures) among them may call."""
    res = set(calls)
    roots = [c for c in calls if F.body(c) is not None]
    for x in F.transitive_callees(roots):
        res.add(x)
        b = F.body(x)
        if b is not None:
            for bi, t in b.calls():
                res |= set(call_names(t))
    return res


# ----------------------------------------------------------------------------- msync coverage

def _follow_moves(body, l, n=4):
    """the single definition reached from local l through plain moves/copies and `.#0` of a checked-arithmetic pair"""
    for _ in range(n):
        ds = body.defs().get(l, [])
        if len(ds) != 1:
            return None
        d = ds[0]
        if d[2] == 'call':
            return d
        r = d[3]['r']
        if r['k'] == 'use' and op_place(r['a'][0]) is not None:
            pl = op_place(r['a'][0])
            if len(pl) == 1 or (len(pl) == 2 and pl[1] == '.#0'):
                l = pl[0]
                continue
        return d
    return None


def msync_tail_offset(body, bi):
    """if the call in block bi msyncs a mapping up to its end, the offset it starts at (0 for MmapMut::flush);
    None if it is not an msync or does not provably reach the end of the mapping (offset + length == map.len())."""
    t = body.term(bi)
    if call_matches(t, ['memmap2::MmapMut::flush', 'memmap2::MmapMut::flush_async']) and not call_matches(t, ['memmap2::MmapMut::flush_async']):
        return 0
    if not call_matches(t, ['memmap2::MmapMut::flush_range']) or len(t['a']) < 3:
        return None
    off = const_of(body, t['a'][1])
    ll = op_local(t['a'][2])
    if off is None or ll is None:
        return None
    d = _follow_moves(body, ll)
    if d is None:
        return None
    def is_len(dd):
        return dd is not None and dd[2] == 'call' and any(re.search(r'(slice::<impl \[T\]>|MmapMut|MmapRaw)::len$', n) for n in call_names(dd[3]))
    if is_len(d):
        return 0 if off == 0 else None
    if d[2] == 'assign' and d[3]['r']['k'] == 'bin' and d[3]['r']['op'] in ('Sub', 'SubWithOverflow', 'SubUnchecked'):
        a, b = d[3]['r']['a']
        if const_of(body, b) == off and op_local(a) is not None and is_len(_follow_moves(body, op_local(a))):
            return off
    return None


def msync_tail_sites(body, max_off=0):
    """call blocks that msync a mapping to its end starting at an offset <= max_off, directly or through a crate helper all of
    whose Ok paths do so (one fixed point over the crate)."""
    F = body.facts
    cache = F.__dict__.setdefault('_msync_cache', {})
    if max_off not in cache:
        S = set()
        changed = True
        while changed:
            changed = False
            for b in F.bodies.values():
                if b.path in S or not b.return_blocks():
                    continue
                T = [bi for bi, t in b.calls() if bi in b.normal_blocks() and ((msync_tail_offset(b, bi) is not None and msync_tail_offset(b, bi) <= max_off) or any(n in S for n in call_names(t)))]
                if T and ok_return_unreachable_avoiding(b, T) is None:
                    S.add(b.path); changed = True
        cache[max_off] = S
    S = cache[max_off]
    nb = body.normal_blocks()
    return [bi for bi, t in body.calls() if bi in nb and ((msync_tail_offset(body, bi) is not None and msync_tail_offset(body, bi) <= max_off) or any(n in S for n in call_names(t)))]


def msync_partial_sites(F):
    """every msync in the crate that does not provably reach the end of its mapping: (path, loc)"""
    res = []
    for b in F.bodies.values():
        for bi, t in b.calls():
            if call_matches(t, ['memmap2::MmapMut::flush_range', 'memmap2::MmapMut::flush_async_range']) and msync_tail_offset(b, bi) is None:
                res.append((b.path, b.loc(bi)))
    return res


def root_local(body, o, n=6):
    """the local an operand is a plain copy / integer cast of (single definitions only)"""
    l = op_local(o) if isinstance(o, dict) else o
    if isinstance(o, dict) and (op_place(o) is None or len(op_place(o)) != 1):
        return None
    for _ in range(n):
        ds = body.defs().get(l, [])
        # a parameter has its initial value besides any assignment in the body
        if len(ds) != 1 or ds[0][2] != 'assign' or (l is not None and 1 <= l <= body.argc):
            return l
        r = ds[0][3]['r']
        if r['k'] in ('use', 'cast') and op_place(r['a'][0]) is not None and len(op_place(r['a'][0])) == 1:
            l = op_place(r['a'][0])[0]
            continue
        return l
    return l


def empty_slot_skipped(ctx, key, body, desc, rule='K2-loop-order'):
    """page walks: inside a `for` loop over the entries of a page, the `is_empty` test sends the empty case back to the loop head
    (skip), never out of the loop (an empty slot does not end the page: removals clear slots in place). One obligation per test
    found in a loop; walks written as iterator chains (is_empty inside a filter closure) have no such branch and yield none."""
    n = 0
    loops = for_loops_over(body)
    for bi, t in body.calls():
        if bi not in body.normal_blocks() or not call_matches(t, ['re:Entry::is_empty$']):
            continue
        sw = t.get('t')
        if sw is None or body.term(sw)['k'] != 'switch' or body.term(sw)['vals'] != [0]:
            continue
        inner = [lp for lp in loops if bi in body.reachable_from([lp['some']], removed={lp['head']}) and body.dominates(lp['head'], bi)]     # (a loop further down in the body of the page loop reaches the test again, but does not contain it)
        if not inner:
            continue
        # innermost: the loop whose head lies inside the most other candidate loops
        def depth(l):
            return sum(1 for l2 in inner if l2 is not l and body.dominates(l2['some'], l['head']))
        lp = max(inner, key=depth)
        empty_t = body.term(sw)['ts'][1]
        w = body.find_path([empty_t], set(body.return_blocks()) | {lp['none']}, removed={lp['head']} | core.error_exit_blocks(body))
        n += 1
        ctx.ob('%s #%d' % (key, n), rule, body.path, desc, w is None, '' if w is None else 'an empty slot leaves the page walk: ' + short_path(body, w), body.loc(bi))
    return n


def site_in(F, table_fn, path):
    """does a reviewed-table entry written for function `table_fn` cover a site in body `path`? Yes for the function itself,
    its closures, a module prefix entry (ends with '::'), '*', and helpers/closures reachable only through it."""
    if table_fn == '*' or (table_fn.endswith('::') and path.startswith(table_fn)):
        return True
    if strip_closures(path) == strip_closures(table_fn):
        return True
    return confined_through(F, path, {table_fn})


def field_effect_sites(body, pats, field, argi=0):
    """call blocks of `body` that apply a call matching pats to (something derived from) `field` - directly, or by calling a
    crate function / passing a closure that may do so (helper extraction is transparent; may-semantics)."""
    F = body.facts
    key = ('feff', field, argi) + tuple(pats)
    cache = F.__dict__.setdefault('_feff_cache', {})
    if key not in cache:
        direct = set(b.path for b, bi in calls_on_field(F, pats, field, argi))
        cache[key] = (direct, F.transitive_callers(direct))
    direct, reach = cache[key]
    nb = body.normal_blocks()
    res = []
    for bi, t in body.calls():
        if bi not in nb:
            continue
        if call_matches(t, pats) and field in receiver_fields(body, t, argi):
            res.append(bi)
        elif any(n in reach for n in call_names(t) if n in F.bodies and n != body.path):
            res.append(bi)
        elif any(c in reach for c in closure_operands(body, t)):
            res.append(bi)
    return res


def bodies_of(F, fn):
    """the body of `fn` and the bodies of the closures written in it (an iterator chain instead of a loop moves code into one)"""
    b = F.body(fn)
    if b is None:
        return []
    return [b] + [F.bodies[p] for p in sorted(F.bodies) if p.startswith(fn + '::{closure') ]


def closure_use_sites(F, cl):
    """[(parent body, block)] where the closure body `cl` is handed to a call in the function it is written in"""
    pb = F.body(strip_closures(cl.path))
    if pb is None:
        return []
    direct = F.body(re.sub(r'::\{closure#\d+\}$', '', cl.path)) or pb
    return [(direct, bi) for bi, t in direct.calls() if bi in direct.normal_blocks() and cl.path in closure_operands(direct, t)]


def entry_point_of(F, path, recorded, depth=3):
    """the function a site is NAMED after in a finding key. A recorded finding keeps its identity when the code around the site is
    moved into a private helper: if `path` is a private, non-closure function whose chain of single callers reaches a function that a
    recorded finding of the same rule names (`recorded`), the site is named after that function. Anything else keeps its own name (a
    site in a function that no record reaches through single callers is a different violation and is reported)."""
    own = strip_closures(path)
    cur = own
    for _ in range(depth):
        if cur in recorded:
            return cur
        b = F.body(cur)
        if b is None or str(b.d.get('vis')) == 'Public':
            break
        callers = set(strip_closures(c) for c in F.callers(cur)) - {cur}
        if len(callers) != 1:
            break
        cur = next(iter(callers))
    return cur if cur in recorded else own


def family(F, root):
    """the body `root`, its closures, and the crate functions reachable only through it (helpers extracted from it)."""
    rb = F.body(root)
    if rb is None:
        return []
    res = [rb]
    for c in sorted(F.transitive_callees([root])):
        if c == root:
            continue
        b = F.body(c)
        if b is not None and confined_through(F, c, {root}):
            res.append(b)
    return res


def value_sources(body, local, depth=3, _seen=None, _pending=()):
    """where the value in `local` is made: list of (body, block, stmt|term) for aggregates, constants and foreign calls,
    looking through moves/copies, `?` (Try::branch + payload projection), Ok(..) wrappers, the return values of crate
    functions (depth-limited) and tuple packing (a value read as field N of a tuple is followed into element N of the
    tuple aggregate it was packed in, also across a helper's return value)."""
    _seen = _seen if _seen is not None else set()
    out = []
    stack = [(local, tuple(_pending))]
    while stack:
        l, pend = stack.pop()
        if (body.path, l, pend) in _seen:
            continue
        _seen.add((body.path, l, pend))
        for (bi, si, kind, x) in body.defs().get(l, []):
            if kind == 'assign':
                r = x['r']
                if r['k'] in ('use', 'cast') and op_place(r['a'][0]) is not None:
                    pl = op_place(r['a'][0])
                    more = tuple(int(e[2:]) for e in pl[1:] if isinstance(e, str) and re.match(r'^\.#\d+$', e))
                    stack.append((pl[0], pend + tuple(reversed(more))))
                elif r['k'] in ('use', 'cast'):
                    out.append((body, bi, x))
                elif r['k'] == 'agg' and r['ak'] in ('Adt:std::result::Result::Ok', 'Adt:std::ops::ControlFlow::Continue') and r['a'] and op_place(r['a'][0]) is not None:
                    stack.append((op_place(r['a'][0])[0], pend))
                elif r['k'] == 'agg' and str(r['ak']).startswith('Tuple') and pend and pend[-1] < len(r['a']) and op_place(r['a'][pend[-1]]) is not None:
                    stack.append((op_place(r['a'][pend[-1]])[0], pend[:-1]))
                elif r['k'] in ('ref', 'copyderef'):
                    stack.append((r['p'][0], pend))
                else:
                    out.append((body, bi, x))
            elif kind == 'call':
                if call_matches(x, ['std::ops::Try::branch']) and x['a'] and op_local(x['a'][0]) is not None:
                    stack.append((op_local(x['a'][0]), pend))
                    continue
                cb = None
                for n in call_names(x):
                    if body.facts.body(n) is not None:
                        cb = body.facts.body(n)
                        break
                if cb is not None and depth > 0 and cb.path != body.path:
                    out += value_sources(cb, 0, depth - 1, _seen, pend)
                else:
                    out.append((body, bi, x))
    return out


def shallow_calls(F, calls, owner=None):
    """callee names in `calls` plus the names called directly by the crate bodies among them (one level), and - transitively -
    by closures written inside `owner`. For predicates factored into a small helper or a closure."""
    res = set(calls)
    todo = [c for c in calls if F.body(c) is not None]
    seen = set()
    while todo:
        c = todo.pop()
        if c in seen:
            continue
        seen.add(c)
        b = F.body(c)
        for bi, t in b.calls():
            res |= set(call_names(t))
        for st in (s for blk in b.blocks for s in blk['s']):
            if st['k'] == 'assign' and st['r']['k'] == 'agg' and str(st['r'].get('ak', '')).startswith('Closure:'):
                todo.append(st['r']['ak'][8:]); res.add(st['r']['ak'][8:])
        if owner is not None:
            for n in list(res):
                if n.startswith(owner + '::{closure') and n not in seen and F.body(n) is not None:
                    todo.append(n)
    return res


def fam_sites(F, root, pats):
    """(body, block) call sites matching pats in `root`, its closures and the helpers reachable only through it."""
    return [(fb, bi) for fb in family(F, root) for bi in fb.call_sites(*pats) if bi in fb.normal_blocks()]


def paired_after(ctx, key, F, root, first_pats, second_pats, second_field, desc, rule='K1-must-pass', min_first=1):
    """after each call matching first_pats made by `root` (or by a helper extracted from it) every success path applies
    second_pats to `second_field` - in the same function, or, when the first call sits at the end of a helper, in each caller
    after the helper returns."""
    firsts = fam_sites(F, root, first_pats)
    ctx.ob(key + ' anchors', 'anchor', root, 'the first call of the pair exists', len(firsts) >= min_first, str([(fb.path, bi) for fb, bi in firsts]))
    n = 0
    for fb, e in firsts:
        n += 1
        seconds = field_effect_sites(fb, second_pats, second_field)
        w = ok_return_unreachable_avoiding(fb, seconds, [e]) if seconds else ['?']
        ok = w is None
        det = ''
        if not ok and fb.path != root:
            # the helper returns without the second call: every caller must make it after the helper call
            ok = True
            for cpath in F.callers(fb.path):
                cb = F.body(cpath)
                if cb is None:
                    continue
                cs2 = field_effect_sites(cb, second_pats, second_field)
                for cs in cb.call_sites(fb.path):
                    if not cs2 or ok_return_unreachable_avoiding(cb, cs2, [cs]) is not None:
                        ok = False
                        det = 'neither %s nor its caller %s makes the second call on every success path' % (fb.path, cpath)
        elif not ok:
            det = 'success path without the second call: ' + (short_path(fb, w) if w and w != ['?'] else 'no such call in the function')
        ctx.ob('%s #%d' % (key, n), rule, fb.path, desc, ok, det, fb.loc(e))


def type_mentions(F, ty, needle_rx, depth=4, _seen=None):
    """does type string `ty` mention (directly or through the fields of crate structs/enums it names) a type matching needle_rx?"""
    _seen = _seen if _seen is not None else set()
    ty = str(ty)
    if re.search(needle_rx, ty):
        return True
    if depth <= 0:
        return False
    for path, adt in F.adts.items():
        if path in _seen or not re.search(r'(^|[^A-Za-z0-9_:])' + re.escape(path) + r'($|[^A-Za-z0-9_])', ty):
            continue
        _seen.add(path)
        for v in adt['variants']:
            for f in v['fields']:
                if type_mentions(F, f.get('ty', ''), needle_rx, depth - 1, _seen):
                    return True
    return False


def pure_variant_selector(b):
    """the body only looks at the enum discriminant of its argument and projects a field out of it (no calls, no other tests)"""
    for bi in b.normal_blocks():
        t = b.term(bi)
        if t['k'] == 'call':
            return False
        if t['k'] == 'switch':
            d = switch_def(b, bi)
            if not d or d[2] != 'assign' or d[3]['r']['k'] != 'discr':
                return False
    return True


def loop_source_selectors(body, loop):
    """crate functions / closures handed to the iterator adaptors that feed `loop` (filter_map(f), filter(|..|), map(..)),
    and the names of the adaptors"""
    t = body.term(loop['head'])
    if not t['a'] or op_place(t['a'][0]) is None:
        return [], set()
    sl = backward_slice(body, [op_place(t['a'][0])])
    sels = [body.facts.body(c) for c in sl.calls if body.facts.body(c) is not None]
    adaptors = set(c.split('::')[-1] for c in sl.calls if re.search(r'Iterator::[a-z_]+$', c))
    return sels, adaptors


def errkind_guarded(body, site):
    """the io::ErrorKind values under which `site` can be reached: every path from the entry to `site` must take the equal edge of
    some `err.kind() == <constant kind>` comparison; returns the set of kinds of those comparisons whose equal edge leads to the site
    (empty set = some path reaches the site without such a comparison)."""
    edges = []
    for bi in body.normal_blocks():
        pol = eq_polarity(body, bi)
        if not pol:
            continue
        eq_t, ne_t, ops = pol
        # one operand is the kind() of the error, the other the constant it is compared with: the constants are taken from the
        # slice of that other operand only (the error itself may come through code that builds errors of other kinds, e.g. the
        # instrumented try_io! with its ErrorKind::Other)
        per = [(o, backward_slice(body, [op_place(o)])) for o in ops if op_place(o)]
        subj = [o for o, sl in per if any(c.endswith('std::io::Error::kind') for c in sl.calls)]
        if not subj:
            continue
        ks = set()
        for o in ops:
            if isinstance(o, dict) and o.get('ev') and 'ErrorKind' in str(o.get('ty', '')):
                ks.add(o['ev'])
        for o, sl in per:
            if any(o is x for x in subj):
                continue
            ks |= set(c['ev'] for c in sl.consts if isinstance(c, dict) and c.get('ev') and 'ErrorKind' in str(c.get('ty', '')))
            ks |= set(m.group(1) for x in (y for l in sl.locals for y in body.defs().get(l, [])) if x[2] == 'assign' and x[3]['r']['k'] == 'agg'
                      for m in [re.match(r'Adt:std::io::ErrorKind::(\w+)$', str(x[3]['r']['ak']))] if m)
        if len(subj) == len(per) and not ks:
            ks = {'?'}
        edges.append((bi, eq_t, ks or {'?'}))
    if not edges:
        return set()
    if body.find_path([0], {site}, removed_edges=set((bi, eq_t) for bi, eq_t, _ in edges)) is not None:
        return set()
    kinds = set()
    for bi, eq_t, ks in edges:
        if site in body.reachable_from([eq_t]) and bi in body.reachable_from([0]):
            # this comparison's equal edge is one of the ways in (it matters if removing all OTHER such edges still lets the site be reached)
            others = set((b2, e2) for b2, e2, _ in edges if (b2, e2) != (bi, eq_t))
            if body.find_path([0], {site}, removed_edges=others) is not None:
                kinds |= ks
    return kinds


def _type_len(ty):
    """byte length a value of (a reference to) this type has when viewed as a slice, if the type fixes it"""
    ty = str(ty)
    m = re.search(r'\[u8; (\d+)\]', ty)
    if m:
        return int(m.group(1))
    if 'GenericArray<u8' in ty and 'typenum' in ty:
        bits = re.findall(r'typenum::(?:bit::)?B([01])\b', ty)
        if bits:
            return int(''.join(bits), 2)
    return None


def static_len(body, o, depth=8):
    """length of the byte slice an operand refers to, when the program text fixes it: a fixed-size array (or typenum array), a
    constant sub-range of anything (`x[a..b]`), an open range of a fixed-size array (`arr[a..]`). None = depends on a run-time length."""
    pl = op_place(o)
    if pl is None or depth < 0:
        return None
    l = pl[0]
    n = _type_len(body.locals[l]) if l < len(body.locals) else None
    if n is not None and '[u8]' not in str(body.locals[l]).replace('[u8; ', ''):
        return n
    ds = body.defs().get(l, [])
    if len(ds) != 1:
        return None
    d = ds[0]
    if d[2] == 'assign':
        r = d[3]['r']
        if r['k'] in ('use', 'cast') and r['a']:
            if r['k'] == 'cast':
                m = re.search(r'\[u8; (\d+)\]', str(r.get('from', '')))
                if m:
                    return int(m.group(1))
            return static_len(body, r['a'][0], depth - 1)
        if r['k'] in ('ref', 'copyderef'):
            return static_len(body, {'o': 'c', 'p': [r['p'][0]]}, depth - 1) if len([e for e in r['p'][1:] if e != '*']) == 0 else None
        return None
    t = d[3]
    nm = t.get('r') or t.get('f') or ''
    if re.search(r'ops::Index(Mut)?<.*>::index(_mut)?$', nm) or nm in ('std::ops::Index::index', 'std::ops::IndexMut::index_mut'):
        base, rng = t['a'][0], t['a'][1]
        rl = op_local(rng)
        rd = [x for x in body.defs().get(rl, []) if x[2] == 'assign'] if rl is not None else []
        if len(rd) == 1 and rd[0][3]['r']['k'] == 'agg':
            ak = str(rd[0][3]['r']['ak'])
            ops = rd[0][3]['r']['a']
            cs = [const_of(body, x) for x in ops]
            if ak.endswith('ops::Range') and len(cs) == 2 and None not in cs:
                return cs[1] - cs[0]
            if ak.endswith('ops::RangeTo') and len(cs) == 1 and cs[0] is not None:
                return cs[0]
            bl = static_len(body, base, depth - 1)
            if ak.endswith('ops::RangeFrom') and len(cs) == 1 and cs[0] is not None and bl is not None:
                return bl - cs[0]
            if ak.endswith('ops::RangeFull'):
                return bl
        return None
    if re.search(r'::to_(le|be|ne)_bytes$', nm) or re.search(r'Deref(Mut)?>::deref(_mut)?$', nm) or re.search(r'::(as_slice|as_mut_slice|as_ref|as_mut|borrow)$', nm):
        n2 = _type_len(body.locals[t['d'][0]])
        if n2 is not None:
            return n2
        return static_len(body, t['a'][0], depth - 1) if t['a'] else None
    return None


def guard_params(body, site, depth=3, _seen=None):
    """parameters of `body` that influence whether `site` is reached (like guard_influences, for parameter locals)"""
    res = set()
    _seen = _seen if _seen is not None else set()
    if site in _seen or depth < 0:
        return res
    _seen.add(site)
    for (s, yes, no) in body.control_deps(site):
        t = body.term(s)
        if t['k'] != 'switch' or op_place(t['a']) is None:
            continue
        sl = backward_slice(body, [op_place(t['a'])])
        res |= sl.params
        for l in sl.locals:
            if l < len(body.locals) and body.locals[l] == 'bool':
                ds = body.defs().get(l, [])
                if ds and all(d[2] == 'assign' and d[3]['r']['k'] == 'use' and 'i' in d[3]['r']['a'][0] for d in ds):
                    for d in ds:
                        if d[3]['r']['a'][0]['i'] != 0:
                            res |= guard_params(body, d[0], depth - 1, _seen)
    return res


def bool_outcome_edges(body, call_blocks):
    """switches whose discriminant is the bool result of one of `call_blocks`, seen through plain copies and `!`:
    list of (switch_block, edge_taken_when_true, edge_taken_when_false) with edges as (block, successor)."""
    cb = set(call_blocks)
    res = []
    for bi in body.normal_blocks():
        t = body.term(bi)
        if t['k'] != 'switch' or t.get('dty') != 'bool':
            continue
        l = op_local(t['a'])
        neg = False
        hit = False
        for _ in range(8):
            ds = body.defs().get(l, [])
            if len(ds) != 1:
                break
            d = ds[0]
            if d[2] == 'call':
                # `helper(..)?` returning Result<bool>: look through the Try::branch to the call that produced the Result
                if call_matches(d[3], [TRY_BRANCH]) and d[3]['a'] and op_local(d[3]['a'][0]) is not None and d[0] not in cb:
                    l = op_local(d[3]['a'][0])
                    continue
                hit = d[0] in cb
                break
            r = d[3]['r']
            if r['k'] == 'un' and r['op'] == 'Not' and op_local(r['a'][0]) is not None:
                neg = not neg
                l = op_local(r['a'][0])
            elif r['k'] in ('use',) and op_place(r['a'][0]) is not None and len(op_place(r['a'][0])) == 1:
                l = op_place(r['a'][0])[0]
            elif r['k'] in ('use',) and op_place(r['a'][0]) is not None and any(isinstance(e, str) and 'Continue' in e for e in op_place(r['a'][0])[1:]):
                l = op_place(r['a'][0])[0]      # the Ok value of a `?`
            else:
                break
        if not hit:
            continue
        zero = [tg for v, tg in zip(t['vals'], t['ts']) if v == 0]
        other = [tg for v, tg in zip(t['vals'], t['ts']) if v != 0] + list(t['ts'][len(t['vals']):])
        if len(zero) != 1 or len(other) != 1:
            continue
        tr, fa = (bi, other[0]), (bi, zero[0])
        res.append((bi, fa, tr) if neg else (bi, tr, fa))
    return res


def result_err_targets(body, call_block):
    """blocks entered when the Result returned by the call in `call_block` is Err: the Break arm of `?` (Try::branch) or the
    variant-1 arm of a `match` on the result."""
    return [tg for _, v, tg in result_switch_edges(body, call_block) if v == 1]


def result_switch_edges(body, call_block):
    """(switch block, discriminant value, target) for the switches on the Result returned by the call in `call_block` (looked at
    directly or through `?`); the otherwise edge of a one-value switch is reported with the complementary value."""
    t = body.term(call_block)
    if t['k'] != 'call' or len(t['d']) != 1:
        return []
    want = {t['d'][0]}
    res = []
    # follow plain moves and Try::branch
    for _ in range(4):
        grew = False
        for bi in body.normal_blocks():
            tt = body.term(bi)
            if tt['k'] == 'call' and call_matches(tt, ['std::ops::Try::branch', 're:Result::<T, E>::(map_err|map|inspect_err|inspect)$']) and tt['a'] and op_local(tt['a'][0]) in want and len(tt['d']) == 1 and tt['d'][0] not in want:
                want.add(tt['d'][0]); grew = True
            for s in body.blocks[bi]['s']:
                if s['k'] == 'assign' and len(s['p']) == 1 and s['r']['k'] == 'use' and op_place(s['r']['a'][0]) is not None and len(op_place(s['r']['a'][0])) == 1 \
                   and op_place(s['r']['a'][0])[0] in want and s['p'][0] not in want and s['p'][0] != 0:
                    want.add(s['p'][0]); grew = True
        if not grew:
            break
    for bi in body.normal_blocks():
        tt = body.term(bi)
        if tt['k'] != 'switch':
            continue
        d = switch_def(body, bi)
        if not d or d[2] != 'assign' or d[3]['r']['k'] != 'discr':
            continue
        pl = d[3]['r']['p']
        if len(pl) == 1 and pl[0] in want:
            for v, tg in zip(tt['vals'], tt['ts']):
                res.append((bi, v, tg))
            if len(tt['vals']) == 1 and tt['vals'][0] in (0, 1):
                res.append((bi, 1 - tt['vals'][0], tt['ts'][-1]))
    return res


def closure_fields(F, names, owner=None, depth=4):
    """struct fields read anywhere in the closures among `names` (and the closures those create, transitively): what a predicate
    written as an iterator chain (`queue.iter().any(|c| c.indexed.values().any(|s| s.used_trees.contains(h)))`) looks at"""
    res = set()
    todo = [n for n in names if '{closure' in n and F.body(n) is not None]
    seen = set()
    while todo and depth > 0:
        nxt = []
        for n in todo:
            if n in seen:
                continue
            seen.add(n)
            b = F.body(n)
            for blk in b.blocks:
                for st in blk['s']:
                    if st['k'] != 'assign':
                        continue
                    pls = [st['p']] + ([st['r'].get('p')] if st['r'].get('p') else []) + [op_place(a) for a in st['r'].get('a', []) if op_place(a)]
                    for pl in pls:
                        res |= set(e for e in pl[1:] if isinstance(e, str) and e.startswith('.') and not e.startswith('.#'))
                    if st['r']['k'] == 'agg' and str(st['r'].get('ak', '')).startswith('Closure:'):
                        nxt.append(st['r']['ak'][8:])
                t = blk['t']
                if t['k'] == 'call':
                    for a in t['a']:
                        if op_place(a):
                            res |= set(e for e in op_place(a)[1:] if isinstance(e, str) and e.startswith('.') and not e.startswith('.#'))
        todo = [n for n in nxt if F.body(n) is not None]
        depth -= 1
    return res


# ----------------------------------------------------------------------------- format templates through String helpers

def expanded_templates(F, body, depth=2):
    """format templates of a body with the placeholders that print the String result of a crate helper replaced by the helper's own
    template (`format!("{}_{}", Self::file_prefix(col), bits)` with `file_prefix = format!("index_{col:02}")` reads
    index_{:02}_{}): list of (block, tokens). Only bodies with a single template are expanded."""
    tpls = [(bi, tk) for bi, tk, raw in fmt_templates(body) if tk]
    if len(tpls) != 1 or depth <= 0:
        return tpls
    bi0, tk = tpls[0]
    news = [(bi, t) for bi, t in sorted(body.calls()) if bi in body.normal_blocks() and re.search(r'fmt::rt::Argument::<.*>::new_\w+', str(t.get('fa') or t.get('r') or ''))]
    out, k = [], 0
    for tok in tk:
        if tok[0] != 'arg':
            out.append(tok)
            continue
        rep = None
        if k < len(news):
            nb_, nt = news[k]
            if 'std::string::String' in str(nt.get('fa') or '') and nt['a'] and op_place(nt['a'][0]) is not None:
                sl = backward_slice(body, [op_place(nt['a'][0])])
                hs = [c for c in sorted(sl.calls) if c in F.bodies and c != body.path and str(F.bodies[c].locals[0]) == 'std::string::String']
                if len(hs) == 1:
                    ht = expanded_templates(F, F.bodies[hs[0]], depth - 1)
                    if len(ht) == 1:
                        rep = ht[0][1]
        k += 1
        out.extend(rep if rep is not None else [tok])
    # adjacent literals merge
    merged = []
    for tok in out:
        if merged and merged[-1][0] == 'lit' and tok[0] == 'lit':
            merged[-1] = ('lit', merged[-1][1] + tok[1])
        else:
            merged.append(tok)
    return [(bi0, merged)]


def string_tokens(F, body, operand, depth=2):
    """template tokens of the String that feeds `operand` (formatted here, or returned by a crate helper), else None"""
    pl = op_place(operand)
    if pl is None:
        return None
    sl = backward_slice(body, [pl])
    if any(c in ('std::fmt::format', 'alloc::fmt::format') or c.endswith('fmt::format') for c in sl.calls):
        et = expanded_templates(F, body, depth)
        return et[0][1] if len(et) == 1 else None
    hs = [c for c in sorted(sl.calls) if c in F.bodies and c != body.path and str(F.bodies[c].locals[0]) == 'std::string::String']
    if len(hs) == 1:
        et = expanded_templates(F, F.bodies[hs[0]], depth)
        return et[0][1] if len(et) == 1 else None
    return None
