"""K5 lock-order graph: classes = payload type of the lock (refined by field path for ambiguous
payloads), edges L -> K whenever K is acquired (directly or through crate callees) while a guard of
L is live. Cycle = potential deadlock."""
import re
import core, lib
from core import call_matches, call_names, op_place, op_local, backward_slice

ACQ_RX = re.compile(r'lock_api::(Mutex|RwLock|ReentrantMutex)::<R, T>::(lock|read|write|upgradable_read|try_lock|try_read|try_write|try_upgradable_read|read_recursive)$'
                    r'|lock_api::RwLockUpgradableReadGuard::<\'a, R, T>::(upgrade|try_upgrade)$')
GUARD_TY = re.compile(r"(MutexGuard|RwLockReadGuard|RwLockWriteGuard|RwLockUpgradableReadGuard|MappedRwLockReadGuard|MappedRwLockWriteGuard)<'[a-z_0-9]+, [A-Za-z_:]+, (.*)>$")
AMBIG = re.compile(r'^(bool|i64|u64|usize|\(\)|u32|i32)$')


def payload_of_guard_type(ty):
    m = GUARD_TY.search(ty)
    if not m:
        return None
    kind, payload = m.group(1), m.group(2)
    return kind, payload


def mode_of(name):
    if name.endswith('::read') or name.endswith('::try_read') or name.endswith('read_recursive'):
        return 'read'
    if name.endswith('upgradable_read') or name.endswith('try_upgradable_read'):
        return 'upgradable'
    if name.endswith('::upgrade') or name.endswith('::try_upgrade'):
        return 'write'
    if name.endswith('::write') or name.endswith('::try_write'):
        return 'write'
    return 'mutex'


def field_path(body, op):
    """'DbInner.commit_overlay' style path of the lock object the receiver operand refers to"""
    l = op_local(op)
    for _ in range(8):
        if l is None:
            return None
        ds = body.defs().get(l, [])
        if len(ds) != 1:
            return None
        bi, si, kind, x = ds[0]
        if kind == 'assign':
            r = x['r']
            if r['k'] in ('ref', 'rawptr', 'copyderef'):
                fl = [e[1:] for e in r['p'][1:] if isinstance(e, str) and e.startswith('.') and not e.startswith('.#') and not e.startswith('.^')]
                if fl:
                    return '.'.join(fl)
                l = r['p'][0]
                continue
            if r['k'] in ('use', 'cast') and op_local(r['a'][0]) is not None:
                fl = [e[1:] for e in op_place(r['a'][0])[1:] if isinstance(e, str) and e.startswith('.') and not e.startswith('.#') and not e.startswith('.^')]
                if fl:
                    return '.'.join(fl)
                l = op_local(r['a'][0])
                continue
            return None
        else:
            # accessor call returning a reference to a field of its receiver, or Deref of Arc / guard
            nm = (x.get('r') or x.get('f') or '')
            F = body.facts
            if nm in F.bodies:
                cb = F.bodies[nm]
                for blk in cb.blocks:
                    for s in blk['s']:
                        if s['k'] == 'assign' and s['p'] == [0] and s['r']['k'] == 'ref':
                            fl = [e[1:] for e in s['r']['p'][1:] if isinstance(e, str) and e.startswith('.') and not e.startswith('.#')]
                            if fl:
                                return '.'.join(fl)
                return None
            if re.search(r'Deref(Mut)?>::deref(_mut)?$', nm) or 'Deref' in nm or nm.endswith('::as_ref') or nm.endswith('::clone'):
                l = op_local(x['a'][0]) if x['a'] else None
                continue
            return None
    return None


_LOCK_FIELD_RX = re.compile(r"lock_api::(?:RwLock|Mutex)<[A-Za-z_:]+, (.*)>$")

def payload_fields(F):
    """payload type -> list of 'Struct.field' whose type is a lock (possibly inside Option/Arc) around that payload"""
    if not hasattr(F, '_payload_fields'):
        m = {}
        for a in F.raw['adts']:
            name = a['path'].split('::')[-1]
            for v in a['variants']:
                for f in v['fields']:
                    ty = f['ty']
                    if ty.startswith('&'):
                        continue        # a reference to a lock owned elsewhere
                    inner = ty
                    for _ in range(3):
                        mm = re.match(r'^(?:std::option::Option|std::sync::Arc)<(.*)>$', inner)
                        if mm:
                            inner = mm.group(1)
                    mm = _LOCK_FIELD_RX.search(inner)
                    if mm and ('RwLock<' in inner or 'Mutex<' in inner):
                        m.setdefault(mm.group(1), []).append(name + '.' + f['name'])
        F._payload_fields = m
    return F._payload_fields


def canon(F, payload, fp):
    """canonical class: the unique field holding a lock with this payload, else the (last two components of the)
    field path seen at the acquisition, else the payload type (merged class)."""
    if 'dyn db::TreeReader' in payload:
        return 'tree-reader(dynamic, per tree)'
    cands = payload_fields(F).get(payload, [])
    if len(cands) == 1:
        return cands[0]
    if fp:
        parts = fp.split('.')
        last2 = '.'.join(parts[-2:]) if len(parts) >= 2 else fp
        # generic WaitCondvar<S>.work: keep the owning field to tell the instances apart
        if parts[-2:] == ['WaitCondvar', 'work'] and len(parts) >= 4:
            return '.'.join(parts[-4:-2]) + '.work'
        if last2 in cands or not cands:
            return last2
        return last2
    return 'type:' + payload


def lock_class(body, t):
    """class name of the lock acquired by call t"""
    rty = t.get('rty', '')
    pg = payload_of_guard_type(rty)
    payload = pg[1] if pg else '?'
    fp = field_path(body, t['a'][0]) if t['a'] else None
    return canon(body.facts, payload, fp)


def guard_class_of_local(body, l, acq):
    ty = body.locals[l]
    pg = payload_of_guard_type(ty)
    if pg is None:
        # struct owning a guard (LogReader) or Option<Guard>
        m = GUARD_TY.search(ty.rstrip('>') + '>') if False else None
        mm = re.search(r"(MutexGuard|RwLockReadGuard|RwLockWriteGuard|RwLockUpgradableReadGuard)<'[a-z_0-9]+, [A-Za-z_:]+, (.*?)>+$", ty)
        if 'log::LogReader<' in ty:
            return canon(body.facts, 'std::option::Option<log::Reading>', None)
        if mm:
            payload = mm.group(2)
            for (bi, t) in acq.get(l, []):
                nm = t.get('f') or t.get('r') or ''
                if ACQ_RX.search(nm) and not nm.endswith('upgrade'):
                    return lock_class(body, t)
            return canon(body.facts, payload, None)
        return None
    payload = pg[1]
    for (bi, t) in acq.get(l, []):
        nm = t.get('f') or t.get('r') or ''
        if ACQ_RX.search(nm) and not nm.endswith('upgrade'):
            return lock_class(body, t)
    return canon(body.facts, payload, None)


def build(F):
    """returns (edges {(L,K): [witness]}, acquires {fn: set(class)}, modes {class: set(modes)})"""
    direct = {}
    modes = {}
    for b in F.bodies.values():
        acqs = []
        for bi, t in b.all_calls():
            nm = t.get('f') or t.get('r') or ''
            if ACQ_RX.search(nm) and nm.endswith('upgrade'):
                aty = b.locals[op_local(t['a'][0])] if t['a'] and op_local(t['a'][0]) is not None else ''
                pg = payload_of_guard_type(aty)
                if pg:
                    modes.setdefault(canon(F, pg[1], None), set()).add('upgrade')
            if ACQ_RX.search(nm) and not nm.endswith('upgrade'):
                k = lock_class(b, t)
                acqs.append((bi, k, mode_of(nm)))
                modes.setdefault(k, set()).add(mode_of(nm))
        direct[b.path] = acqs
    # transitive acquires; LogQuery is implemented by three types with different locking behaviour
    # (LogOverlays: none, RwLock<LogOverlays>: read lock per query, LogWriter: delegates to the RwLock):
    # one closure per implementor, selected at call sites whose substitutions name the implementor.
    F.callees('')  # build call graph
    LQ = 'log::LogQuery'
    def closure(choice):
        acq = {p: set(k for _, k, _ in a) for p, a in direct.items()}
        changed = True
        while changed:
            changed = False
            for p in F.bodies:
                cur = acq[p]
                new = set(cur)
                disp = F._dispatch.get(p, set())
                skip = set()
                if choice is not None:
                    for (tr, imp) in disp:
                        if tr == LQ and choice not in imp:
                            skip.add(imp)
                for c in F.callees(p):
                    if c in skip:
                        continue
                    new |= acq.get(c, set())
                if new != cur:
                    acq[p] = new
                    changed = True
        return acq
    acq_all = closure(None)
    acq_by = {'RwLock<': closure('RwLock<'), 'log::LogOverlays as': closure('<log::LogOverlays as'), 'log::LogWriter': closure('log::LogWriter<')}
    def acq_for_site(n, t):
        sub = (t.get('fa') or '') + ' ' + (t.get('ra') or '')
        if 'RwLock<parking_lot::RawRwLock, log::LogOverlays>' in sub:
            return acq_by['RwLock<'].get(n, set())
        if 'log::LogWriter<' in sub:
            return acq_by['log::LogWriter'].get(n, set())
        if re.search(r'::<(.*, )?log::LogOverlays(, .*)?>', sub):
            return acq_by['log::LogOverlays as'].get(n, set())
        return acq_all.get(n, set())
    _sa = {}
    def site_acq(p, depth=0):
        """acquisitions of body p with LogQuery dispatch selected per call site of p (one level of context)"""
        if p in _sa:
            return _sa[p]
        _sa[p] = set()
        b = F.bodies.get(p)
        if b is None:
            return set()
        res = set(k for _, k, _ in direct.get(p, []))
        for bi, t in b.all_calls():
            for n in call_names(t):
                if n in F.bodies:
                    res |= acq_for_site(n, t)
            for c in lib.closure_operands(b, t):
                res |= site_acq(c, depth + 1)
        _sa[p] = res
        return res
    edges = {}
    excl = []
    for b in F.bodies.values():
        if not any('Guard<' in ty for ty in b.locals):
            continue
        if b.argc >= 1 and re.match(r"^&(?:'[a-z_0-9]+ )?mut (column::HashColumn|column::Column|db::DbInner|table::ValueTable|btree::BTreeTable|db::Db)$", b.locals[1]):
            excl.append(b.path)
            continue
        IN, PRE, acq = lib._glive(b)
        # parameters that own a guard by value are live from entry
        param_guards = [l for l in range(1, b.argc + 1) if core.is_guard_value_type(b.locals[l])]
        for bi, t in b.calls():
            if bi not in b.normal_blocks():
                continue
            live = set(PRE.get(bi, ()))
            # a guard parameter is live until dropped/moved: approximate "live at every site not after its drop"
            for pl in param_guards:
                drops = [d for d in b.normal_blocks() if b.term(d)['k'] == 'drop' and b.term(d)['p'] == [pl]]
                moved = [m for m in b.normal_blocks() if b.term(m)['k'] == 'call' and any(a.get('o') == 'm' and a['p'] == [pl] for a in b.term(m)['a'])]
                if not any(bi in b.reaches(d) for d in drops + moved):
                    live.add(pl)
            if not live:
                continue
            held = set()
            for l in live:
                k = guard_class_of_local(b, l, acq)
                if k:
                    held.add((k, l))
            if not held:
                continue
            nm = t.get('f') or t.get('r') or ''
            targets = set()
            if ACQ_RX.search(nm) and nm.endswith('upgrade'):
                targets = set()   # mode change of a lock already held
            elif ACQ_RX.search(nm):
                targets.add((lock_class(b, t), mode_of(nm)))
            elif call_matches(t, ['parking_lot::Condvar::wait', 're:Condvar::wait']):
                targets = set()
            else:
                for n in call_names(t):
                    if n in F.bodies:
                        for k in acq_for_site(n, t):
                            targets.add((k, 'via:' + n))
                for c in lib.closure_operands(b, t):
                    for k in site_acq(c):
                        targets.add((k, 'via:' + c))
            for (K, how) in targets:
                for (L, l) in held:
                    if nm.endswith('::upgrade') and L == K:
                        continue
                    # the guard being passed by value to the callee is still "held"
                    edges.setdefault((L, K), []).append('%s at %s (%s)' % (b.path, b.loc(bi), how))
    F._lockorder_excluded = excl
    return edges, acq_all, modes


def cycles(edges):
    nodes = set(a for a, b in edges) | set(b for a, b in edges)
    adj = {n: set() for n in nodes}
    for (a, b) in edges:
        adj[a].add(b)
    # Tarjan SCC
    idx = {}; low = {}; st = []; on = set(); out = []; c = [0]
    import sys
    sys.setrecursionlimit(10000)
    def sc(v):
        idx[v] = low[v] = c[0]; c[0] += 1; st.append(v); on.add(v)
        for w in adj[v]:
            if w not in idx:
                sc(w); low[v] = min(low[v], low[w])
            elif w in on:
                low[v] = min(low[v], idx[w])
        if low[v] == idx[v]:
            comp = []
            while True:
                w = st.pop(); on.discard(w); comp.append(w)
                if w == v:
                    break
            out.append(comp)
    for v in nodes:
        if v not in idx:
            sc(v)
    res = [comp for comp in out if len(comp) > 1]
    selfs = [a for (a, b) in edges if a == b]
    return res, selfs


def blocking(modes, K, how):
    """can an acquisition of class K in the given mode block?"""
    ms = modes.get(K, set())
    if how in ('write', 'mutex'):
        return True
    if how == 'upgradable':
        return True                       # excludes other upgradable holders and writers
    if how == 'read':
        return bool(ms & {'write', 'upgrade', 'mutex'})
    # via a callee: blocks if any of the callee's possible modes can block -> conservative: class has a writer
    return bool(ms & {'write', 'upgrade', 'mutex', 'upgradable'}) and (bool(ms & {'write', 'upgrade', 'mutex'}) or 'upgradable' in ms and ms != {'read', 'upgradable'})


def analyse(F):
    edges, acq_all, modes = build(F)
    # per-edge blocking: an edge blocks if at least one of its witnesses acquires in a blocking mode
    blocking_edges = {}
    for (L, K), ws in edges.items():
        hows = set(re.search(r'\(([^()]*)\)$', w).group(1) for w in ws)
        blk = False
        for h in hows:
            if h.startswith('via:'):
                # modes with which the callee closure acquires K are unknown here: use the class-level test
                ms = modes.get(K, set())
                if ms & {'write', 'upgrade', 'mutex'}:
                    blk = True
            elif blocking(modes, K, h):
                blk = True
        blocking_edges[(L, K)] = blk
    comps, selfs = cycles(edges)
    bad = []
    for comp in comps:
        sub = {(a, b): edges[(a, b)] for (a, b) in edges if a in comp and b in comp and blocking_edges[(a, b)]}
        c2, _ = cycles(sub)
        if c2:
            bad.append((c2[0], {k: v[:2] for k, v in sub.items() if k[0] in c2[0] and k[1] in c2[0]}))
    bad_self = [(a, edges[(a, a)][:2]) for a in selfs if blocking_edges[(a, a)]]
    return edges, modes, comps, bad, bad_self
